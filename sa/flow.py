"""Value-origin tracing inside one function (flow-insensitive def-use over simple assignments).

`origins(fn, expr)` answers: which base terms can `expr` be computed from, and through which calls?  It follows local names
through every assignment to them in the function (a parameter that is re-assigned has the union of the parameter itself and
the assigned values), call wrappers on their first argument, conditional expressions (both arms) and walrus targets.  The
answer is a set of (base, wrappers) pairs: base is `param:<name>`, an attribute chain (`self.watch.path`) or `expr:<text>` for
anything else; wrappers is the tuple of dotted callee names applied on the way, innermost first.

Used by "spelling preserved" rules: a value that must reach another site unchanged may only pass through copies and an
enumerated set of bijective codecs.
"""

from __future__ import annotations

import ast

from .model import dotted


def _params(fn: ast.FunctionDef) -> list[str]:
    a = fn.args
    return [x.arg for x in a.posonlyargs + a.args + a.kwonlyargs] + ([a.vararg.arg] if a.vararg else []) + ([a.kwarg.arg] if a.kwarg else [])


def _assignments(fn: ast.FunctionDef, name: str) -> list[ast.expr | None]:
    """Values assigned to the local `name` anywhere in fn (None = an assignment whose value is not a plain expression for
    this name: tuple unpacking, for target, with-as, augmented assignment, exception name)."""
    out: list[ast.expr | None] = []
    for n in ast.walk(fn):
        if isinstance(n, (ast.FunctionDef, ast.AsyncFunctionDef, ast.Lambda)) and n is not fn:
            continue
        if isinstance(n, ast.Assign):
            for t in n.targets:
                if isinstance(t, ast.Name) and t.id == name:
                    out.append(n.value)
                elif isinstance(t, (ast.Tuple, ast.List)) and any(isinstance(x, ast.Name) and x.id == name for x in ast.walk(t)):
                    out.append(None)
        elif isinstance(n, ast.AnnAssign) and isinstance(n.target, ast.Name) and n.target.id == name and n.value is not None:
            out.append(n.value)
        elif isinstance(n, ast.AugAssign) and isinstance(n.target, ast.Name) and n.target.id == name:
            out.append(None)
        elif isinstance(n, ast.NamedExpr) and n.target.id == name:
            out.append(n.value)
        elif isinstance(n, (ast.For, ast.AsyncFor)) and any(isinstance(x, ast.Name) and x.id == name for x in ast.walk(n.target)):
            out.append(None)
        elif isinstance(n, (ast.With, ast.AsyncWith)):
            for it in n.items:
                if it.optional_vars is not None and any(isinstance(x, ast.Name) and x.id == name for x in ast.walk(it.optional_vars)):
                    out.append(None)
        elif isinstance(n, ast.ExceptHandler) and n.name == name:
            out.append(None)
    return out


def origins(fn: ast.FunctionDef, expr: ast.expr, _seen: frozenset = frozenset()) -> set[tuple[str, tuple[str, ...]]]:
    if isinstance(expr, ast.Name):
        params = _params(fn)
        vals = _assignments(fn, expr.id)
        out: set[tuple[str, tuple[str, ...]]] = set()
        if expr.id in params:
            out.add((f"param:{expr.id}", ()))
        for v in vals:
            if v is None:
                out.add((f"expr:<{expr.id} bound by unpacking/loop>", ()))
            elif id(v) in _seen:
                continue
            else:
                out |= origins(fn, v, _seen | {id(v)})
        if not out:
            out.add((f"expr:{expr.id}", ()))
        return out
    if isinstance(expr, ast.NamedExpr):
        return origins(fn, expr.value, _seen)
    if isinstance(expr, ast.IfExp):
        return origins(fn, expr.body, _seen) | origins(fn, expr.orelse, _seen)
    if isinstance(expr, ast.Call) and (expr.args or expr.keywords):
        f = dotted(expr.func) or ast.unparse(expr.func)
        arg0 = expr.args[0] if expr.args else expr.keywords[0].value
        return {(b, w + (f,)) for b, w in origins(fn, arg0, _seen)}
    d = dotted(expr)
    if d is not None:
        return {(d, ())}
    return {(f"expr:{ast.unparse(expr)[:60]}", ())}


def unassigned_self_attrs(P, cname: str) -> list[tuple[str, str, int]]:
    """(attribute, reading method, line) for every `self.<attr>` that some method of the class reads but that no method of the
    class or of its library bases ever assigns, and that is not a method, property, class attribute or an attribute of an
    external base (threading.Thread ...).  Such a read raises AttributeError the first time it runs."""
    mro = [c for c in P.mro(cname) if P.has_cls(c)]
    external = [c for c in P.mro(cname) if not P.has_cls(c)]
    assigned: set[str] = set()
    defined: set[str] = set()
    for c in mro:
        ci = P.cls(c)
        defined |= set(ci.methods) | set(ci.attrs)
        for n in ast.walk(ci.node):
            if isinstance(n, ast.Attribute) and isinstance(n.value, ast.Name) and n.value.id == "self" and isinstance(n.ctx, (ast.Store, ast.Del)):
                assigned.add(n.attr)
            if isinstance(n, (ast.AnnAssign,)) and isinstance(n.target, ast.Name):
                defined.add(n.target.id)
            if isinstance(n, ast.Call) and isinstance(n.func, ast.Name) and n.func.id == "setattr" and len(n.args) >= 2 and isinstance(n.args[1], ast.Constant):
                assigned.add(n.args[1].value)
    out = []
    ci = P.cls(cname)
    for m, fi in ci.methods.items():
        for n in ast.walk(fi.node):
            if isinstance(n, ast.Attribute) and isinstance(n.value, ast.Name) and n.value.id == "self" and isinstance(n.ctx, ast.Load):
                a = n.attr
                if a in assigned or a in defined:
                    continue
                if external and (a.startswith("__") or hasattr(__import__("threading").Thread, a) or a in ("name", "daemon", "ident")):
                    continue
                out.append((a, m, n.lineno))
    return out


def check_attrs_initialised(ctx, rule, P, classes, consequence: str) -> None:
    """One instance per class: every `self.<attr>` it reads is assigned somewhere in the class or its library bases."""
    from .fixtures import unassigned_fixture_fires

    unassigned_fixture_fires()
    for c in classes:
        if not P.has_cls(c):
            continue
        ci = P.cls(c)
        bad = unassigned_self_attrs(P, c)
        ctx.check(
            not bad,
            rule,
            f"{c}: every attribute it reads is assigned somewhere",
            "; ".join(f"`self.{a}` is read in {m}() (line {ln}) but never assigned in {c} or its bases" for a, m, ln in bad[:4]) + f": AttributeError the first time that statement runs — {consequence}",
            f"{ci.module.relpath}:{bad[0][2] if bad else ci.node.lineno}",
        )
