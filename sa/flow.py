"""Value-origin tracing inside one function (flow-insensitive def-use over simple assignments).

`origins(fn, expr)` answers: which base terms can `expr` be computed from, and through which calls?  It follows local names
through every assignment to them in the function (a parameter that is re-assigned has the union of the parameter itself and
the assigned values), call wrappers on their first argument, conditional expressions (both arms) and walrus targets.  The
answer is a set of (base, wrappers) pairs: base is `param:<name>`, an attribute chain (`self.watch.path`) or `expr:<text>` for
anything else; wrappers is the tuple of dotted callee names applied on the way, innermost first.

Used by "spelling preserved" rules: a value that must reach another site unchanged may only pass through copies and an
enumerated set of bijective codecs.
"""

from __future__ import annotations

import ast

from .model import dotted


def _params(fn: ast.FunctionDef) -> list[str]:
    a = fn.args
    return [x.arg for x in a.posonlyargs + a.args + a.kwonlyargs] + ([a.vararg.arg] if a.vararg else []) + ([a.kwarg.arg] if a.kwarg else [])


def _assignments(fn: ast.FunctionDef, name: str) -> list[ast.expr | None]:
    """Values assigned to the local `name` anywhere in fn (None = an assignment whose value is not a plain expression for
    this name: tuple unpacking, for target, with-as, augmented assignment, exception name)."""
    out: list[ast.expr | None] = []
    for n in ast.walk(fn):
        if isinstance(n, (ast.FunctionDef, ast.AsyncFunctionDef, ast.Lambda)) and n is not fn:
            continue
        if isinstance(n, ast.Assign):
            for t in n.targets:
                if isinstance(t, ast.Name) and t.id == name:
                    out.append(n.value)
                elif isinstance(t, (ast.Tuple, ast.List)) and any(isinstance(x, ast.Name) and x.id == name for x in ast.walk(t)):
                    out.append(None)
        elif isinstance(n, ast.AnnAssign) and isinstance(n.target, ast.Name) and n.target.id == name and n.value is not None:
            out.append(n.value)
        elif isinstance(n, ast.AugAssign) and isinstance(n.target, ast.Name) and n.target.id == name:
            out.append(None)
        elif isinstance(n, ast.NamedExpr) and n.target.id == name:
            out.append(n.value)
        elif isinstance(n, (ast.For, ast.AsyncFor)) and any(isinstance(x, ast.Name) and x.id == name for x in ast.walk(n.target)):
            out.append(None)
        elif isinstance(n, (ast.With, ast.AsyncWith)):
            for it in n.items:
                if it.optional_vars is not None and any(isinstance(x, ast.Name) and x.id == name for x in ast.walk(it.optional_vars)):
                    out.append(None)
        elif isinstance(n, ast.ExceptHandler) and n.name == name:
            out.append(None)
    return out


def origins(fn: ast.FunctionDef, expr: ast.expr, _seen: frozenset = frozenset()) -> set[tuple[str, tuple[str, ...]]]:
    if isinstance(expr, ast.Name):
        params = _params(fn)
        vals = _assignments(fn, expr.id)
        out: set[tuple[str, tuple[str, ...]]] = set()
        if expr.id in params:
            out.add((f"param:{expr.id}", ()))
        for v in vals:
            if v is None:
                out.add((f"expr:<{expr.id} bound by unpacking/loop>", ()))
            elif id(v) in _seen:
                continue
            else:
                out |= origins(fn, v, _seen | {id(v)})
        if not out:
            out.add((f"expr:{expr.id}", ()))
        return out
    if isinstance(expr, ast.NamedExpr):
        return origins(fn, expr.value, _seen)
    if isinstance(expr, ast.IfExp):
        return origins(fn, expr.body, _seen) | origins(fn, expr.orelse, _seen)
    if isinstance(expr, ast.Call) and (expr.args or expr.keywords):
        f = dotted(expr.func) or ast.unparse(expr.func)
        arg0 = expr.args[0] if expr.args else expr.keywords[0].value
        return {(b, w + (f,)) for b, w in origins(fn, arg0, _seen)}
    d = dotted(expr)
    if d is not None:
        return {(d, ())}
    return {(f"expr:{ast.unparse(expr)[:60]}", ())}


def unassigned_self_attrs(P, cname: str) -> list[tuple[str, str, int]]:
    """(attribute, reading method, line) for every `self.<attr>` that some method of the class reads but that no method of the
    class or of its library bases ever assigns, and that is not a method, property, class attribute or an attribute of an
    external base (threading.Thread ...).  Such a read raises AttributeError the first time it runs."""
    mro = [c for c in P.mro(cname) if P.has_cls(c)]
    external = [c for c in P.mro(cname) if not P.has_cls(c)]
    assigned: set[str] = set()
    defined: set[str] = set()
    for c in mro:
        ci = P.cls(c)
        defined |= set(ci.methods) | set(ci.attrs)
        for n in ast.walk(ci.node):
            if isinstance(n, ast.Attribute) and isinstance(n.value, ast.Name) and n.value.id == "self" and isinstance(n.ctx, (ast.Store, ast.Del)):
                assigned.add(n.attr)
            if isinstance(n, (ast.AnnAssign,)) and isinstance(n.target, ast.Name):
                defined.add(n.target.id)
            if isinstance(n, ast.Call) and isinstance(n.func, ast.Name) and n.func.id == "setattr" and len(n.args) >= 2 and isinstance(n.args[1], ast.Constant):
                assigned.add(n.args[1].value)
    out = []
    ci = P.cls(cname)
    for m, fi in ci.methods.items():
        for n in ast.walk(fi.node):
            if isinstance(n, ast.Attribute) and isinstance(n.value, ast.Name) and n.value.id == "self" and isinstance(n.ctx, ast.Load):
                a = n.attr
                if a in assigned or a in defined:
                    continue
                if external and (a.startswith("__") or hasattr(__import__("threading").Thread, a) or a in ("name", "daemon", "ident")):
                    continue
                out.append((a, m, n.lineno))
    return out


def check_attrs_initialised(ctx, rule, P, classes, consequence: str) -> None:
    """One instance per class: every `self.<attr>` it reads is assigned somewhere in the class or its library bases."""
    from .fixtures import unassigned_fixture_fires

    unassigned_fixture_fires()
    for c in classes:
        if not P.has_cls(c):
            continue
        ci = P.cls(c)
        bad = unassigned_self_attrs(P, c)
        ctx.check(
            not bad,
            rule,
            f"{c}: every attribute it reads is assigned somewhere",
            "; ".join(f"`self.{a}` is read in {m}() (line {ln}) but never assigned in {c} or its bases" for a, m, ln in bad[:4]) + f": AttributeError the first time that statement runs — {consequence}",
            f"{ci.module.relpath}:{bad[0][2] if bad else ci.node.lineno}",
        )


# ------------------------------------------------------------------------------------------------ final (write-once) fields
def _attr_store_sites(P) -> dict[str, list[tuple[str, str]]]:
    """attribute name -> [(class, method)] of every `<anything>.<attr> = ...` / augmented / del / setattr site in the program."""
    cache = getattr(P, "_store_sites_cache", None)
    if cache is not None:
        return cache
    out: dict[str, list[tuple[str, str]]] = {}
    for m in P.modules.values():
        for n in ast.walk(m.tree):
            if isinstance(n, ast.ClassDef):
                for f in n.body:
                    if isinstance(f, (ast.FunctionDef, ast.AsyncFunctionDef)):
                        for x in ast.walk(f):
                            if isinstance(x, ast.Attribute) and isinstance(x.ctx, (ast.Store, ast.Del)):
                                on_self = isinstance(x.value, ast.Name) and x.value.id == "self"
                                out.setdefault(x.attr, []).append((n.name if on_self else "<other object>", f.name))
                            elif isinstance(x, ast.Call) and isinstance(x.func, ast.Name) and x.func.id in ("setattr", "delattr") and len(x.args) >= 2:
                                k = x.args[1].value if isinstance(x.args[1], ast.Constant) else "*"
                                out.setdefault(k, []).append((n.name, f.name))
        for n in m.tree.body:
            if isinstance(n, (ast.FunctionDef, ast.AsyncFunctionDef)):
                for x in ast.walk(n):
                    if isinstance(x, ast.Attribute) and isinstance(x.ctx, (ast.Store, ast.Del)):
                        out.setdefault(x.attr, []).append(("<module>", n.name))
    P._store_sites_cache = out
    return out


def _init_store(P, clsname: str, attr: str):
    """(class, value expr, __init__ node) if `attr` is stored exactly once in the whole program, by a top-level statement of an
    __init__ of a class in the MRO of clsname (a write-once field); None otherwise."""
    sites = _attr_store_sites(P)
    if "*" in sites:
        return None
    # stores through `self` in unrelated classes concern other objects; a store through any other receiver may concern this class
    family = set(P.mro(clsname)) | set(P.subclasses(clsname))
    ss = [x for x in sites.get(attr, []) if x[0] in family or x[0] in ("<other object>", "<module>")]
    if len(ss) != 1 or ss[0][1] != "__init__" or ss[0][0] not in P.mro(clsname):
        return None
    ci = P.classes.get(ss[0][0])
    init = ci.methods.get("__init__") if ci else None
    if init is None or init.variants:
        return None
    for st in init.node.body:  # top level only: unconditional
        tgt = val = None
        if isinstance(st, ast.Assign) and len(st.targets) == 1:
            tgt, val = st.targets[0], st.value
        elif isinstance(st, ast.AnnAssign) and st.value is not None:
            tgt, val = st.target, st.value
        if isinstance(tgt, ast.Attribute) and tgt.attr == attr and isinstance(tgt.value, ast.Name) and tgt.value.id == "self":
            return ss[0][0], val, init.node
    return None


def _stable_read(P, clsname: str, attr: str, depth: int = 0) -> bool:
    """Reading `<instance of clsname>.<attr>` yields the same value for the life of the object: a write-once field holding a
    parameter / constant, or a read-only property returning such a field."""
    if depth > 3 or clsname not in P.classes:
        return False
    fi = P.find_method(clsname, attr)
    if fi is not None:
        if not any(isinstance(d, ast.Name) and d.id == "property" for d in fi.node.decorator_list) or fi.variants:
            return False
        if any(c.methods.get(attr) is not fi for c in (P.classes[s] for s in P.subclasses(clsname)) if attr in c.methods):
            return False  # overridden somewhere below
        body = [b for b in fi.node.body if not (isinstance(b, ast.Expr) and isinstance(b.value, ast.Constant))]
        if len(body) == 1 and isinstance(body[0], ast.Return) and isinstance(body[0].value, ast.Attribute) and isinstance(body[0].value.value, ast.Name) and body[0].value.value.id == "self":
            return _stable_read(P, clsname, body[0].value.attr, depth + 1)
        return False
    got = _init_store(P, clsname, attr)
    if got is None:
        return False
    _, val, init = got
    params = {a.arg for a in init.args.posonlyargs + init.args.args + init.args.kwonlyargs}
    # the stored value is a parameter (possibly normalised by a pure conversion) or a constant: nothing that can change later
    if isinstance(val, ast.Constant):
        return True
    if isinstance(val, ast.Name) and val.id in params:
        return True
    if isinstance(val, ast.IfExp) or (isinstance(val, ast.Call) and isinstance(val.func, ast.Name) and val.func.id in ("str", "bytes", "int", "bool", "tuple", "frozenset")):
        return all(isinstance(n, (ast.Name, ast.Constant, ast.IfExp, ast.Call, ast.Load, ast.Compare, ast.Is, ast.IsNot, ast.Eq, ast.NotEq)) and (not isinstance(n, ast.Call) or (isinstance(n.func, ast.Name) and n.func.id in ("str", "bytes", "int", "bool", "tuple", "frozenset", "isinstance"))) for n in ast.walk(val))
    return False


def final_field_terms(P, clsname: str) -> dict[str, ast.expr]:
    """Write-once fields of the class whose value is a *derived, stable* expression, with that expression spelled over `self`:

        self._keep_bytes = isinstance(watch.path, bytes)      (in __init__, where also self._watch = watch, once)
            ->  {"_keep_bytes": isinstance(self._watch.path, bytes)}

    Conditions: the field is stored once in the whole program, unconditionally in an __init__ of the class's MRO; the expression is
    built from constants, isinstance / comparison / boolean operators / not, and attribute chains rooted at an __init__ parameter
    that is itself kept in a write-once field, every link of the chain being a stable read of the (annotated) class.  A read of
    such a field anywhere in the class means what the expression means, so rules see through the cache."""
    cache = P.__dict__.setdefault("_final_terms_cache", {})
    if clsname in cache:
        return cache[clsname]
    out: dict[str, ast.expr] = {}
    cache[clsname] = out
    if clsname not in P.classes:
        return out
    cand = set()
    for c in P.mro(clsname):
        ci = P.classes.get(c)
        init = ci.methods.get("__init__") if ci else None
        if init is None:
            continue
        for st in init.node.body:
            tgt = st.targets[0] if isinstance(st, ast.Assign) and len(st.targets) == 1 else (st.target if isinstance(st, ast.AnnAssign) else None)
            if isinstance(tgt, ast.Attribute) and isinstance(tgt.value, ast.Name) and tgt.value.id == "self":
                cand.add(tgt.attr)
    for attr in sorted(cand):
        got = _init_store(P, clsname, attr)
        if got is None:
            continue
        owner, val, init = got
        if isinstance(val, (ast.Name, ast.Constant)):
            continue  # plain copies are not caches of anything
        ptypes = {a.arg: P.type_of_annotation(a.annotation) if a.annotation is not None else None for a in init.args.posonlyargs + init.args.args + init.args.kwonlyargs}

        def param_field(pn: str) -> str | None:
            """the write-once field (anywhere in the MRO) that keeps the constructor argument `pn`"""
            for c in P.mro(clsname):
                ci = P.classes.get(c)
                i2 = ci.methods.get("__init__") if ci else None
                if i2 is None or pn not in {a.arg for a in i2.node.args.posonlyargs + i2.node.args.args + i2.node.args.kwonlyargs}:
                    continue
                for st in i2.node.body:
                    if isinstance(st, ast.Assign) and len(st.targets) == 1 and isinstance(st.value, ast.Name) and st.value.id == pn:
                        t = st.targets[0]
                        if isinstance(t, ast.Attribute) and isinstance(t.value, ast.Name) and t.value.id == "self" and _init_store(P, clsname, t.attr) is not None:
                            return t.attr
            return None

        ok = True

        def conv(n: ast.expr) -> ast.expr | None:
            nonlocal ok
            if isinstance(n, ast.Constant):
                return n
            if isinstance(n, ast.Attribute):
                chain, cur = [], n
                while isinstance(cur, ast.Attribute):
                    chain.append(cur.attr)
                    cur = cur.value
                if not (isinstance(cur, ast.Name) and cur.id in ptypes):
                    ok = False
                    return None
                fld, t = param_field(cur.id), ptypes[cur.id]
                if fld is None or t is None:
                    ok = False
                    return None
                res: ast.expr = ast.Attribute(ast.Name("self", ast.Load()), fld, ast.Load())
                for a in reversed(chain):
                    if not _stable_read(P, t, a):
                        ok = False
                        return None
                    res = ast.Attribute(res, a, ast.Load())
                    t = P.attr_types(t).get(a) if t in P.classes else None
                    if t is None and a is not chain[0]:
                        ok = False
                        return None
                return res
            if isinstance(n, ast.Call) and isinstance(n.func, ast.Name) and n.func.id == "isinstance" and len(n.args) == 2 and not n.keywords:
                a0 = conv(n.args[0])
                if a0 is None or not all(isinstance(x, (ast.Name, ast.Tuple, ast.Load, ast.Attribute)) for x in ast.walk(n.args[1])):
                    ok = False
                    return None
                return ast.Call(n.func, [a0, n.args[1]], [])
            if isinstance(n, ast.UnaryOp) and isinstance(n.op, ast.Not):
                v = conv(n.operand)
                return ast.UnaryOp(n.op, v) if v is not None else None
            if isinstance(n, ast.BoolOp):
                vs = [conv(v) for v in n.values]
                return ast.BoolOp(n.op, vs) if all(v is not None for v in vs) else None
            if isinstance(n, ast.Compare):
                l_ = conv(n.left)
                cs = [conv(c) for c in n.comparators]
                return ast.Compare(l_, n.ops, cs) if l_ is not None and all(c is not None for c in cs) else None
            ok = False
            return None

        term = conv(val)
        if ok and term is not None:
            out[attr] = ast.fix_missing_locations(term)
    # a write-once tuple field taken apart, once, into write-once fields: `self.a, self.b, self.c = self.t` at the top level of
    # __init__ -- afterwards self.t reads (self.a, self.b, self.c), e.g. in `for fd in self.t: os.close(fd)`
    family = set(P.mro(clsname)) | set(P.subclasses(clsname))
    sites = _attr_store_sites(P)

    def once_in_init(attr: str, owner: str) -> bool:
        ss = [x for x in sites.get(attr, []) if x[0] in family or x[0] in ("<other object>", "<module>")]
        return "*" not in sites and len(ss) == 1 and ss[0] == (owner, "__init__")

    for c in P.mro(clsname):
        ci = P.classes.get(c)
        init = ci.methods.get("__init__") if ci else None
        if init is None or init.variants:
            continue
        for st in init.node.body:
            if not (isinstance(st, ast.Assign) and len(st.targets) == 1 and isinstance(st.targets[0], ast.Tuple)):
                continue
            tg, v = st.targets[0], st.value
            if not (isinstance(v, ast.Attribute) and isinstance(v.value, ast.Name) and v.value.id == "self" and v.attr not in out):
                continue
            if not all(isinstance(x, ast.Attribute) and isinstance(x.value, ast.Name) and x.value.id == "self" for x in tg.elts):
                continue
            if once_in_init(v.attr, c) and all(once_in_init(x.attr, c) for x in tg.elts):
                out[v.attr] = ast.fix_missing_locations(ast.Tuple([ast.Attribute(ast.Name("self", ast.Load()), x.attr, ast.Load()) for x in tg.elts], ast.Load()))
    return out
