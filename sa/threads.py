"""Class-specialised enumeration with inlining across `self.m()`, `super().m()`, `Base.m(self)` and typed attribute
receivers; lock canonicalisation; generic guarded-by analysis."""

from __future__ import annotations

import ast
import re

from .model import AnalysisError, FuncInfo, Program, dotted
from .pse import Cfg, Enumerator, Ev, Path, St, walk_with_locks


def is_property(fi: FuncInfo) -> bool:
    return any((isinstance(d, ast.Name) and d.id == "property") for d in fi.node.decorator_list)


class ThreadCfg(Cfg):
    """Inlines in-repo methods through resolved receivers.

    bindings: {declared class -> concrete class} used when an attribute / local is typed with an abstract class.
    follow: predicate (clsname, methname) -> bool deciding what to inline (default: everything in-repo but properties).
    """

    max_inline_depth = 7

    def __init__(self, program: Program, bindings: dict[str, str] | None = None, no_inline: set[str] | None = None, follow_attrs: bool = True, local_types: dict[str, str] | None = None, raising: dict[str, str] | None = None):
        super().__init__(program)
        self.raising = raising or {}  # regex on the rendered callee -> exception kind
        self.bindings = bindings or {}
        self.no_inline = no_inline or set()
        self.follow_attrs = follow_attrs
        self.ltypes = local_types or {}

    def raises(self, kind, text, node, st):
        if kind == "call" and self.raising:
            f = st.last_func or text.split("(")[0]
            return [k for pat, k in self.raising.items() if re.fullmatch(pat, f)]
        return ()

    def concrete(self, t: str | None) -> str | None:
        if t is None:
            return None
        return self.bindings.get(t, t)

    def local_type(self, name: str, st: St) -> str | None:
        return self.ltypes.get(name)

    def inline(self, call, ft, rc, st):
        P = self.program
        f = call.func
        if not isinstance(f, ast.Attribute):
            return None
        meth = f.attr
        if meth in self.no_inline or f"{st.selfcls}.{meth}" in self.no_inline:
            return None
        recv = f.value
        rtext = ast.unparse(recv)
        fi = None
        selfcls = None
        selfterm = None
        if rtext == "self" and st.selfcls:
            fi = P.find_method(st.selfcls, meth)
            selfcls = st.selfcls
        elif rtext == "super()" and st.selfcls:
            cur = st.fn.split(".")[0]
            fi = P.find_method_after(st.selfcls, cur, meth)
            selfcls = st.selfcls
        elif rtext in P.classes and call.args and ast.unparse(call.args[0]) == "self" and st.selfcls and P.is_subclass(st.selfcls, rtext):
            fi = P.find_method(rtext, meth)
            selfcls = st.selfcls
            # explicit-self call: drop the explicit self argument
            call = ast.Call(call.func, call.args[1:], call.keywords)
            if fi and not is_property(fi) and f"{fi.cls.name}.{meth}" not in self.no_inline:
                return _Shifted(fi), selfcls, None
            return None
        elif rtext in P.classes:
            fi = P.find_method(rtext, meth)  # static / class-level helper
            selfcls = rtext
            if fi and any(isinstance(d, ast.Name) and d.id == "staticmethod" for d in fi.node.decorator_list):
                return fi, selfcls, None
            return None
        elif self.follow_attrs:
            t = self.concrete(self.recv_type(rtext, st)) if re.fullmatch(r"[A-Za-z_][\w.]*", rtext) else None
            if t is None and st.last_orig is not None and isinstance(st.last_orig.func, ast.Attribute):
                # the receiver was a local variable that has been substituted by its defining term: type it by its name
                otext = ast.unparse(st.last_orig.func.value)
                if re.fullmatch(r"[A-Za-z_]\w*", otext) and otext != "self":
                    t = self.concrete(self.local_type(otext, st))
            if t and t in P.classes:
                fi = P.find_method(t, meth)
                selfcls = t
                selfterm = recv
        if fi is None or fi.cls is None or is_property(fi):
            return None
        if f"{fi.cls.name}.{meth}" in self.no_inline:
            return None
        return fi, selfcls, selfterm

    def recv_type(self, text: str, st: St) -> str | None:
        parts = text.split(".")
        if parts[0] == "self":
            t = st.selfcls
            rest = parts[1:]
        else:
            t = self.local_type(parts[0], st)
            rest = parts[1:]
        for a in rest:
            t = self.concrete(t)
            if t is None or t not in self.program.classes:
                return None
            t = self.program.attr_types(t).get(a)
        return self.concrete(t)


class _Shifted(FuncInfo):
    """FuncInfo wrapper for `Base.m(self, ...)` calls: the explicit self argument is the implicit one."""

    def __init__(self, fi: FuncInfo):
        super().__init__(fi.name, fi.qualname, fi.node, fi.module, fi.cls, fi.variants)
        self.explicit_self = True


def lock_aliases(P: Program, clsname: str) -> dict[str, str]:
    """self.A = threading.Condition(self.B)  =>  A is the same lock as B."""
    out: dict[str, str] = {}
    for c in P.mro(clsname):
        ci = P.classes.get(c)
        if not ci:
            continue
        for fi in ci.methods.values():
            for n in ast.walk(fi.node):
                if isinstance(n, ast.Assign) and len(n.targets) == 1 and isinstance(n.value, ast.Call):
                    t = dotted(n.targets[0])
                    d = dotted(n.value.func) or ""
                    if t and t.startswith("self.") and d.split(".")[-1] == "Condition" and n.value.args:
                        a = dotted(n.value.args[0])
                        if a and a.startswith("self."):
                            out[t] = a
    return out


def lock_kind(P: Program, clsname: str, attr: str) -> str | None:
    """'Lock' | 'RLock' | 'Condition' for self.<attr> of clsname, from its constructor call."""
    for c in P.mro(clsname):
        ci = P.classes.get(c)
        if not ci:
            continue
        for fi in ci.methods.values():
            for n in ast.walk(fi.node):
                if isinstance(n, ast.Assign) and len(n.targets) == 1 and isinstance(n.value, ast.Call):
                    t = dotted(n.targets[0])
                    if t == f"self.{attr}":
                        d = (dotted(n.value.func) or "").split(".")[-1]
                        if d in ("Lock", "RLock", "Condition"):
                            if d == "Condition" and not n.value.args:
                                return "Condition(RLock)"  # default lock of a Condition is an RLock
                            return d
    return None


def lock_assignments(P: Program, clsname: str, attr: str) -> list[str]:
    out = []
    for c in P.mro(clsname):
        ci = P.classes.get(c)
        if not ci:
            continue
        for mname, fi in ci.methods.items():
            for n in ast.walk(fi.node):
                tgts = n.targets if isinstance(n, ast.Assign) else [n.target] if isinstance(n, (ast.AnnAssign, ast.AugAssign)) else []
                for t in tgts:
                    if dotted(t) == f"self.{attr}":
                        out.append(f"{c}.{mname}")
    return out


FIELD_RE_CACHE: dict[tuple, re.Pattern] = {}


def fields_in(text: str, fields: tuple[str, ...]) -> list[str]:
    key = fields
    if key not in FIELD_RE_CACHE:
        FIELD_RE_CACHE[key] = re.compile(r"\bself\.(" + "|".join(re.escape(f) for f in fields) + r")\b")
    return FIELD_RE_CACHE[key].findall(text)


def guarded_by(P: Program, clsname: str, fields: tuple[str, ...], lock: str, entries: list[str], cfg: Cfg, canon=None):
    """For every entry method: enumerate paths (with inlining) and report, for every event whose *source text*
    touches one of `fields`, whether `lock` is held there.

    Yields dicts: entry, fn (function the access lives in), field, stmt (normalised), line, held (bool), kind.
    """
    aliases = lock_aliases(P, clsname)

    def c(text: str) -> str:
        t = aliases.get(text, text)
        return canon(t) if canon else t

    results = []
    npaths = 0
    for entry in entries:
        fi = P.find_method(clsname, entry)
        if fi is None:
            raise AnalysisError(f"anchor vanished: {clsname}.{entry}")
        paths = Enumerator(cfg).run(fi, selfcls=clsname)
        npaths += len(paths)
        seen: dict[tuple, bool] = {}
        cont_alias: dict[tuple, str] = {}  # (function, local) -> field: `x = self._f`, the container itself under another name
        for e, held, p in walk_with_locks(paths, c):
            if e.kind in ("inline", "inline_end", "final_iter", "caught", "raised", "acquire", "release"):
                continue
            raw = e.raw or ""
            if e.kind == "loop":
                raw = e.raw
            # taking a reference to the container is not an access to its contents; what is done through that name is
            ma = re.fullmatch(r"\s*(\w+)\s*(?::[^=]+)?=\s*self\.(\w+)\s*", raw)
            if e.kind == "assign" and ma and ma.group(2) in fields:
                cont_alias[(e.fn, ma.group(1))] = ma.group(2)
                continue
            for (fn_, loc_), fld_ in cont_alias.items():
                if fn_ == e.fn and re.search(rf"(?<![\w.]){re.escape(loc_)}\s*(\[|\.)", raw):
                    raw = raw + f"  # self.{fld_}"
            for f in set(fields_in(raw, fields)):
                key = (e.fn, f, " ".join(raw.split())[:140], getattr(e.node, "lineno", 0))
                ok = held.get(c(lock), 0) > 0
                seen[key] = seen.get(key, True) and ok
        for (fn, f, stmt, line), ok in seen.items():
            results.append({"entry": entry, "fn": fn, "field": f, "stmt": stmt, "line": line, "held": ok})
    return results, npaths
