"""Checker self-validation ("test the checker both ways"), thorough tier and development tool.

Each variant is a small source edit applied to a *scratch copy* of /repo/src (tempfile.mkdtemp outside /repo and
/verif, deleted afterwards).  The checker is then run on the copy (VERIF_REPO points at it); the copy is only
parsed, never imported or executed.
  B-variants (breaking)    must be reported, and the report must name the expected rule;
  E-variants (equivalent)  must stay silent.
A variant whose anchor snippet no longer occurs in the tree is skipped and listed (upstream shape changed); it is
not a failure of the property.  A miss or a false report is an ANALYSIS-ERROR of the *checker* (exit 2).
"""

from __future__ import annotations

import json
import os
import shutil
import subprocess
import sys
import tempfile
from concurrent.futures import ThreadPoolExecutor

from .model import REPO

VERIF = os.path.dirname(os.path.dirname(os.path.abspath(__file__)))


def _norm(s: str) -> str:
    return s


def apply_variant(root: str, edits: list[tuple[str, str, str]]) -> bool:
    """edits: (relative file under src/watchdog, old, new). Returns False if an anchor is missing."""
    for rel, old, new in edits:
        p = os.path.join(root, "src", "watchdog", rel)
        if not os.path.exists(p):
            return False
        s = open(p, encoding="utf-8").read()
        if s.count(old) < 1:
            return False
        s = s.replace(old, new, 1)
        open(p, "w", encoding="utf-8").write(s)
    return True


def run_variant(pid: str, name: str, edits, expect: str, rule: str | None, base: str) -> dict:
    d = tempfile.mkdtemp(prefix=f"sa-self-{pid}-")
    try:
        shutil.copytree(os.path.join(base, "src"), os.path.join(d, "src"), ignore=shutil.ignore_patterns("__pycache__", "*.pyc", "*.so"))
        if not apply_variant(d, edits):
            return {"name": name, "status": "skipped", "why": "anchor snippet not found in the current tree"}
        # the variant must still be valid Python
        for rel, _, _ in edits:
            try:
                compile(open(os.path.join(d, "src", "watchdog", rel), encoding="utf-8").read(), rel, "exec")
            except SyntaxError as e:
                return {"name": name, "status": "broken-variant", "why": str(e)}
        env = dict(os.environ, VERIF_REPO=d, VERIF_EVIDENCE_DIR=os.path.join(d, "evidence"), VERIF_TIER="quick")
        r = subprocess.run(
            ["/venv/bin/python", "-B", "-m", "sa.main", pid, "--tier", "quick"], cwd=VERIF, env=env, capture_output=True, text=True, timeout=300
        )
        out = r.stdout + r.stderr
        viol_rules = []
        for line in out.splitlines():
            line = line.strip()
            if line.startswith(f"{pid}/") and " @ " in line:
                viol_rules.append(line.split(" @ ")[0])
        fired = r.returncode == 1
        res = {"name": name, "expect": expect, "rc": r.returncode, "rules": sorted(set(viol_rules))}
        if r.returncode == 2:
            # an ANALYSIS-ERROR on a breaking variant still refuses to pass (fail-closed); on an equivalent one it is a defect of the checker
            res["status"] = "ok" if expect == "fire" else "FALSE-ALARM"
            res["note"] = "analysis error (fail-closed): " + out.strip().splitlines()[-1][:200] if out.strip() else "analysis error"
            return res
        if expect == "fire":
            if fired and (rule is None or any(v.startswith(rule) for v in viol_rules)):
                res["status"] = "ok"
            elif fired:
                res["status"] = "MISNAMED"
            else:
                res["status"] = "MISSED"
        else:
            res["status"] = "ok" if r.returncode == 0 else "FALSE-ALARM"
        if res["status"] != "ok":
            res["output"] = out[-1500:]
        return res
    finally:
        shutil.rmtree(d, ignore_errors=True)


def run_seed(pid: str, name: str, base: str) -> dict:
    """A confirmed seeded change (independent sub-agent, see /verif/seeded/<name>/meta.json) that breaks this property: the
    check must report it.  The patch is applied to a scratch copy with patch(1); a patch that no longer applies is skipped."""
    d = tempfile.mkdtemp(prefix=f"sa-seed-{pid}-")
    try:
        shutil.copytree(os.path.join(base, "src"), os.path.join(d, "src"), ignore=shutil.ignore_patterns("__pycache__", "*.pyc", "*.so"))
        r = subprocess.run(["patch", "-p1", "-s", "-i", os.path.join(VERIF, "seeded", name, "patch.diff")], cwd=d, capture_output=True, text=True)
        if r.returncode != 0:
            return {"name": f"seed {name}", "expect": "fire", "status": "skipped", "why": "patch no longer applies to the current tree"}
        env = dict(os.environ, VERIF_REPO=d, VERIF_EVIDENCE_DIR=os.path.join(d, "evidence"), VERIF_TIER="quick")
        try:
            rr = subprocess.run(["/venv/bin/python", "-B", "-m", "sa.main", pid, "--tier", "quick"], cwd=VERIF, env=env, capture_output=True, text=True, timeout=1500)
        except subprocess.TimeoutExpired:
            # (the typestate exploration of a tree broken in the protocol can take minutes; on a loaded machine that is no verdict)
            return {"name": f"seed {name}", "expect": "fire", "status": "skipped", "why": "replay exceeded its time limit"}
        rules = sorted({l.strip().split(" @ ")[0] for l in rr.stdout.splitlines() if " @ " in l and l.strip().startswith(pid + "/")})
        res = {"name": f"seed {name}", "expect": "fire", "rc": rr.returncode, "rules": rules}
        res["status"] = "ok" if rr.returncode in (1, 2) else "MISSED"
        if res["status"] != "ok":
            res["output"] = (rr.stdout + rr.stderr)[-1500:]
        return res
    finally:
        shutil.rmtree(d, ignore_errors=True)


def run_transform(pid: str, tname: str, base: str) -> dict:
    """A whole-tree behaviour-preserving rewrite computed on the AST (sa/transforms.py): the check must stay silent."""
    from .transforms import TRANSFORMS

    d = tempfile.mkdtemp(prefix=f"sa-tr-{pid}-")
    try:
        shutil.copytree(os.path.join(base, "src"), os.path.join(d, "src"), ignore=shutil.ignore_patterns("__pycache__", "*.pyc", "*.so"))
        n = 0
        for dp, _dn, fns in os.walk(os.path.join(d, "src", "watchdog")):
            for fn in fns:
                if fn.endswith(".py"):
                    p = os.path.join(dp, fn)
                    src = open(p, encoding="utf-8").read()
                    new = TRANSFORMS[tname](src)
                    compile(new, p, "exec")
                    if new != src:
                        n += 1
                    open(p, "w", encoding="utf-8").write(new)
        env = dict(os.environ, VERIF_REPO=d, VERIF_EVIDENCE_DIR=os.path.join(d, "evidence"), VERIF_TIER="quick")
        try:
            rr = subprocess.run(["/venv/bin/python", "-B", "-m", "sa.main", pid, "--tier", "quick"], cwd=VERIF, env=env, capture_output=True, text=True, timeout=1500)
        except subprocess.TimeoutExpired:
            return {"name": f"E whole-tree {tname} ({n} modules rewritten)", "expect": "silent", "status": "skipped", "why": "run exceeded its time limit"}
        rules = sorted({l.strip().split(" @ ")[0] for l in rr.stdout.splitlines() if " @ " in l and l.strip().startswith(pid + "/")})
        res = {"name": f"E whole-tree {tname} ({n} modules rewritten)", "expect": "silent", "rc": rr.returncode, "rules": rules}
        res["status"] = "ok" if rr.returncode == 0 else "FALSE-ALARM"
        if res["status"] != "ok":
            res["output"] = (rr.stdout + rr.stderr)[-2500:]
        return res
    finally:
        shutil.rmtree(d, ignore_errors=True)


def seeds_for(pid: str) -> list[str]:
    out = []
    sd = os.path.join(VERIF, "seeded")
    if os.path.isdir(sd):
        for name in sorted(os.listdir(sd)):
            mp = os.path.join(sd, name, "meta.json")
            if os.path.exists(mp):
                try:
                    meta = json.load(open(mp))
                except ValueError:
                    continue
                # only the changes written to break *this* property are obligations; that a check also notices a change aimed
                # at another property is recorded in meta.json (tools/seed_check.py) but is not required
                if meta.get("breaks_property") == pid:
                    out.append(name)
    return out


def run_equiv(pid: str, name: str, base: str) -> dict:
    """A behaviour-preserving refactoring written by an independent sub-agent for some property (see /verif/equiv/<name>/):
    every check must stay silent on it.  A patch that no longer applies is skipped."""
    d = tempfile.mkdtemp(prefix=f"sa-eq-{pid}-")
    try:
        shutil.copytree(os.path.join(base, "src"), os.path.join(d, "src"), ignore=shutil.ignore_patterns("__pycache__", "*.pyc", "*.so"))
        r = subprocess.run(["patch", "-p1", "-s", "-i", os.path.join(VERIF, "equiv", name, "patch.diff")], cwd=d, capture_output=True, text=True)
        if r.returncode != 0:
            return {"name": f"equiv {name}", "expect": "silent", "status": "skipped", "why": "patch no longer applies to the current tree"}
        env = dict(os.environ, VERIF_REPO=d, VERIF_EVIDENCE_DIR=os.path.join(d, "evidence"), VERIF_TIER="quick")
        try:
            rr = subprocess.run(["/venv/bin/python", "-B", "-m", "sa.main", pid, "--tier", "quick"], cwd=VERIF, env=env, capture_output=True, text=True, timeout=1500)
        except subprocess.TimeoutExpired:
            return {"name": f"equiv {name}", "expect": "silent", "status": "skipped", "why": "run exceeded its time limit"}
        rules = sorted({l.strip().split(" @ ")[0] for l in rr.stdout.splitlines() if " @ " in l and l.strip().startswith(pid + "/")})
        res = {"name": f"equiv {name}", "expect": "silent", "rc": rr.returncode, "rules": rules}
        res["status"] = "ok" if rr.returncode == 0 else "FALSE-ALARM"
        if res["status"] != "ok":
            res["output"] = (rr.stdout + rr.stderr)[-1500:]
        return res
    finally:
        shutil.rmtree(d, ignore_errors=True)


def equivs() -> list[str]:
    ed = os.path.join(VERIF, "equiv")
    return sorted(n for n in os.listdir(ed) if os.path.exists(os.path.join(ed, n, "patch.diff"))) if os.path.isdir(ed) else []


def run_matrix(pid: str, variants: list[dict], base: str = REPO, jobs: int = 16) -> list[dict]:
    with ThreadPoolExecutor(max_workers=jobs) as ex:
        futs = [ex.submit(run_variant, pid, v["name"], v["edits"], v["expect"], v.get("rule"), base) for v in variants]
        futs += [ex.submit(run_seed, pid, name, base) for name in seeds_for(pid)]
        futs += [ex.submit(run_equiv, pid, name, base) for name in equivs()]
        from .transforms import TRANSFORMS

        futs += [ex.submit(run_transform, pid, t, base) for t in TRANSFORMS]
        return [f.result() for f in futs]


def thorough(ctx, variants: list[dict]) -> int:
    """Called from a property module's thorough(): run the matrix, append to the evidence file, return rc."""
    from .report import EVIDENCE_DIR

    res = run_matrix(ctx.prop_id, variants)
    bad = [r for r in res if r["status"] not in ("ok", "skipped")]
    path = os.path.join(EVIDENCE_DIR, f"{ctx.prop_id}.json")
    ev = json.load(open(path))
    ev["coverage"]["self_validation"] = {
        "variants": len(res),
        "breaking_reported": sum(1 for r in res if r.get("expect") == "fire" and r["status"] == "ok"),
        "equivalent_silent": sum(1 for r in res if r.get("expect") == "silent" and r["status"] == "ok"),
        "skipped": [r["name"] for r in res if r["status"] == "skipped"],
        "failed": bad,
        "results": [{k: r.get(k) for k in ("name", "expect", "status", "rules")} for r in res],
    }
    json.dump(ev, open(path, "w"), indent=1, default=str)
    print(
        f"{ctx.prop_id} self-validation: {len(res)} variants, "
        f"{ev['coverage']['self_validation']['breaking_reported']} breaking reported, "
        f"{ev['coverage']['self_validation']['equivalent_silent']} equivalent silent, {len(ev['coverage']['self_validation']['skipped'])} skipped, {len(bad)} failed"
    )
    if bad:
        for b in bad:
            print(f"ANALYSIS-ERROR property={ctx.prop_id}: checker self-validation: variant {b['name']} -> {b['status']}")
        return 2
    return 0


if __name__ == "__main__":
    # development: python -m sa.selftest C04   (runs the property's VARIANTS table)
    import importlib

    pid = sys.argv[1].upper()
    mod = importlib.import_module(f"sa.props.{pid.lower()}")
    res = run_matrix(pid, mod.VARIANTS)
    for r in res:
        print(r["status"], r["name"], r.get("rules", ""), r.get("note", ""))
        if r["status"] not in ("ok", "skipped") and "-v" in sys.argv:
            print(r.get("output", ""))
