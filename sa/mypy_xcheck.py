"""Thorough tier: cross-check the call edges the analyser inlined against mypy's types (mypy lives in the repository's own /venv
as a dev dependency; it is a second opinion on *call resolution only* and decides nothing about the properties).

A disagreement — mypy resolves the same call site to a method of an unrelated class — is an ANALYSIS-ERROR (exit 2): a verdict
built on a wrong call edge must not be believed.  A call site mypy has no type for is counted, not failed."""

from __future__ import annotations

import ast
import json
import os
import subprocess

from .model import REPO

HERE = os.path.dirname(os.path.abspath(__file__))


def mypy_edges(repo: str = REPO):
    try:
        r = subprocess.run(["/venv/bin/python", os.path.join(HERE, "mypy_edges.py"), repo], capture_output=True, text=True, timeout=300)
    except (OSError, subprocess.TimeoutExpired) as e:
        return None, f"mypy could not be run: {e}"
    if r.returncode != 0 or not r.stdout.strip().startswith("{"):
        return None, "mypy run failed: " + (r.stderr.strip().splitlines() or ["?"])[-1][:200]
    d = json.loads(r.stdout)
    idx = {}
    for e in d["edges"]:
        idx.setdefault((e["file"], e["line"], e["method"]), []).append(e)
    return idx, None


def inline_edges(P, paths_iter):
    """(caller relpath, line, method, callee class, caller qualname) for every inlined method call."""
    out = set()
    seen = set()

    def rec(ps):
        for p in ps:
            for e in p.evs:
                if id(e) in seen:
                    continue
                seen.add(id(e))
                if e.kind == "inline" and isinstance(e.node, ast.Call) and isinstance(e.node.func, ast.Attribute) and "." in e.text and "<locals>" not in e.text:
                    caller_cls = e.fn.split(".")[0]
                    ci = P.classes.get(caller_cls)
                    if ci is not None:
                        out.add((ci.module.relpath, e.node.lineno, e.node.func.attr, e.text.split(".")[0], e.fn))
                if e.kind == "loop":
                    rec(e.extra["paths"])

    rec(paths_iter)
    return out


def xcheck(P, paths) -> dict:
    idx, err = mypy_edges()
    if idx is None:
        return {"available": False, "why": err}
    edges = inline_edges(P, paths)
    checked = agreed = untyped = 0
    disagreements = []
    for rel, line, meth, callee_cls, caller in sorted(edges):
        recs = idx.get((rel, line, meth))
        if not recs:
            untyped += 1
            continue
        checked += 1
        ok = False
        for r in recs:
            d = r["def_class"]
            if d == callee_cls or (callee_cls in P.classes and d in P.mro(callee_cls)) or (d in P.classes and callee_cls in P.mro(d)):
                ok = True
        if ok:
            agreed += 1
        else:
            disagreements.append({"site": f"{rel}:{line}", "call": meth, "analyser": callee_cls, "mypy": sorted({r['def_class'] for r in recs}), "in": caller})
    return {"available": True, "inlined_call_sites": len(edges), "checked_against_mypy": checked, "agreed": agreed, "no_mypy_type": untyped, "disagreements": disagreements}
