"""Classification of prefix rewrites  x (known to start with prefix a)  ->  b + rest."""

from __future__ import annotations

import ast

from .pse import render


def classify_rewrite(t: ast.expr) -> dict:
    """Returns {'form': ..., 'anchored': True|False|None, 'x': text, 'a': text, 'b': text}.

    anchored forms (enumerated idioms):
      b + x[len(a):]                         slice
      x.replace(a, b, 1)                     replace-count-1 (anchored only if x is known to start with a)
      b + x.removeprefix(a)                  removeprefix
      os.path.join(b, os.path.relpath(x, a)) relpath
    unanchored:
      x.replace(a, b)                        occurrence-wide: corrupts every path in which `a` re-occurs
    """
    r = {"form": "unknown", "anchored": None, "x": None, "a": None, "b": None, "text": render(t)}
    if isinstance(t, ast.BinOp) and isinstance(t.op, ast.Add):
        b, rest = t.left, t.right
        if isinstance(rest, ast.Subscript) and isinstance(rest.slice, ast.Slice) and rest.slice.upper is None and rest.slice.step is None:
            lo = rest.slice.lower
            if isinstance(lo, ast.Call) and isinstance(lo.func, ast.Name) and lo.func.id == "len" and len(lo.args) == 1:
                return {**r, "form": "slice", "anchored": True, "x": render(rest.value), "a": render(lo.args[0]), "b": render(b)}
        if isinstance(rest, ast.Call) and isinstance(rest.func, ast.Attribute) and rest.func.attr == "removeprefix" and len(rest.args) == 1:
            return {**r, "form": "removeprefix", "anchored": True, "x": render(rest.func.value), "a": render(rest.args[0]), "b": render(b)}
    if isinstance(t, ast.Call) and isinstance(t.func, ast.Attribute) and t.func.attr == "replace" and len(t.args) >= 2:
        x, a, b = t.func.value, t.args[0], t.args[1]
        cnt = t.args[2] if len(t.args) > 2 else next((k.value for k in t.keywords if k.arg == "count"), None)
        if cnt is None:
            return {**r, "form": "replace", "anchored": False, "x": render(x), "a": render(a), "b": render(b)}
        if isinstance(cnt, ast.Constant) and cnt.value == 1:
            return {**r, "form": "replace-count-1", "anchored": True, "x": render(x), "a": render(a), "b": render(b)}
        return {**r, "form": "replace-count-n", "anchored": False, "x": render(x), "a": render(a), "b": render(b)}
    if isinstance(t, ast.Call) and render(t.func) == "os.path.join" and len(t.args) == 2:
        b, rel = t.args
        # join(b, x[len(a) + k:]): drops k characters after the prefix, i.e. assumes they are exactly one separator
        if isinstance(rel, ast.Subscript) and isinstance(rel.slice, ast.Slice) and rel.slice.upper is None and rel.slice.lower is not None:
            lo = rel.slice.lower
            base, k = None, None
            if isinstance(lo, ast.BinOp) and isinstance(lo.op, ast.Add) and isinstance(lo.right, ast.Constant) and isinstance(lo.left, ast.Call) and render(lo.left.func) == "len":
                base, k = lo.left, lo.right.value
            elif isinstance(lo, ast.Call) and render(lo.func) == "len":
                base, k = lo, 0
            if base is not None and len(base.args) == 1:
                return {**r, "form": f"join-slice(+{k})", "anchored": False, "x": render(rel.value), "a": render(base.args[0]), "b": render(b),
                        "why": "the slice drops a fixed number of characters after the prefix and re-joins: right only if exactly that many separators follow the prefix — wrong when the directory is spelled with a trailing separator or is the root"}
        if isinstance(rel, ast.Call) and render(rel.func) == "os.path.relpath" and len(rel.args) == 2:
            return {**r, "form": "relpath", "anchored": True, "x": render(rel.args[0]), "a": render(rel.args[1]), "b": render(b)}
    return r
