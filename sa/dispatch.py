"""Shape rules at the dispatch site (shared by C04 and C05)."""

from __future__ import annotations

import ast
import re

from .model import AnalysisError
from .pse import Enumerator, walk_with_locks
from .threads import ThreadCfg

SNAPSHOT_FUNCS = ("set", "list", "tuple", "frozenset", "sorted")


def find_dispatch_site(P):
    """(class, FuncInfo) of the method of an EventDispatcher subclass that calls <handler>.dispatch(event)."""
    sites = []
    for c in P.subclasses("EventDispatcher"):
        ci = P.classes[c]
        for m, fi in ci.methods.items():
            for n in ast.walk(fi.node):
                if isinstance(n, ast.Call) and isinstance(n.func, ast.Attribute) and n.func.attr == "dispatch":
                    # a private helper with a single caller in the class is analysed from that caller (the engine inlines it):
                    # the lock and the dequeued entry live there
                    cur = fi
                    for _ in range(4):
                        if not cur.name.startswith("_") or cur.name.startswith("__"):
                            break
                        callers = [g for g in ci.methods.values() if g is not cur and any(isinstance(x, ast.Call) and ast.unparse(x.func) == f"self.{cur.name}" for x in ast.walk(g.node))]
                        if len(callers) != 1:
                            break
                        cur = callers[0]
                    if (c, cur) not in sites:
                        sites.append((c, cur))
                    break
    if not sites:
        raise AnalysisError("anchor vanished: no <handler>.dispatch(event) call in any EventDispatcher subclass")
    return sites


def snapshot_of(text: str) -> str | None:
    """If text is a snapshot expression of a collection, return the collection's text."""
    t = text.strip()
    m = re.fullmatch(r"(.+)\.copy\(\)", t)
    if m:
        return m.group(1)
    for f in SNAPSHOT_FUNCS:
        m = re.fullmatch(rf"{f}\((.+)\)", t)
        if m:
            return m.group(1)
    m = re.fullmatch(r"[\[(]\*(.+?),?[\])]", t)
    if m:
        return m.group(1)
    return None


def dispatch_shape(ctx, RD, RW, RLIVE, only_live: bool = False, RLOCK=None):
    """RD: rule id for (i),(iii),(iv),(v); RLIVE: rule id for (ii) live re-check; RW: consumer-key rule (or None)."""
    P = ctx.P

    class _C:
        def check(self, cond, rule, *a, **k):
            if rule is None or (only_live and rule is not RLIVE):
                return cond
            return ctx.check(cond, rule, *a, **k)

        def viol(self, rule, *a, **k):
            if rule is None or (only_live and rule is not RLIVE):
                return
            ctx.viol(rule, *a, **k)

    cx = _C()
    # ---------------------------------------------------------------- dispatch shape
    for cls, fi in find_dispatch_site(P):
        cfg = ThreadCfg(P, no_inline={"dispatch", "join"}, follow_attrs=False)
        paths = Enumerator(cfg).run(fi, selfcls=cls)
        ctx.count("dispatch_site_paths", len(paths))
        loc = fi.loc
        site = f"{cls}.{fi.name}"
        found_loop = False
        lock_ok = True
        for e, held, p in walk_with_locks(paths, lambda s: s):
            if e.kind == "call" and e.extra.get("func", "").endswith(".dispatch"):
                if held.get("self._lock", 0) <= 0:
                    lock_ok = False
        cx.check(lock_ok, RD, f"{site} (iii) under-lock", "handler.dispatch() is called without the observer lock held", loc)
        if RLOCK is not None:
            # (C05: the re-check and the callback are one critical section; a removal that completes in between is followed by a call)
            ctx.check(lock_ok, RLOCK, f"{site} callback under the lock of the re-check", "handler.dispatch() is called after the observer lock was released: a removal by another thread that completes between the re-check and the callback is followed by a call of the removed handler", loc)
        for p in paths:
            loops = [e for e in p.evs if e.kind == "loop"]
            for L in loops:
                body = L.extra["paths"]
                if not any(x.kind == "call" and x.extra.get("func", "").endswith(".dispatch") for b in body for x in b.evs):
                    continue
                found_loop = True
                # (i) snapshot keyed by the dequeued watch
                coll = snapshot_of(L.text)
                okc = coll is not None and re.fullmatch(r"self\._handlers\[(.+)\]|self\._handlers\.(?:get|setdefault)\((.+?)(,.*)?\)", coll) is not None
                key = None
                if okc:
                    m = re.fullmatch(r"self\._handlers\[(.+)\]|self\._handlers\.(?:get|setdefault)\((.+?)(,.*)?\)", coll)
                    key = m.group(1) or m.group(2)
                cx.check(
                    okc,
                    RD,
                    f"{site} (i) snapshot",
                    f"the dispatch loop iterates `{L.text}`: not a snapshot (copy/set/list/tuple/frozenset/sorted/[*x]) of self._handlers[<watch>]",
                    loc,
                    {"iter": L.text},
                )
                # the key is the second component of the dequeued entry
                deq = key is not None and re.search(r"\.get\([^)]*\)\[1\]$|\.get_nowait\(\)\[1\]$", key) is not None
                cx.check(
                    bool(deq),
                    RW,
                    f"{site} consumer-key",
                    f"handlers are looked up under `{key}`, which is not the second component of the dequeued entry",
                    loc,
                )
                # (ii) + (iv): per body path
                ok_ii = ok_iv = True
                msg_ii = msg_iv = ""
                for b in body:
                    disp = [x for x in b.evs if x.kind == "call" and x.extra.get("func", "").endswith(".dispatch")]
                    if len(disp) > 1:
                        ok_iv, msg_iv = False, f"{len(disp)} dispatch calls on one iteration path"
                    mem_true = [
                        a
                        for a, t in b.val.items()
                        if t and " in " in a and a.split(" in ")[0].startswith("$elem(") and "self._handlers" in a.split(" in ", 1)[1]
                    ]
                    mem_any = [a for a, t in b.val.items() if " in " in a and a.split(" in ")[0].startswith("$elem(")]
                    # freshness: the membership test must *read the live registry when it runs* — its own source text reads
                    # self._handlers[...] , or a name bound inside this iteration to such a read.  (After term substitution
                    # an alias bound before the loop looks identical, so this is decided on the unsubstituted test.)
                    fresh = []
                    for ix, x in enumerate(b.evs):
                        if x.kind == "cond" and x.extra.get("truth") and x.text in mem_true:
                            raw = x.raw
                            # the test may be made in a helper method called from the loop body (`if self._is_registered(h, w):`): it is
                            # the helper's own return expression, evaluated inside this iteration, that reads the registry
                            rets = [y for y in b.evs[:ix] if y.kind == "return" and y.text == x.text and y.depth > x.depth]
                            if " in " not in raw and rets:
                                raw = re.sub(r"^return\s+", "", rets[-1].raw or "")
                            rhs = raw.split(" in ", 1)[1] if " in " in raw else raw
                            if "self._handlers" in rhs:
                                fresh.append(x.text)
                            elif any(y.kind == "assign" and re.fullmatch(rf"\s*{re.escape(rhs.strip().split('[')[0].split('.')[0])}\s*(?::[^=]+)?=\s*self\._handlers\s*", y.raw or "") for y in p.evs + b.evs) and "[" in rhs:
                                # the name is the registry itself under another name (`handlers = self._handlers`, the dict is never
                                # re-bound): `handlers[watch]` reads the live entry when the test runs
                                fresh.append(x.text)
                            else:
                                nm = rhs.strip().split("[")[0].split(".")[0]
                                bound_here = [y for y in b.evs if y.kind == "assign" and y.extra.get("name") == nm and "self._handlers" in (y.raw or "") and ".copy()" not in (y.raw or "") and not any(f + "(" in (y.raw or "") for f in SNAPSHOT_FUNCS)]
                                if bound_here:
                                    fresh.append(x.text)
                    if disp and mem_true and not fresh:
                        ok_ii = False
                        msg_ii = (
                            "the membership re-check does not read the live registry: it tests against a value bound before the loop "
                            f"(snapshot or alias), so a handler removed re-entrantly during the loop is still called"
                        )
                    if disp:
                        if not mem_true:
                            ok_ii = False
                            msg_ii = (
                                "dispatch reached without a positive membership test of the handler against a fresh read of "
                                f"self._handlers[...] (tests on this path: {mem_any or 'none'})"
                            )
                        elif key is not None and not any(f"self._handlers[{key}]" in a or f"self._handlers.get({key}" in a or f"self._handlers.setdefault({key}" in a for a in mem_true):
                            ok_ii = False
                            msg_ii = f"membership is re-checked under a different key than the snapshot ({mem_true})"
                    else:
                        if mem_true:
                            ok_iv, msg_iv = False, "handler still registered but not dispatched on this iteration path"
                cx.check(ok_ii, RLIVE, f"{site} (ii) live-recheck", msg_ii, loc)
                cx.check(ok_iv, RD, f"{site} (iv) one-dispatch-per-iteration", msg_iv, loc)
        if not found_loop:
            cx.viol(RD, f"{site} (i) snapshot", "handler.dispatch() is not called from a loop over the handler collection", loc)
        # (v) sentinel first
        ok_v = True
        for p in paths:
            sent = [(a, t) for a, t in p.val.items() if "stop_event" in a]
            has_disp_loop = any(e.kind == "loop" for e in p.evs)
            if has_disp_loop and not any(not t for a, t in sent):
                ok_v = False
            if any(t for a, t in sent) and has_disp_loop:
                ok_v = False
        cx.check(ok_v, RD, f"{site} (v) sentinel-first", "the stop sentinel is not excluded before the dequeued entry is unpacked / dispatched", loc)
        ctx.sample({"dispatch_site": site, "paths": len(paths)})

