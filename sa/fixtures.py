"""Tiny positive examples for rules whose expected number of matches on the real tree is zero ("no raw codec call", "no
descriptor touched outside its owner", "no synthetic flag outside the generators", "no write of the bookkeeping field outside
the primitives", "no lock-order cycle").  Every run — quick tier included — feeds the fixture through the *same* detector the
rule uses and refuses to pass (ANALYSIS-ERROR) if the detector does not fire on it: a detector that has silently stopped
matching anything would otherwise pass forever."""

from __future__ import annotations

import ast

from .model import AnalysisError


def must_fire(name: str, detector, fixture_src: str, *args) -> None:
    tree = ast.parse(fixture_src)
    hits = detector(tree, *args)
    if not hits:
        raise AnalysisError(f"positive fixture for {name} did not match: the detector is broken (a zero-count rule would pass vacuously)")


# ------------------------------------------------------------------------------------------------ detectors (shared with the rules)
def raw_codec_calls(tree: ast.AST) -> list[ast.Call]:
    return [x for x in ast.walk(tree) if isinstance(x, ast.Call) and isinstance(x.func, ast.Attribute) and x.func.attr in ("decode", "encode")]


def attr_accesses_outside(tree: ast.AST, attrs: set[str], owner: str) -> list[tuple[int, str | None]]:
    out = []
    classes = [n for n in ast.walk(tree) if isinstance(n, ast.ClassDef)]
    for n in ast.walk(tree):
        if isinstance(n, ast.Attribute) and n.attr in attrs:
            own = None
            for c in classes:
                if c.lineno <= n.lineno <= (c.end_lineno or 10**9):
                    own = c.name
            if own != owner:
                out.append((n.lineno, own))
    return out


def synthetic_marks(tree: ast.AST) -> list[tuple[str | None, ast.AST]]:
    """(enclosing top-level function, node) for constructor calls passing is_synthetic (not False) and assignments to it."""
    out = []
    stack = [(tree, None)]
    while stack:
        node, owner = stack.pop()
        for ch in ast.iter_child_nodes(node):
            o = owner
            if isinstance(ch, (ast.FunctionDef, ast.AsyncFunctionDef)) and owner is None:
                o = ch.name
            stack.append((ch, o))
            if isinstance(ch, ast.Call):
                for k in ch.keywords:
                    if k.arg == "is_synthetic" and not (isinstance(k.value, ast.Constant) and k.value.value is False):
                        out.append((owner, ch))
            if isinstance(ch, (ast.Assign, ast.AugAssign, ast.AnnAssign)):
                tg = ch.targets if isinstance(ch, ast.Assign) else [ch.target]
                for t in tg:
                    if isinstance(t, ast.Attribute) and t.attr == "is_synthetic":
                        out.append((owner, ch))
    return out


def field_writes(tree: ast.AST, field: str) -> list[tuple[str | None, str | None, ast.AST]]:
    """(class, method, node) of every store / delete / setattr of `.field`."""
    out = []
    for c in [n for n in ast.walk(tree) if isinstance(n, ast.ClassDef)] + [None]:
        body = c.body if c is not None else [n for n in tree.body if isinstance(n, (ast.FunctionDef, ast.AsyncFunctionDef))] if isinstance(tree, ast.Module) else []
        for fn in body:
            if not isinstance(fn, (ast.FunctionDef, ast.AsyncFunctionDef)):
                continue
            for n in ast.walk(fn):
                if isinstance(n, ast.Attribute) and n.attr == field and isinstance(n.ctx, (ast.Store, ast.Del)):
                    out.append((c.name if c else None, fn.name, n))
                if isinstance(n, ast.Call) and isinstance(n.func, ast.Name) and n.func.id in ("setattr", "delattr") and len(n.args) >= 2 and isinstance(n.args[1], ast.Constant) and n.args[1].value == field:
                    out.append((c.name if c else None, fn.name, n))
    return out


def container_resets(tree: ast.AST, field: str) -> list[tuple[str | None, str, ast.AST]]:
    """(class, method, node) of every whole-container reset of `self.<field>` outside __init__: re-assignment or .clear()."""
    out = []
    for c in [n for n in ast.walk(tree) if isinstance(n, ast.ClassDef)]:
        for fn in c.body:
            if not isinstance(fn, (ast.FunctionDef, ast.AsyncFunctionDef)) or fn.name == "__init__":
                continue
            for n in ast.walk(fn):
                if isinstance(n, ast.Attribute) and n.attr == field and isinstance(n.ctx, ast.Store):
                    out.append((c.name, fn.name, n))
                if isinstance(n, ast.Call) and isinstance(n.func, ast.Attribute) and n.func.attr == "clear" and isinstance(n.func.value, ast.Attribute) and n.func.value.attr == field:
                    out.append((c.name, fn.name, n))
    return out


def method_calls(tree: ast.AST, names: set[str]) -> list[tuple[str | None, ast.Call]]:
    """(enclosing function, call) of every `<expr>.<name>(...)` with name in names."""
    out = []
    stack = [(tree, None)]
    while stack:
        node, owner = stack.pop()
        for ch in ast.iter_child_nodes(node):
            o = ch.name if isinstance(ch, (ast.FunctionDef, ast.AsyncFunctionDef)) else owner
            stack.append((ch, o))
            if isinstance(ch, ast.Call) and isinstance(ch.func, ast.Attribute) and ch.func.attr in names:
                out.append((owner, ch))
    return out


def find_cycles(edges: set[tuple[str, str]]) -> list[list[str]]:
    graph: dict[str, set[str]] = {}
    for a, b in edges:
        graph.setdefault(a, set()).add(b)
    cycles, color = [], {}

    def dfs(u, stack):
        color[u] = 1
        for v in sorted(graph.get(u, ())):
            if color.get(v, 0) == 1:
                cycles.append(stack[stack.index(v) :] + [v] if v in stack else [u, v])
            elif color.get(v, 0) == 0:
                dfs(v, stack + [v])
        color[u] = 2

    for u in sorted(graph):
        if color.get(u, 0) == 0:
            dfs(u, [u])
    return cycles


# ------------------------------------------------------------------------------------------------ fixtures
FX_CODEC = "def f(p):\n    return p.decode('utf-8')\n"
FX_FD = "class Inotify:\n    def m(self):\n        return self._inotify_fd\nclass Other:\n    def g(self, i):\n        import os\n        os.close(i._inotify_fd)\n"
FX_SYNTH = "def emitter_code(cls, p):\n    return cls(p, is_synthetic=True)\n"
FX_WRITE = "class Q:\n    def put(self, item):\n        self._last_item = item\n"
FX_CYCLE = {("A", "B"), ("B", "A")}
FX_RESET = "class R:\n    def __init__(self):\n        self._m = {}\n    def forget(self):\n        self._m = {}\n    def wipe(self):\n        self._m.clear()\nclass U:\n    def run(self, r):\n        r.forget()\n"


class _MiniProgram:
    """Just enough of model.Program for the attribute-initialisation detector to run on a fixture."""

    def __init__(self, src: str):
        import types

        self._classes = {}
        tree = ast.parse(src)
        for c in tree.body:
            if isinstance(c, ast.ClassDef):
                methods = {f.name: types.SimpleNamespace(node=f) for f in c.body if isinstance(f, ast.FunctionDef)}
                self._classes[c.name] = types.SimpleNamespace(node=c, methods=methods, attrs={}, bases=[ast.unparse(b) for b in c.bases])

    def has_cls(self, n):
        return n in self._classes

    def cls(self, n):
        return self._classes[n]

    def mro(self, n):
        out, todo = [], [n]
        while todo:
            x = todo.pop(0)
            out.append(x)
            if x in self._classes:
                todo += self._classes[x].bases
        return out


FX_UNASSIGNED = "class T:\n    def __init__(self):\n        self._a = 1\n    def run(self):\n        return self._a + self._start_time\n"


def unassigned_fixture_fires() -> None:
    from .flow import unassigned_self_attrs

    hits = unassigned_self_attrs(_MiniProgram(FX_UNASSIGNED), "T")
    if [h[0] for h in hits] != ["_start_time"]:
        raise AnalysisError("positive fixture for the attribute-initialisation detector did not match: the detector is broken")
