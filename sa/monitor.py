"""Monitor discipline over every untimed Condition.wait() of a set of classes (shared by C06 and C18)."""

from __future__ import annotations

import ast
import re

from .model import AnalysisError, dotted
from .pse import Enumerator
from .threads import ThreadCfg, lock_kind

USER_CODE = {"dispatch", "events_callback", "process_termination_callback", "on_any_event"}


class _WithPrefix:
    """a loop-body path seen together with the events that led into the loop(s) around it"""

    def __init__(self, evs):
        self.evs = evs


def predicate_fields(P, cname: str, evs, w) -> set[str]:
    """The wait predicate as the waiter evaluates it: the attributes of `self` read by the tests made between the last lock
    boundary (acquire / an earlier wait) and the wait itself, on the iteration that waits.  A test made *before* the lock was
    taken is not part of it: what a notifier writes can change between that test and the wait, and its notify is then lost.
    (`while pred: cond.wait()` under the lock and `while True: with cond: if ..: return; cond.wait()` give the same set.)"""
    i = next((j for j, e in enumerate(evs) if e is w), None)
    if i is None:
        return set()
    start = max([j for j, e in enumerate(evs[:i]) if e.kind in ("acquire", "wait")], default=-1)
    fields: set[str] = set()
    for e in evs[start + 1 : i]:
        if e.kind != "cond":
            continue
        fields |= set(re.findall(r"self\.(_\w+)", e.text))
        for hm in re.findall(r"self\.(\w+)\(\)", e.text):
            hf = P.find_method(cname, hm)
            if hf is not None:
                fields |= set(re.findall(r"self\.(_\w+)", ast.unparse(hf.node)))
    return fields


def monitor_discipline(ctx, RM, skip_modules=(), only_classes=None, announce_every_addition: bool = False) -> int:
    P = ctx.P
    thorough = ctx.tier == "thorough"
    LINUX_SKIP = skip_modules
    nwait = 0
    for m in P.modules.values():
        if not thorough and m.name in LINUX_SKIP:
            continue
        for cname, ci in m.classes.items():
            if only_classes is not None and cname not in only_classes:
                continue
            waits = []
            cpaths = {}
            has_cond = any(lock_kind(P, cname, a) in ("Condition", "Condition(RLock)") for a in {dotted(t).split(".")[1] for mf in ci.methods.values() for n in ast.walk(mf.node) if isinstance(n, ast.Assign) for t in n.targets if dotted(t) and dotted(t).startswith("self.") and dotted(t).count(".") == 1})
            if not has_cond:
                continue
            cfg = ThreadCfg(P, follow_attrs=False, no_inline=USER_CODE | {"join", "start"})
            cfg.freeze_locals = True
            for mname, mf in ci.methods.items():
                try:
                    cpaths[mname] = Enumerator(cfg).run(mf, selfcls=cname)
                except AnalysisError:
                    continue

            def find(ps, stack, mname, prefix):
                for p in ps:
                    for i_, e in enumerate(p.evs):
                        if e.kind == "wait" and not e.extra.get("timed"):
                            # what was tested since the last lock boundary includes tests made on the way into the loops around the
                            # wait (a test the engine did not repeat because its outcome was still known is still a test made there)
                            waits.append((mname, e, list(stack), _WithPrefix(prefix + p.evs)))
                        if e.kind == "loop":
                            find(e.extra["paths"], stack + [e], mname, prefix + p.evs[:i_])

            for mname, ps in cpaths.items():
                find(ps, [], mname, [])
            seenw = set()
            pred_fields: set[str] = set()
            per_wait: dict[int, set] = {}
            for mname, w, stack, p in waits:
                # decided per waiting iteration: the wait must sit in a loop (it is re-tested after every wake-up), and the tests made
                # under the lock before it are its predicate; several paths through the same wait: what all of them test
                f_ = predicate_fields(P, cname, p.evs, w) if stack else set()
                per_wait[id(w.node)] = f_ if id(w.node) not in per_wait else (per_wait[id(w.node)] & f_)
            for mname, w, stack, p in waits:
                if id(w.node) in seenw:
                    continue
                seenw.add(id(w.node))
                nwait += 1
                fields = per_wait[id(w.node)]
                pred_fields |= fields
                ctx.check(bool(fields), RM, f"{cname}.{mname}: wait in predicate loop", "untimed wait() is not inside a loop that tests shared state, under the lock, before every wait: a notify (stop, new item) that happens before the wait is lost and the thread sleeps forever", f"{m.relpath}:{w.line}", {"loops": [L.raw for L in stack], "predicate_fields": sorted(fields)})
            if not pred_fields:
                continue
            for mname, ps in cpaths.items():
                notif = False
                writes: set[str] = set()
                for p in ps:
                    for e in p.flat():
                        if e.kind == "notify":
                            notif = True
                        if e.kind == "store" and e.extra.get("recv") == "self":
                            writes.add(e.extra.get("attr"))
                        if e.kind == "call":
                            mm = re.fullmatch(r"self\.(_\w+)\.(append|appendleft|extend|insert|set|add|put)", e.extra.get("func", ""))
                            if mm:
                                writes.add(mm.group(1))
                if announce_every_addition and notif and not any(x.kind == "wait" for p in ps for x in p.flat()):
                    # a method that notifies does so on *every* path on which it adds to the predicate's state: a later addition that is
                    # not announced leaves a waiter (also one in a timed wait that re-arms on every notify) unaware of it
                    for p in ps:
                        if p.outcome[0] == "raise":
                            continue
                        adds = {mm.group(1) for e in p.flat() if e.kind == "call" for mm in [re.fullmatch(r"self\.(_\w+)\.(append|appendleft|extend|insert|add|put)", e.extra.get("func", ""))] if mm}
                        if adds & pred_fields and not any(e.kind == "notify" for e in p.flat()):
                            ctx.viol(RM, f"{cname}.{mname}: every addition is announced", f"a path of {mname}() adds to {sorted(adds & pred_fields)} without notifying ({p.sig()[:100]}): the waiter is not told about that element", ci.methods[mname].loc)
                            break
                if notif:
                    ctx.check(bool(writes & pred_fields), RM, f"{cname}.{mname}: notifier writes the predicate", f"notifies after writing {sorted(writes)} but the tests the waiter makes under the lock before waiting read only {sorted(pred_fields)}: the waiter either re-checks an unchanged predicate and waits again, or has tested the written state before taking the lock — a notify that falls between that test and the wait is lost and the thread sleeps forever", ci.methods[mname].loc)
    ctx.count("untimed_waits", nwait)
    return nwait

