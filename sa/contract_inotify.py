"""Contract table for InotifyEmitter.queue_events and its comparison with the extracted emission table.

Rows marked C come from the property text (C03: "create: created + parent modified; rename inside the tree:
one moved event carrying both paths + both parents modified + one synthetic moved event per descendant; move
out: deleted; move in: created (+ synthetic created per descendant)"; C07: root deletion). Rows marked R
(attrib/modify/open/close) are the documented behaviour confirmed on the pinned tree, kept so that a silent
change is reported.  The table is behavioural: it constrains event classes, order, multiplicity and path
roles per abstract native kind — not source text.
"""

from __future__ import annotations

import re
from dataclasses import dataclass

from .emit import KIND_FLAGS, Emission, Row


@dataclass
class Exp:
    kind: str  # 'E' | 'G' | 'STOP'
    family: str = ""  # Moved / Created / ...
    flavour: str = ""  # 'entry' (Dir/File by the record's IN_ISDIR) | 'Dir' | 'File'
    roles: tuple = ()  # e.g. (('self','ev'),) or (('self','ev[0]'),('self','ev[1]'))
    gen: str = ""

    def cls(self, isdir: bool | None) -> str | None:
        if self.flavour == "entry":
            if isdir is None:
                return None
            return ("Dir" if isdir else "File") + self.family + "Event"
        return self.flavour + self.family + "Event"


def role_of(text: str) -> tuple | None:
    """Classify a path term: ('self'|'parent', 'ev'|'ev[0]'|'ev[1]') , ('empty',), or None (unresolved)."""
    t = text.strip()
    if t in ("''", '""', "b''"):
        return ("empty",)
    m = re.search(r"\bev(\[[01]\])?\.src_path\b", t)
    if not m:
        return None
    which = "ev" + (m.group(1) or "")
    ndir = t.count("dirname(")
    # at most one level of dirname is meaningful here
    return ("parent" if ndir >= 1 else "self", which)


PARENT = lambda w: Exp("E", "Modified", "Dir", (("parent", w),))  # noqa: E731

TREE_CHANGING = {"tuple", "is_moved_to", "is_moved_from", "is_delete", "is_create", "is_delete_self"}
SOURCE = {
    "tuple": "C",
    "is_moved_to": "C",
    "is_moved_from": "C",
    "is_delete": "C",
    "is_create": "C",
    "is_delete_self": "C",
    "is_attrib": "R",
    "is_modify": "R",
    "is_open": "R",
    "is_close_write": "R",
    "is_close_nowrite": "R",
}


def expected(kind: str, isdir: bool | None, rec: bool | None, full: bool, root: bool | None) -> list[tuple[bool | None, list[Exp]]]:
    """Acceptable emission sequences as (is_directory value used, sequence): one alternative per value of an *undetermined* mode
    bit (is_directory, recursive, root) that the contract depends on.  A path that leaves such a bit undetermined has to meet
    every alternative at once, which is impossible unless they coincide."""

    def alt(isdir_: bool | None, rec_: bool | None, root_: bool | None) -> list[Exp]:
        if kind == "tuple":
            seq = [Exp("E", "Moved", "entry", (("self", "ev[0]"), ("self", "ev[1]"))), PARENT("ev[0]"), PARENT("ev[1]")]
            if isdir_ and rec_:
                seq.append(Exp("G", gen="generate_sub_moved_events", roles=(("self", "ev[0]"), ("self", "ev[1]"))))
            return seq
        if kind == "is_moved_to":
            first = (
                Exp("E", "Moved", "entry", (("empty",), ("self", "ev"))) if full else Exp("E", "Created", "entry", (("self", "ev"),))
            )
            seq = [first, PARENT("ev")]
            if isdir_ and rec_:
                seq.append(Exp("G", gen="generate_sub_created_events", roles=(("self", "ev"),)))
            return seq
        if kind in ("is_attrib", "is_modify"):
            return [Exp("E", "Modified", "entry", (("self", "ev"),))]
        if kind == "is_delete" or (kind == "is_moved_from" and not full):
            return [Exp("E", "Deleted", "entry", (("self", "ev"),)), PARENT("ev")]
        if kind == "is_moved_from":
            return [Exp("E", "Moved", "entry", (("self", "ev"), ("empty",))), PARENT("ev")]
        if kind == "is_create":
            return [Exp("E", "Created", "entry", (("self", "ev"),)), PARENT("ev")]
        if kind == "is_delete_self":
            return [Exp("E", "Deleted", "entry", (("self", "ev"),)), Exp("STOP")] if root_ else []
        if kind == "is_open":
            return [] if isdir_ else [Exp("E", "Opened", "File", (("self", "ev"),))]
        if kind == "is_close_write":
            return [] if isdir_ else [Exp("E", "Closed", "File", (("self", "ev"),)), PARENT("ev")]
        if kind == "is_close_nowrite":
            return [] if isdir_ else [Exp("E", "ClosedNoWrite", "File", (("self", "ev"),))]
        return []

    isdirs = [isdir] if isdir is not None else [True, False]
    recs = [rec] if rec is not None else [True, False]
    roots = [root] if root is not None else [True, False]
    alts: list[tuple[bool | None, list[Exp]]] = []
    concrete: list[list[tuple]] = []
    for d in isdirs:
        for r in recs:
            for ro in roots:
                a = alt(d, r, ro)
                # two alternatives coincide when they demand the same concrete classes / roles
                key = [(x.kind, x.cls(d) if x.kind == "E" else x.gen, x.roles) for x in a]
                if key not in concrete:
                    concrete.append(key)
                    alts.append((d, a))
    return alts


def classify(row: Row) -> dict:
    """Abstract native kind and mode bits of an emission-table row, from its valuation."""
    v = row.val
    info = {"kind": "none", "isdir": None, "rec": None, "root": None, "inactive": False, "full": row.mode["full"]}
    for a, t in v.items():
        if t and (a == "self._inotify is None" or a == "ev is None"):
            info["inactive"] = True
        if a == "isinstance(ev, tuple)" and t:
            info["kind"] = "tuple"
        if a == "self.watch.is_recursive":
            info["rec"] = t
        if "==" in a and "self.watch.path" in a and "src_path" in a:
            info["root"] = t
    if info["kind"] != "tuple":
        pos = [k for k in KIND_FLAGS if v.get(f"ev.{k}") is True]
        if len(pos) == 1:
            info["kind"] = pos[0]
        elif len(pos) > 1:
            info["kind"] = "+".join(pos)
        d = v.get("ev.is_directory")
    else:
        d = v.get("ev[0].is_directory")
        if d is None:
            d = v.get("ev[1].is_directory")
    info["isdir"] = d
    if info["kind"] == "is_delete_self":
        info["isdir"] = True if d is None else d
    return info


def compare(found: list[Emission], exp: list[Exp], isdir: bool | None) -> tuple[bool, str, int]:
    """(ok, message, unresolved_roles)."""
    unresolved = 0
    if len(found) != len(exp):
        return False, f"expected {len(exp)} emissions, found {len(found)}", 0
    for i, (f, x) in enumerate(zip(found, exp)):
        if x.kind == "STOP":
            if f.kind != "STOP":
                return False, f"emission {i}: expected the emitter to stop, found {f.brief()}", 0
            continue
        if x.kind == "G":
            if f.kind != "G" or f.cls != x.gen:
                return False, f"emission {i}: expected synthetic sub-events from {x.gen}, found {f.brief()}", 0
            roles = [role_of(a) for a in f.args]
            if None in roles or len(roles) != len(x.roles):
                unresolved += 1
            elif tuple(roles) != x.roles:
                return False, f"emission {i}: {x.gen} called with path roles {roles}, expected {list(x.roles)}", 0
            continue
        if f.kind != "E":
            return False, f"emission {i}: expected an event, found {f.brief()}", 0
        want = x.cls(isdir)
        if want is None:
            if not f.cls.endswith(x.family + "Event"):
                return False, f"emission {i}: expected a {x.family} event, found {f.cls}", 0
            unresolved += 1
        elif f.cls != want:
            return False, f"emission {i}: expected {want}, found {f.cls}", 0
        if f.kwargs.get("is_synthetic") not in (None, "False"):
            return False, f"emission {i}: {f.cls} marked synthetic by the emitter", 0
        roles = [role_of(a) for a in f.args]
        if len(roles) != len(x.roles) and not (len(x.roles) == 2 and len(roles) == 1):
            if x.family == "Moved":
                return False, f"emission {i}: moved event with {len(roles)} path argument(s)", 0
        if None in roles:
            unresolved += 1
        elif len(roles) == len(x.roles) and tuple(roles) != x.roles:
            return False, f"emission {i}: {f.cls} carries path roles {roles}, expected {list(x.roles)}", 0
        elif len(roles) != len(x.roles):
            return False, f"emission {i}: {f.cls} carries {len(roles)} paths, expected {len(x.roles)}", 0
    return True, "", unresolved
