"""C13 — registry stays consistent over any call sequence; failed calls leave no trace.

Decided: failed-call atomicity of schedule(); coherence of the four collections per public mutator; one emitter per equal
watch; watch identity derives from one key.  Not decided: equivalence with a reference map over all call sequences.
"""

from __future__ import annotations

import ast
import re

from ..model import AnalysisError, dotted
from ..pse import NORMAL, Enumerator, walk_with_locks
from ..threads import ThreadCfg

LEVEL_TEXT = (
    "Static analysis. Path enumeration of BaseObserver.schedule with every call that may raise per the property's fault model "
    "(emitter construction, emitter.start) forked into an exceptional edge: on each such path the net registry effect is "
    "computed; per public mutator the set of collections changed on each normal path must be one of the coherent combinations; "
    "control dependence of emitter construction on the emitter-map membership test; structure of ObservedWatch identity methods."
)

COLL = {"_handlers": "H", "_emitters": "E", "_emitter_for_watch": "M", "_watches": "W"}
ADD = ("add", "append", "setdefault", "update")
REM = ("remove", "discard", "pop", "popitem")


def registry_effects(evs):
    """[(collection letter, '+'|'-'|'0' (clear), key text, event)] in order, from a path's events."""
    out = []
    for e in evs:
        if e.kind == "setitem":
            m = re.fullmatch(r"self\.(_\w+)", e.extra.get("container", ""))
            if m and m.group(1) in COLL:
                out.append((COLL[m.group(1)], "+", e.extra.get("key", ""), e))
        elif e.kind == "del":
            m = re.fullmatch(r"self\.(_\w+)", e.extra.get("container", ""))
            if m and m.group(1) in COLL:
                out.append((COLL[m.group(1)], "-", e.extra.get("key", ""), e))
        elif e.kind == "call":
            f = e.extra.get("func", "")
            # d.setdefault(k, <fresh empty container>).op(..) acts on the entry of k, created on demand: what d[k].op(..) does on a defaultdict
            f = re.sub(r"^self\.(_\w+)\.setdefault\((.+), (?:set\(\)|list\(\)|\[\]|\{\}|dict\(\))\)\.", r"self.\1[\2].", f)
            m = re.fullmatch(r"self\.(_\w+)(\[(.+)\])?\.(\w+)", f)
            if m is None:
                # an alias of a handler set bound on this path: handlers = self._handlers[watch]; handlers.remove(h)
                m2 = re.fullmatch(r"self\.(_handlers)\[(.+)\]\.(\w+)", f)
                m = m2
            if m and m.group(1) in COLL:
                op = m.group(4) if m.re.groups == 4 else m.group(3)
                c = COLL[m.group(1)]
                key = (m.group(3) if m.re.groups == 4 else m.group(2)) or (e.extra.get("args") or [""])[0]
                if c == "H" and m.re.groups == 4 and m.group(2):
                    c = "h"  # element of one watch's handler set, not the key of the registry
                if op in ADD:
                    out.append((c, "+", key, e))
                elif op in REM:
                    out.append((c, "-", key, e))
                elif op == "clear":
                    out.append((c, "0", "*", e))
        elif e.kind == "loop":
            inner = [x for b in e.extra["paths"] for x in registry_effects(b.evs)]
            # a loop over (a copy of) all keys of the emitter map that takes each key's emitter out of the map -- and that emitter out of
            # the emitter set -- empties both: the same effect as clear()
            m_all = re.fullmatch(r"(?:list|tuple|set|frozenset)\(self\._emitter_for_watch(?:\.keys\(\))?\)|self\._emitter_for_watch\.copy\(\)", e.text)
            if m_all:
                el = f"$elem({e.text})"
                bodies = [b for b in e.extra["paths"] if b.outcome[0] != "raise"]
                takes = bodies and all(any(c == "M" and op == "-" and k == el for c, op, k, _x in registry_effects(b.evs)) for b in bodies)
                drops = bodies and all(any(c == "E" and op == "-" and (k == f"self._emitter_for_watch.pop({el})" or k == f"self._emitter_for_watch[{el}]") for c, op, k, _x in registry_effects(b.evs)) for b in bodies)
                if takes:
                    out.append(("M", "0", "*", e))
                    inner = [x for x in inner if not (x[0] == "M" and x[1] == "-" and x[2] == el)]
                if takes and drops:
                    out.append(("E", "0", "*", e))
                    inner = [x for x in inner if not (x[0] == "E" and x[1] == "-")]
            out.extend(inner)
    return out


def absent_in_emitter_map(atom: str, truth) -> bool:
    """The decided atom says: this watch has no emitter yet (`w in map` false, or `map.get(w) is None` true)."""
    if re.fullmatch(r".+ in self\._emitter_for_watch", atom):
        return truth is False
    if re.fullmatch(r"self\._emitter_for_watch\.get\(.+\) is None", atom):
        return truth is True
    return False


def net(effects):
    """Net multiset: adds not undone by a later removal of the same (collection, key)."""
    live = []
    for c, op, key, e in effects:
        if op == "+":
            live.append((c, key, e))
        elif op == "-":
            for i in range(len(live) - 1, -1, -1):
                if live[i][0] == c and (live[i][1] == key or c in ("E",)):
                    del live[i]
                    break
            else:
                live.append((c + "-", key, e))
        else:
            live = [x for x in live if x[0] != c]
            live.append((c + "0", key, e))
    return live


def watch_identity(ctx, RI, P) -> None:
    """ObservedWatch identity: (path, recursive flag, filter), one key for ==, != and hash; the filter is stored by the same rule
    in the watch and in the emitter (None stays None, anything else -- the empty filter included -- becomes a frozenset).
    Shared: C13 (one emitter per distinct watch), C04 (queue entries are (event, watch) pairs compared with ==), C11 (the filter
    is part of what distinguishes two schedules of one directory)."""
    ow = P.cls("ObservedWatch")
    for m in ("__eq__", "__ne__", "__hash__"):
        mf = ow.methods.get(m)
        if mf is None and m == "__ne__":
            ctx.ok(RI, "ObservedWatch.__ne__ (derived from __eq__ by the language)", ow.loc)
            continue
        if mf is None:
            ctx.viol(RI, f"ObservedWatch.{m}", "identity method missing (object identity would be used)", ow.loc)
            continue
        # what the method and the private helpers it calls on self read of the two watches (the helpers' names themselves are not data)
        attrs = set()
        for hf in P.self_closure("ObservedWatch", m):
            params = {a.arg for a in hf.node.args.args}
            attrs |= {n.attr for n in ast.walk(hf.node) if isinstance(n, ast.Attribute) and isinstance(n.value, ast.Name) and n.value.id in params | {"self", "watch"}}
        attrs -= {h for h in ow.methods if h != "key" and not any(isinstance(d, ast.Name) and d.id == "property" for d in ow.methods[h].node.decorator_list)}
        attrs -= {"eq", "ne"} if any(isinstance(n, ast.Attribute) and isinstance(n.value, ast.Name) and n.value.id == "operator" for hf in P.self_closure("ObservedWatch", m) for n in ast.walk(hf.node)) else set()
        ctx.check(attrs == {"key"}, RI, f"ObservedWatch.{m}", f"reads {sorted(attrs)}: identity must be a function of the one key", mf.loc)
    kf = ow.methods.get("key")
    if kf is None:
        raise AnalysisError("anchor vanished: ObservedWatch.key")
    from ..watchpath import NORMALISERS, fields_of, key_path_component

    kpc = key_path_component(P)
    comps, odd = [], []
    for el in kpc["elts"]:
        for b, wr in sorted(fields_of(P, "ObservedWatch", kf.node, el)):
            comps.append(b[5:] if b.startswith("self.") else b)
            if wr and not (b == "self._path" and all(w in NORMALISERS for w in wr)):
                odd.append(f"{'('.join(reversed(wr))}({b})")
    want = {"_path", "_is_recursive", "_event_filter"}
    ctx.check(set(comps) == want and len(comps) == 3 and not odd, RI, "ObservedWatch.key", f"key is built from {comps}{' through ' + ', '.join(odd) if odd else ''}; the property's watch identity is (path, recursive flag, filter)", kf.loc)
    ctx.check(
        kpc["normalised"] or not kpc["only_field"],
        RI,
        "ObservedWatch.key carries the normalised path",
        f"the key reads {kpc['as_written']} while the path is stored as given and only normalised when read through `path` ({kpc['model']['stored_cases']}): pathlib.Path('/d') and '/d' -- the same path, flag and filter -- are two watches, each with its own emitter and handler set",
        kf.loc,
    )

    # the filter as stored: decided by `is None`, never by truthiness (an empty filter selects nothing; it is not "no filter")
    from ..pse import Cfg

    class _FCfg(Cfg):
        """module-level helper functions of the module are followed (the normalisation shared by the watch and the emitter may be one)"""

        def inline(self, call, ft, rc, st):
            if isinstance(call.func, ast.Name) and st.module is not None and call.func.id in getattr(st.module, "functions", {}) and call.func.id not in st.env:
                fi_ = st.module.functions[call.func.id]
                if not any(isinstance(n, (ast.Yield, ast.YieldFrom)) for n in ast.walk(fi_.node)):
                    return fi_, st.selfcls, None
            return None

    for cname in ("ObservedWatch", "EventEmitter"):
        ini = P.find_method(cname, "__init__")
        if ini is None:
            raise AnalysisError(f"anchor vanished: {cname}.__init__")
        okf, why, seenf = True, "", set()
        for p in Enumerator(_FCfg(P)).run(ini, selfcls=cname):
            st = [e for e in p.evs if e.kind == "store" and e.extra.get("attr") == "_event_filter"]
            if len(st) != 1:
                okf, why = False, "the filter is not stored exactly once"
                continue
            c = p.conds()
            isnone = c.get("event_filter is None")
            v = st[0].extra.get("value")
            seenf.add(isnone)
            if isnone is True and v != "None":
                okf, why = False, f"no filter is stored as `{v}`"
            elif isnone is False and v != "frozenset(event_filter)":
                okf, why = False, f"a given filter is stored as `{v}` instead of frozenset(event_filter)"
            elif isnone is None:
                okf, why = False, "the stored filter does not depend on `event_filter is None` (a truthiness test makes the empty filter [] collapse into 'no filter': two different watches become one, sharing one emitter whose own filter is whichever came first)"
        ctx.check(okf and seenf == {True, False}, RI, f"{cname}.__init__ stores the filter by `is None`", why or "both cases expected", ini.loc)


def run(ctx) -> None:
    P = ctx.P
    RA = ctx.rule(
        "C13/failed-call-atomicity",
        "on every path of schedule() that leaves through a call that may raise (emitter construction, emitter.start), the net "
        "effect on the registry so far is empty, or an enclosing handler undoes it before re-raising",
        floor=2,
    )
    RC = ctx.rule(
        "C13/coherent-effects",
        "per public mutator, the collections changed on each normal path form a coherent combination: add watch (all four), add "
        "handler only (+ idempotent watch add), remove handler only, remove watch (all four), clear (all four)",
        floor=5,
    )
    RO = ctx.rule("C13/one-emitter-per-watch", "emitter construction is control-dependent on a failed membership test of the watch in the emitter map, under the lock", floor=1)
    RHS = ctx.rule("C13/handlers-of-a-watch-form-a-set", "the registry maps a watch to a *set* of handlers: the per-watch collection is a set, or every insertion is made under a failed membership test (instance shared with C04): scheduling the same handler twice for equal watches leaves one registration, and one removal removes it", floor=1)
    from .c04 import registry_holds_a_handler_once

    registry_holds_a_handler_once(ctx, RHS, P)
    RI = ctx.rule("C13/watch-identity", "__eq__, __ne__ and __hash__ of ObservedWatch are functions of the one key, and key is (path, recursive flag, filter)", floor=4)

    cfg = ThreadCfg(
        P,
        no_inline={"join", "is_alive", "dispatch", "queue_events", "BaseThread.start", "EventEmitter.stop"},
        follow_attrs=False,
        raising={r"self\._emitter_class": "Exception", r".+\.start": "Exception"},
    )
    cls = "BaseObserver"
    fi = P.find_method(cls, "schedule")
    if fi is None:
        raise AnalysisError("anchor vanished: BaseObserver.schedule")
    paths = Enumerator(cfg).run(fi, selfcls=cls)
    ctx.count("schedule_paths", len(paths))
    raised_paths = [p for p in paths if p.outcome[0] == "raise"]
    if len(raised_paths) < 2:
        raise AnalysisError("schedule(): the fallible calls of the fault model (emitter construction, emitter.start) were not found")
    for p in raised_paths:
        r = [e for e in p.evs if e.kind == "raised"]
        at = r[-1].extra.get("at", "?") if r else "?"
        callee = at.split("(")[0]
        left = net(registry_effects(p.evs))
        ctx.check(
            not left,
            RA,
            f"schedule raising-at={callee}",
            "schedule() can raise here after having changed the registry: "
            + ", ".join(f"{c}[{k}] by `{(e.raw or e.text)[:60]}`" for c, k, e in left)
            + " stays behind (a stale handler registration later receives events)",
            f"{fi.module.relpath}:{r[-1].line if r else fi.node.lineno}",
            {"path": p.sig(), "residue": [(c, k) for c, k, _ in left]},
        )
        ctx.sample({"raise_at": callee, "net_effect": [(c, k) for c, k, _ in left]})

    # ---------------------------------------------------------------- coherent effects
    # h = an element of one watch's handler set, H = a key of the handler registry
    allowed = [
        {"h", "E", "M", "W"},  # add watch (the defaultdict creates the key with the first handler)
        {"H", "h", "E", "M", "W"},
        {"h", "W"},  # add handler to an existing watch (watch add is idempotent)
        {"H", "h", "W"},  # the same with the registry entry created on demand by setdefault (what the defaultdict does implicitly)
        {"h"},  # add handler only
        {"H", "h"},
        {"h-"},  # remove handler only: the key stays as long as the watch is scheduled
        {"H", "h-"},  # the same through setdefault(watch, set()) (what the defaultdict does implicitly on the look-up)
        {"H-", "E-", "M-", "W-"},  # remove watch
        {"H0", "E0", "M0", "W0"},  # clear
        set(),
    ]
    # stop() is a mutator too: whatever was scheduled -- also after an earlier stop() -- is gone when it returns (it reaches
    # unschedule_all through the thread's stop hook, on every path)
    mutators = ["schedule", "add_handler_for_watch", "remove_handler_for_watch", "unschedule", "unschedule_all", "stop"]
    cfg2 = ThreadCfg(P, no_inline={"join", "is_alive", "dispatch", "queue_events", "BaseThread.start", "EventEmitter.stop"}, follow_attrs=False)
    for mname in mutators:
        mfi = P.find_method(cls, mname)
        if mfi is None:
            raise AnalysisError(f"anchor vanished: BaseObserver.{mname}")
        mpaths = Enumerator(cfg2).run(mfi, selfcls=cls)
        ctx.count("mutator_paths", len(mpaths))
        for p in mpaths:
            if not (p.outcome is NORMAL or p.outcome[0] == "return"):
                continue
            sig = {c for c, k, e in net(registry_effects(p.evs))}
            # what this call must achieve on this path
            conds = p.conds()
            hp_ = ([a.arg for a in mfi.node.args.args if a.arg != "self"] or [""])[0]
            if mname in ("schedule", "add_handler_for_watch") and "h" not in sig and any(t is True and re.fullmatch(rf"{re.escape(hp_)} in self\._handlers(\[.*\]|\.get\(.*\)|\.setdefault\(.*\))", a) for a, t in conds.items()):
                sig = sig | {"h"}  # found there by a membership test (a registry of sequences de-duplicates that way): the handler is registered
            new_watch = any(absent_in_emitter_map(a, t) for a, t in conds.items())
            required = {
                "schedule": ({"h", "E", "M", "W"} if new_watch else {"h", "W"}),
                "add_handler_for_watch": {"h"},
                "remove_handler_for_watch": {"h-"},
                "unschedule": {"H-", "E-", "M-", "W-"},
                "unschedule_all": {"H0", "E0", "M0", "W0"},
                "stop": {"H0", "E0", "M0", "W0"},
            }[mname]
            missing = required - sig
            ctx.check(
                not missing,
                RC,
                f"{mname} achieves its effect [{p.sig()[:70]}]",
                f"{mname}() returns normally without {sorted(missing)} (h = the handler, H = the watch's registry entry, E/M/W = emitter set / emitter map / watch set): the call is silently a no-op or leaves the collections describing different sets of watches",
                mfi.loc,
                {"effects": sorted(sig)},
            )
            # argument roles: the element added to / removed from a watch's handler set is the handler parameter, the key is the watch
            hparam = ([a.arg for a in mfi.node.args.args if a.arg != "self"] or [""])[0]
            if mname in ("schedule", "add_handler_for_watch", "remove_handler_for_watch"):
                for c, op, k, e in registry_effects(p.evs):
                    if c != "h":
                        continue
                    elem = (e.extra.get("args") or [""])[0]
                    ctx.check(
                        elem == hparam and not re.search(rf"\b{re.escape(hparam)}\b", k),
                        RC,
                        f"{mname} handler set roles [{p.sig()[:60]}]",
                        f"{mname}() files `{elem}` under the key `{k[:60]}`: the handler registry maps a watch to its handlers, the element must be the handler parameter `{hparam}` and the key the watch",
                        mfi.loc,
                    )
            ctx.check(
                sig in allowed,
                RC,
                f"{mname} [{p.sig()[:80]}]",
                f"{mname}() changes {sorted(sig)} on a normal path (h = one handler, H = the watch's registry entry, E/M/W = emitters / emitter map / watches; -: removed, 0: cleared): the four collections no longer describe the same set of watches",
                mfi.loc,
                {"effects": [(c, op, k) for c, op, k, _ in registry_effects(p.evs)]},
            )
    # a not-started observer: stopping and joining an emitter that was never started must not raise
    RJ2 = ctx.rule("C13/unstarted-emitters-tolerated", "unschedule()/unschedule_all() on a not-started observer: join() of a never-started emitter raises RuntimeError and must be absorbed, otherwise the call fails half-way and the collections diverge", floor=2)
    for mname in ("unschedule", "unschedule_all"):
        mfi = P.find_method(cls, mname)

        class _JCfg(ThreadCfg):
            def raises(self, kind, text, node, st):
                if kind == "call" and (st.last_func or "").endswith(".join"):
                    return ["RuntimeError"]
                return ()

        jp = Enumerator(_JCfg(P, no_inline={"is_alive", "dispatch", "queue_events", "BaseThread.start", "EventEmitter.stop"}, follow_attrs=False)).run(mfi, selfcls=cls)
        esc = [p for p in jp if p.outcome[0] == "raise"]
        ctx.check(not esc, RJ2, f"{mname} absorbs RuntimeError of join()", f"{mname}() lets the RuntimeError of joining a never-started emitter escape after having changed part of the registry", mfi.loc)

    # observation (not a violation): start()'s failure path
    sfi = P.find_method(cls, "start")
    if sfi:
        spaths = Enumerator(cfg).run(sfi, selfcls=cls)
        for p in spaths:
            if p.outcome[0] == "raise":
                sig = sorted({c for c, k, e in net(registry_effects(p.evs))})
                ctx.note(f"observation: start() failure path changes {sig} (the property's 'no effect at all' is stated for schedule())")
                break

    # ---------------------------------------------------------------- one emitter per watch
    ok = found = False
    for e, held, p in walk_with_locks(paths, lambda s: s):
        if e.kind in ("call", "raised") and (e.extra.get("func", "") == "self._emitter_class"):
            found = True
            guard = [a for a, t in p.conds().items() if absent_in_emitter_map(a, t)]
            ok = bool(guard) and held.get("self._lock", 0) > 0
            if not ok:
                break
    if not found:
        raise AnalysisError("schedule(): emitter construction `self._emitter_class(...)` not found")
    ctx.check(ok, RO, "BaseObserver.schedule", "an emitter is constructed without a (negative) membership test of the watch in the emitter map under the lock: equal watches would get two emitters", fi.loc)

    watch_identity(ctx, RI, P)


API = "observers/api.py"
VARIANTS = [
    dict(name="E path normalised when read (os.fspath in the getter), key through the property", expect="silent", edits=[(API, "import contextlib\n", "import contextlib\nimport os\n"), (API, "        self._path = str(path) if isinstance(path, Path) else path\n", "        self._path = path\n"), (API, '        """The path that this watch monitors."""\n        return self._path\n', '        """The path that this watch monitors."""\n        return os.fspath(self._path)\n')]),
    dict(name="B path normalised when read, key built from the raw field", expect="fire", rule="C13/watch-identity", edits=[(API, "import contextlib\n", "import contextlib\nimport os\n"), (API, "        self._path = str(path) if isinstance(path, Path) else path\n", "        self._path = path\n"), (API, '        """The path that this watch monitors."""\n        return self._path\n', '        """The path that this watch monitors."""\n        return os.fspath(self._path)\n')] + [(API, "        return self.path, self.is_recursive, self.event_filter", "        return self._path, self._is_recursive, self._event_filter")]),
    dict(name="B handler registered before the emitter exists", expect="fire", rule="C13/failed-call-atomicity", edits=[(API, "            watch = ObservedWatch(path, recursive=recursive, event_filter=event_filter, follow_symlink=follow_symlink)\n", "            watch = ObservedWatch(path, recursive=recursive, event_filter=event_filter, follow_symlink=follow_symlink)\n            self._add_handler_for_watch(event_handler, watch)\n")]),
    dict(name="B handler registered between construction and start", expect="fire", rule="C13/failed-call-atomicity", edits=[(API, "                if self.is_alive():\n                    emitter.start()\n                self._add_emitter(emitter)", "                self._add_handler_for_watch(event_handler, watch)\n                if self.is_alive():\n                    emitter.start()\n                self._add_emitter(emitter)")]),
    dict(name="B emitter registered before start", expect="fire", rule="C13/failed-call-atomicity", edits=[(API, "                if self.is_alive():\n                    emitter.start()\n                self._add_emitter(emitter)", "                self._add_emitter(emitter)\n                if self.is_alive():\n                    emitter.start()")]),
    dict(name="B add_handler_for_watch swaps handler and watch", expect="fire", rule="C13/coherent-effects", edits=[(API, "        with self._lock:\n            self._add_handler_for_watch(event_handler, watch)", "        with self._lock:\n            self._add_handler_for_watch(watch, event_handler)")]),
    dict(name="B drop _watches.add", expect="fire", rule="C13/coherent-effects", edits=[(API, "            self._watches.add(watch)\n        return watch", "        return watch")]),
    dict(name="B drop emitter-map membership test", expect="fire", rule="C13/", edits=[(API, "            if watch not in self._emitter_for_watch:", "            if True:")]),
    dict(name="B unschedule forgets _watches", expect="fire", rule="C13/coherent-effects", edits=[(API, "            self._remove_emitter(emitter)\n            self._watches.remove(watch)", "            self._remove_emitter(emitter)")]),
    dict(name="B removing the last handler deletes the watch's registry entry", expect="fire", rule="C13/coherent-effects", edits=[(API, "            self._handlers[watch].remove(event_handler)", "            handlers = self._handlers[watch]\n            handlers.remove(event_handler)\n            if not handlers:\n                self._remove_handlers_for_watch(watch)")]),
    dict(name="B schedule forgets to register the new emitter", expect="fire", rule="C13/coherent-effects", edits=[(API, "                self._add_emitter(emitter)\n", "                pass\n")]),
    dict(name="B remove_handler_for_watch is a no-op", expect="fire", rule="C13/coherent-effects", edits=[(API, "            self._handlers[watch].remove(event_handler)", "            pass")]),
    dict(name="B join of an unstarted emitter not tolerated", expect="fire", rule="C13/unstarted-emitters-tolerated", edits=[(API, "        emitter.stop()\n        with contextlib.suppress(RuntimeError):\n            emitter.join()\n\n    def _clear_emitters", "        emitter.stop()\n        emitter.join()\n\n    def _clear_emitters")]),
    dict(name="B hash from the path only", expect="fire", rule="C13/watch-identity", edits=[(API, "        return hash(self.key)\n\n    def __repr__", "        return hash(self.path)\n\n    def __repr__")]),
    dict(name="B empty filter collapses into no filter (watch side only)", expect="fire", rule="C13/watch-identity", edits=[(API, "        self._follow_symlink = follow_symlink\n        self._event_filter = frozenset(event_filter) if event_filter is not None else None", "        self._follow_symlink = follow_symlink\n        self._event_filter = frozenset(event_filter) if event_filter else None")]),
    dict(name="E emitter creation in a helper guarded by .get()", expect="silent", edits=[(API, "            if watch not in self._emitter_for_watch:\n                emitter = self._emitter_class(self.event_queue, watch, timeout=self.timeout, event_filter=event_filter)\n                if self.is_alive():\n                    emitter.start()\n                self._add_emitter(emitter)\n", "            self._ensure_emitter_for_watch(watch, event_filter)\n"), (API, "    def _clear_emitters(self) -> None:", "    def _ensure_emitter_for_watch(self, watch, event_filter):\n        existing = self._emitter_for_watch.get(watch)\n        if existing is not None:\n            return existing\n        emitter = self._emitter_class(self.event_queue, watch, timeout=self.timeout, event_filter=event_filter)\n        if self.is_alive():\n            emitter.start()\n        self._add_emitter(emitter)\n        return emitter\n\n    def _clear_emitters(self) -> None:")]),
    dict(name="B key drops the filter", expect="fire", rule="C13/watch-identity", edits=[(API, "        return self.path, self.is_recursive, self.event_filter", "        return self.path, self.is_recursive")]),
    dict(name="E registration undone on failure", expect="silent", edits=[(API, "                emitter = self._emitter_class(self.event_queue, watch, timeout=self.timeout, event_filter=event_filter)\n                if self.is_alive():\n                    emitter.start()\n                self._add_emitter(emitter)", "                emitter = self._emitter_class(self.event_queue, watch, timeout=self.timeout, event_filter=event_filter)\n                self._add_emitter(emitter)\n                if self.is_alive():\n                    try:\n                        emitter.start()\n                    except Exception:\n                        del self._emitter_for_watch[emitter.watch]\n                        self._emitters.remove(emitter)\n                        raise")]),
    dict(name="E watch added via set union helper", expect="silent", edits=[(API, "            self._watches.add(watch)\n        return watch", "            self._watches.update((watch,))\n        return watch")]),
]


def thorough(ctx):
    from ..selftest import thorough as st

    return st(ctx, VARIANTS)
