"""C11 — an event filter only removes events.

Need(K)    : kernel flags positively tested on the paths of InotifyEmitter.queue_events that emit class K (both modes)
Book       : kernel flags positively tested on the paths of Inotify.read_events that maintain the watch maps
Provided(C): abstract evaluation of get_event_mask_from_filter for the filter {C}
Rule       : for every class C of the event lattice: Need(C) ∪ {IN_DELETE_SELF} ⊆ Provided(C), and for a recursive
             watch Book ⊆ Provided(C).  Over-provision is fine: the isinstance filter at queue time removes the surplus
             (checked too).
"""

from __future__ import annotations

import ast
import re

from ..contract_inotify import classify
from ..emit import GENERATORS, inotify_constants, inotify_emitter_table, inotify_flag_of_property
from ..minieval import ClassVal, MiniEval
from ..model import AnalysisError, dotted
from ..reader import MAPS, flag_kind, record_paths

LEVEL_TEXT = (
    "Static analysis, exhaustive over the finite tables involved: Need (flags the translation tests on paths emitting each "
    "class; both emitter modes) and Book (flags the reader's map maintenance tests) are derived from enumerated paths; "
    "Provided is the abstract evaluation of get_event_mask_from_filter over class symbols and folded integer masks for every "
    "singleton and every pair of the 13-class lattice x recursive/non-recursive; rule: Need ∪ Book ⊆ Provided per class."
)


def event_lattice(P):
    m = P.module("watchdog.events")
    classes = [c for c in m.classes if "." not in c and "FileSystemEvent" in P.mro(c)]
    if len(classes) < 10:
        raise AnalysisError("event class lattice not found in watchdog.events")
    return classes


def generator_classes(P, gen: str) -> set[str]:
    fi = P.module("watchdog.events").functions.get(gen)
    if fi is None:
        raise AnalysisError(f"anchor vanished: {gen}")
    out = set()
    for n in ast.walk(fi.node):
        if isinstance(n, (ast.Yield,)) and isinstance(n.value, ast.Call) and isinstance(n.value.func, ast.Name):
            out.add(n.value.func.id)
    return out


def filter_fields(P, cls: str = "EventEmitter") -> dict[str, str | None]:
    """Write-once fields of the emitter that hold the filter, or a None-preserving container copy of it: field -> the outermost
    container constructor (None for the parameter kept as it is).

        self._event_filter = frozenset(event_filter) if event_filter is not None else None      -> {"_event_filter": "frozenset"}
        self._filter_classes = tuple(self._event_filter) if self._event_filter is not None else None   -> {"_filter_classes": "tuple"}
    """
    from ..flow import _init_store

    WRAPS = {"tuple", "list", "frozenset", "set", "sorted"}
    out: dict[str, str | None] = {}
    init = P.find_method(cls, "__init__")
    if init is None:
        return out
    params = {a.arg for a in init.node.args.args + init.node.args.kwonlyargs if "filter" in a.arg}

    def is_filter(t) -> bool:
        return (isinstance(t, ast.Name) and t.id in params) or (isinstance(t, ast.Attribute) and isinstance(t.value, ast.Name) and t.value.id == "self" and t.attr in out)

    def none_test(t):
        """(subject, polarity) of `<subject> is None` / `<subject> is not None`"""
        if isinstance(t, ast.Compare) and len(t.ops) == 1 and isinstance(t.comparators[0], ast.Constant) and t.comparators[0].value is None:
            if isinstance(t.ops[0], ast.Is):
                return t.left, True
            if isinstance(t.ops[0], ast.IsNot):
                return t.left, False
        return None, None

    changed = True
    while changed:
        changed = False
        for st in init.node.body:
            tgt, val = (st.targets[0], st.value) if isinstance(st, ast.Assign) and len(st.targets) == 1 else (st.target, st.value) if isinstance(st, ast.AnnAssign) else (None, None)
            if not (isinstance(tgt, ast.Attribute) and isinstance(tgt.value, ast.Name) and tgt.value.id == "self") or val is None or tgt.attr in out:
                continue
            if _init_store(P, cls, tgt.attr) is None:
                continue  # not write-once
            core = val
            if isinstance(val, ast.IfExp):
                subj, is_none = none_test(val.test)
                if subj is None or not is_filter(subj):
                    continue
                none_arm, core = (val.body, val.orelse) if is_none else (val.orelse, val.body)
                if not (isinstance(none_arm, ast.Constant) and none_arm.value is None):
                    continue
            outer = None
            while isinstance(core, ast.Call) and isinstance(core.func, ast.Name) and core.func.id in WRAPS and len(core.args) == 1 and not core.keywords:
                outer = outer or core.func.id
                core = core.args[0]
            if is_filter(core):
                out[tgt.attr] = outer
                changed = True
    return out


class MemoCfg:
    """mixin: a read of `self.<dict field>[key]` may raise KeyError (the memo-table idiom `try: return M[k] / except KeyError: M[k] = f(k)`)"""

    def raises(self, kind, text, node, st):
        if kind == "subscript" and re.match(r"self\.\w+\[", text) and isinstance(getattr(node, "ctx", None), ast.Load):
            return ["KeyError"]
        return super().raises(kind, text, node, st)


def buffer_args_independent_of_filter(ctx, RULE, P) -> None:
    from ..pse import Enumerator as _En
    from ..threads import ThreadCfg as _TC

    f = P.find_method("InotifyEmitter", "on_thread_start")
    if f is None:
        raise AnalysisError("anchor vanished: InotifyEmitter.on_thread_start")
    sigs: dict[tuple, list] = {}
    for p in _En(_TC(P, follow_attrs=False, no_inline={"start", "get_event_mask_from_filter"})).run(f, selfcls="InotifyEmitter"):
        for e in p.evs:
            if e.kind == "call" and e.extra.get("func") in ("InotifyBuffer",):
                kw = dict(e.extra.get("kwargs") or {})
                mask_kw = [k for k in kw if "mask" in k]
                for k in mask_kw:
                    kw.pop(k)
                sig = (tuple(e.extra.get("args") or ()), tuple(sorted(kw.items())))
                sigs.setdefault(sig, []).append(p)
    if not sigs:
        raise AnalysisError("InotifyEmitter.on_thread_start: the InotifyBuffer(...) construction was not found")
    loc = f.loc
    mentions = [s_ for s_ in sigs if any("filter" in str(x) for x in s_[0]) or any("filter" in str(v) for _k, v in s_[1])]
    if len(sigs) > 1:
        # the arguments differ between paths: by what?
        conds = set()
        for ps in sigs.values():
            for p in ps:
                conds |= {a for a in p.conds() if "filter" in a}
        ctx.check(
            not conds,
            RULE,
            "InotifyEmitter.on_thread_start: InotifyBuffer(...) arguments besides the mask",
            f"the reading layer is constructed with different arguments depending on the filter ({sorted(conds)[:2]}): {sorted(str(s_[1]) for s_ in sigs)[:2]} -- a filtered watch then forms other events than the unfiltered one (e.g. without the pairing delay the two halves of a rename read separately become delete + create, which pass a filter the moved event would not)",
            loc,
        )
    else:
        ctx.check(not mentions, RULE, "InotifyEmitter.on_thread_start: InotifyBuffer(...) arguments besides the mask", f"an argument other than the mask is computed from the filter: {mentions[:1]}", loc)


def explicit_mask_unchanged(ctx, RULE, P) -> None:
    import copy

    from ..pse import Enumerator as _En
    from ..threads import ThreadCfg as _TC

    ini = P.find_method("Inotify", "__init__")
    if ini is None:
        raise AnalysisError("anchor vanished: Inotify.__init__")
    params = [a.arg for a in ini.node.args.args + ini.node.args.kwonlyargs]
    mp = next((a for a in params if "mask" in a), None)
    if mp is None:
        raise AnalysisError("Inotify.__init__: no mask parameter")
    consts = inotify_constants(P)
    name_of = {v: k for k, v in consts.items() if k.startswith("IN_") and v and v & (v - 1) == 0}
    seen: dict[str, int] = {}
    defaults: list[int] = []
    for p in _En(_TC(P, follow_attrs=False)).run(ini, selfcls="Inotify"):
        if p.outcome[0] != "raise" and p.conds().get(f"{mp} is None") is True:
            for e in p.evs:
                if e.kind == "store" and e.extra.get("attr", "").endswith("mask"):
                    try:
                        v = P.fold(ast.parse(e.extra.get("value"), mode="eval").body, ini.module, ini.cls)
                    except SyntaxError:
                        v = None
                    if isinstance(v, int):
                        defaults.append(v)
        if p.outcome[0] == "raise" or p.conds().get(f"{mp} is None") is not False:
            continue
        for e in p.evs:
            if e.kind == "store" and e.extra.get("attr", "").endswith("mask"):
                seen[e.extra.get("value")] = e.line
    if not seen:
        raise AnalysisError("Inotify.__init__: no store of the mask on a path where the caller gives one")
    for txt, line in sorted(seen.items()):
        loc = f"{ini.module.relpath}:{line}"
        construct = f"Inotify.__init__ with a given mask stores `{txt[:70]}`"
        if txt == mp:
            ctx.ok(RULE, construct, loc)
            continue
        # which bits does the stored term force, whatever the caller's mask?
        t = ast.parse(txt, mode="eval").body
        vals = []
        for k in (0, 0xFFFFFFFF):

            class T(ast.NodeTransformer):
                def visit_Name(self, n):
                    return ast.copy_location(ast.Constant(k), n) if n.id == mp else n

            vals.append(P.fold(T().visit(copy.deepcopy(t)), ini.module, ini.cls))
        if not all(isinstance(v, int) for v in vals):
            raise AnalysisError(f"{construct}: not a foldable function of the caller's mask")
        on, off = vals[0] & 0xFFFFFFFF, ~vals[1] & 0xFFFFFFFF
        if defaults:  # a flag that every unfiltered watch carries (lacks) as well is no difference between the two
            on &= ~(defaults[0] if len(defaults) == 1 else __import__("functools").reduce(lambda a, b: a & b, defaults))
            off &= __import__("functools").reduce(lambda a, b: a | b, defaults)
        flags = lambda m: " | ".join(name_of.get(1 << b, hex(1 << b)) for b in range(32) if m & (1 << b))
        ctx.check(
            not on and not off,
            RULE,
            construct,
            f"a mask computed from the filter is changed on its way to the kernel: {('forced on: ' + flags(on)) if on else ''}{' ; ' if on and off else ''}{('forced off: ' + flags(off)) if off else ''} -- for filtered watches only (the default mask of an unfiltered watch does not pass here), so the two no longer see the same notifications",
            loc,
        )


def run(ctx) -> None:
    P = ctx.P
    R = ctx.rule(
        "C11/mask-covers-need",
        "for every event class C (concrete and base) and emitter mode: every kernel flag from which an event accepted by the "
        "filter {C} is derived is in the mask computed for {C}",
        floor=30,
    )
    RB = ctx.rule(
        "C11/mask-covers-bookkeeping",
        "for every class C: a recursive watch's mask contains the flags the reader's directory bookkeeping tests "
        "(create / both move halves), and every mask contains IN_DELETE_SELF",
        floor=13,
    )
    RM = ctx.rule("C11/mask-monotone", "the mask of a two-class filter contains the masks of both singletons (per-class OR accumulation)", floor=50)
    RQ = ctx.rule(
        "C11/filter-at-queue-time",
        "EventEmitter.queue_event enqueues iff the filter is None or the event is an instance of a member of the filter",
        floor=1,
    )
    RID = ctx.rule("C11/filter-is-part-of-the-watch-identity", "two schedules of one directory with different filters are different watches with their own emitters (shared instances with C13): otherwise the second caller gets the first caller's filter and mask", floor=4)
    from .c13 import watch_identity

    watch_identity(ctx, RID, P)
    RPE = ctx.rule(
        "C11/filter-applies-per-event",
        "what the inotify emitter hands to queue_event does not depend on the filter (the filter is applied there, per event): two paths of "
        "queue_events that differ only in a filter-dependent condition emit the same events, except for events of exactly the class the "
        "condition tests",
        floor=1,
    )
    RN = ctx.rule("C11/unfiltered-mask", "no filter -> the reader's default mask (None is passed through)", floor=1)

    RKM = ctx.rule(
        "C11/explicit-mask-reaches-the-kernel-unchanged",
        "the reader stores a mask it is given (the one computed from the filter) as it is: no flag is forced on or off for filtered watches only (IN_EXCL_UNLINK, IN_ONLYDIR, ... change what the kernel reports, so the filtered watch would no longer see what the unfiltered one sees)",
        floor=1,
    )
    explicit_mask_unchanged(ctx, RKM, P)
    RBF = ctx.rule(
        "C11/only-the-mask-depends-on-the-filter",
        "of what the emitter hands to the reading layer when its thread starts (InotifyBuffer(...)), only the event mask is computed from the filter: every other argument (path, recursion, symlink policy, a pairing delay, ...) is the same for a filtered and an unfiltered watch -- the filter is applied to the finished events, so anything else that varies with it changes *which* events are formed (a rename reported as delete + create) rather than which are passed on",
        floor=1,
    )
    buffer_args_independent_of_filter(ctx, RBF, P)
    consts = inotify_constants(P)
    flag_of_prop = inotify_flag_of_property(P)
    name_of = {v: k for k, v in consts.items() if k.startswith("IN_") and v and v & (v - 1) == 0 and k not in ("IN_CLOEXEC", "IN_NONBLOCK")}

    def names(mask: int) -> list[str]:
        return sorted(name_of.get(1 << i, hex(1 << i)) for i in range(32) if mask & (1 << i))

    lattice = event_lattice(P)
    concrete = [c for c in lattice if not P.subclasses(c, strict=True)]
    ctx.count("lattice_classes", len(lattice))

    # ---------------- Need
    rows, npaths, fi = inotify_emitter_table(P)
    ctx.count("emitter_paths", npaths)
    need: dict[bool, dict[str, int]] = {False: {}, True: {}}
    need_why: dict[tuple, list[str]] = {}
    for r in rows:
        info = classify(r)
        kind = info["kind"]
        if info["inactive"] or kind == "none":
            continue
        if kind == "tuple":
            mask = flag_of_prop["is_moved_from"] | flag_of_prop["is_moved_to"]
        elif kind in flag_of_prop:
            mask = flag_of_prop[kind]
        else:
            continue
        emitted: set[str] = set()
        for em in r.emissions:
            if em.kind == "E" and em.cls != "?":
                emitted.add(em.cls)
            elif em.kind in ("G", "G?"):
                emitted |= generator_classes(P, em.cls)
        for k in emitted:
            need[info["full"]][k] = need[info["full"]].get(k, 0) | mask
            need_why.setdefault((info["full"], k), []).append(f"{kind}->{r.brief()[:80]}")
    # ---------------- the filter is applied per event, not to groups of events
    def fatoms(v):
        return {a: t for a, t in v.items() if "_event_filter" in a or "event_filter" in a.split("(")[0]}

    groups: dict[tuple, list] = {}
    for r in rows:
        fa = fatoms(r.val)
        key = (r.mode.get("full"), tuple(sorted((a, t) for a, t in r.val.items() if a not in fa)))
        groups.setdefault(key, []).append((fa, r))
    nfd, okpe = 0, True
    for key, members in groups.items():
        if len(members) < 2 and not any(fa for fa, _ in members):
            continue
        for i, (fa1, r1) in enumerate(members):
            for fa2, r2 in members[i + 1 :]:
                if fa1 == fa2:
                    continue
                nfd += 1
                b1, b2 = [e.brief() for e in r1.emissions], [e.brief() for e in r2.emissions]
                if b1 == b2:
                    continue
                tested = set()
                for a in set(fa1) | set(fa2):
                    tested |= set(re.findall(r"issubclass\((\w+),", a)) | set(re.findall(r"isinstance\(\w+\((?:.*)\), (\w+)\)", a))
                diff = [e for e in r1.emissions if e.brief() not in b2] + [e for e in r2.emissions if e.brief() not in b1]
                bad = [e for e in diff if not (e.kind == "E" and e.cls in tested)]
                if bad:
                    okpe = False
                    ctx.viol(
                        RPE,
                        f"queue_events under {sorted(set(fa1) | set(fa2))[0][:70]}",
                        f"with the filter-dependent condition(s) {sorted(set(fa1) | set(fa2))} deciding differently, queue_events emits `{' ; '.join(b1)[:160]}` versus `{' ; '.join(b2)[:160]}`: "
                        f"`{bad[0].brief()[:80]}` is withheld from queue_event on the strength of a test about another class — events the filter accepts (e.g. the File* events of a moved-in directory's contents under a filter that lacks the Dir* class) are never reported",
                        f"{fi.module.relpath}:{getattr(bad[0].node, 'lineno', fi.node.lineno)}",
                    )
    if okpe:
        ctx.ok(RPE, f"InotifyEmitter.queue_events: {len(rows)} paths, {nfd} pairs differing only in filter-dependent conditions, all emit alike", fi.loc)

    for full in (False, True):
        for k in concrete:
            if k not in need[full]:
                ctx.note(f"class {k} is never emitted by the {'full' if full else 'normal'} inotify emitter")

    move_halves = flag_of_prop["is_moved_from"] | flag_of_prop["is_moved_to"]

    def need_of(c: str, full: bool) -> int:
        m = 0
        for k, v in need[full].items():
            if c in P.mro(k):
                m |= v
        # pairing closure: whether a move half is 'unpaired' is decided by the presence of its partner in the stream
        # (InotifyBuffer._group_events), so a class derived from either half needs both halves delivered — otherwise an
        # in-tree rename would surface as a deletion/creation that the unfiltered watch never reports.
        if m & move_halves:
            m |= move_halves
        return m

    # ---------------- Book
    bp, loop, rfi, _ = record_paths(P, fault=False)
    ctx.count("reader_record_paths", len(bp))
    book = 0
    book_why = {}
    for p in bp:
        writes = [
            e
            for e in p.flat()
            if (e.kind in ("setitem", "del") and e.extra.get("container") in MAPS)
            or (e.kind == "call" and (e.extra.get("func", "").split(".pop")[0] in MAPS and e.extra.get("func", "").endswith(".pop")))
            or (e.kind == "call" and e.extra.get("func", "") == "inotify_add_watch")
        ]
        if not writes:
            continue
        k = flag_kind(p)
        if k in flag_of_prop and k != "is_ignored":
            book |= flag_of_prop[k]
            book_why.setdefault(k, writes[0].text[:80])
    if not book:
        raise AnalysisError("no bookkeeping flags derived from Inotify.read_events (anchor vanished?)")
    delete_self = flag_of_prop["is_delete_self"]
    ctx.extra["book_flags"] = names(book)
    ctx.extra["need_normal"] = {k: names(v) for k, v in sorted(need[False].items())}
    ctx.extra["need_full"] = {k: names(v) for k, v in sorted(need[True].items())}

    # ---------------- Provided
    mfi = P.find_method("InotifyEmitter", "get_event_mask_from_filter")
    if mfi is None:
        raise AnalysisError("anchor vanished: InotifyEmitter.get_event_mask_from_filter")

    def provided(filt, rec: bool):
        attrs = {
            "self._event_filter": None if filt is None else frozenset(ClassVal(c) for c in filt),
            "self.watch.is_recursive": rec,
            "self._watch.is_recursive": rec,
            "self.watch.event_filter": None if filt is None else frozenset(ClassVal(c) for c in filt),
        }
        me = MiniEval(P, mfi.module, mfi.cls, attrs)
        return me.call_function(mfi.node, {"self": None})

    prov = {}
    for c in lattice:
        for rec in (False, True):
            v = provided([c], rec)
            if not isinstance(v, int):
                raise AnalysisError(f"mask function did not evaluate to an integer for filter {{{c}}}: {v!r}")
            prov[(c, rec)] = v
    ctx.extra["provided_nonrecursive"] = {c: names(prov[(c, False)]) for c in lattice}
    ctx.extra["provided_recursive"] = {c: names(prov[(c, True)]) for c in lattice}

    for c in lattice:
        for full in (False, True):
            nd = need_of(c, full)
            for rec in (False, True):
                pv = prov[(c, rec)]
                missing = nd & ~pv
                for bit in range(32):
                    f = 1 << bit
                    if nd & f:
                        fname = name_of.get(f, hex(f))
                        ctx.check(
                            not (missing & f),
                            R,
                            f"class={c} flag={fname}",
                            f"filter [{c}] ({'full' if full else 'normal'} emitter, recursive={rec}): events of this class are derived from "
                            f"{fname} but the computed mask {names(pv)} lacks it",
                            mfi.loc,
                            detail={"need": names(nd), "provided": names(pv), "why": need_why.get((full, c), [])[:4]},
                        )
    for c in lattice:
        pv = prov[(c, True)]
        for bit in range(32):
            f = 1 << bit
            if book & f:
                fname = name_of.get(f, hex(f))
                ctx.check(
                    bool(pv & f),
                    RB,
                    f"class={c} flag={fname} recursive",
                    f"filter [{c}] on a recursive watch: the reader's watch-map maintenance tests {fname} but the mask {names(pv)} "
                    "lacks it, so the watch stops following directories created / moved after start",
                    mfi.loc,
                    detail={"book": names(book), "provided": names(pv)},
                )
        for rec in (False, True):
            ctx.check(
                bool(prov[(c, rec)] & delete_self),
                RB,
                f"class={c} flag=IN_DELETE_SELF recursive={rec}",
                "mask lacks IN_DELETE_SELF: deletion of the root would go unnoticed",
                mfi.loc,
            )
    # monotone in the filter (per-class OR accumulation), all pairs
    for i, a in enumerate(lattice):
        for b in lattice[i + 1 :]:
            for rec in (False, True):
                v = provided([a, b], rec)
                ok = isinstance(v, int) and (v & (prov[(a, rec)] | prov[(b, rec)])) == (prov[(a, rec)] | prov[(b, rec)])
                ctx.check(ok, RM, f"{{{a},{b}}} recursive={rec}", "mask of the pair does not contain both singleton masks", mfi.loc, nontrivial=rec is False)
    ctx.check(provided(None, False) is None and provided(None, True) is None, RN, "filter=None", "an unfiltered watch must pass None (default mask)", mfi.loc)
    ctx.sample({"class": "FileDeletedEvent", "need_normal": names(need_of("FileDeletedEvent", False)), "provided": names(prov[("FileDeletedEvent", False)])})
    ctx.sample({"class": "DirModifiedEvent", "need_normal": names(need_of("DirModifiedEvent", False)), "provided": names(prov[("DirModifiedEvent", False)])})
    ctx.sample({"book": names(book), "derived_from": book_why})

    # ---------------- filter at queue time
    qfi = P.find_method("EventEmitter", "queue_event")
    if qfi is None:
        raise AnalysisError("anchor vanished: EventEmitter.queue_event")
    from ..pse import Cfg, Enumerator

    from ..threads import ThreadCfg

    class QueueCfg(MemoCfg, ThreadCfg):
        pass

    paths = Enumerator(QueueCfg(P, follow_attrs=False)).run(qfi)  # the test may live in a private predicate method of the emitter
    ok = True
    msg = ""
    nput = 0
    params = [a.arg for a in qfi.node.args.args if a.arg != "self"]
    evparam = params[0] if params else "event"
    ff = filter_fields(P)
    ctx.extra["filter_fields"] = ff
    FILT = {"self._event_filter", "self.event_filter"} | {f"self.{f}" for f in ff}
    TUPLES = {f"self.{f}" for f, w in ff.items() if w == "tuple"}  # usable as they are as second argument of isinstance / issubclass
    WRAP = {"tuple", "list", "frozenset", "set", "sorted"}

    def filter_term(t, binders) -> bool:
        """the emitter's filter, possibly inside a container constructor, or a name bound by a comprehension / loop over it"""
        while isinstance(t, ast.Call) and isinstance(t.func, ast.Name) and t.func.id in WRAP and len(t.args) == 1:
            t = t.args[0]
        if ast.unparse(t) in FILT:
            return True
        return False

    def member_of_filter(t, binders) -> bool:
        return isinstance(t, ast.Name) and t.id in binders and filter_term(binders[t.id], binders)

    def instance_test(atom: str):
        """None if the atom is no instance test; else (ok, why): isinstance(<event>, <filter tuple | member>) or the same spelled
        issubclass(type(<event>), ...), anywhere inside the atom (e.g. under any(... for cls in filter))."""
        try:
            tree = ast.parse(atom.replace("$elem(", "_elem_("), mode="eval").body  # the engine's symbolic loop element
        except SyntaxError:
            return None
        binders = {}
        for n in ast.walk(tree):
            if isinstance(n, ast.comprehension) and isinstance(n.target, ast.Name):
                binders[n.target.id] = n.iter
        tests = [n for n in ast.walk(tree) if isinstance(n, ast.Call) and isinstance(n.func, ast.Name) and n.func.id in ("isinstance", "issubclass") and len(n.args) == 2]
        if not tests:
            return None
        for n in tests:
            a0, a1 = n.args
            if n.func.id == "isinstance":
                first_ok = isinstance(a0, ast.Name) and a0.id == evparam
            else:
                first_ok = isinstance(a0, ast.Call) and isinstance(a0.func, ast.Name) and a0.func.id == "type" and len(a0.args) == 1 and isinstance(a0.args[0], ast.Name) and a0.args[0].id == evparam
            elem_of_filter = isinstance(a1, ast.Call) and isinstance(a1.func, ast.Name) and a1.func.id == "_elem_" and len(a1.args) == 1 and filter_term(a1.args[0], binders)
            second_ok = (isinstance(a1, ast.Call) and filter_term(a1, binders) and isinstance(a1.func, ast.Name) and a1.func.id == "tuple") or member_of_filter(a1, binders) or elem_of_filter or ast.unparse(a1) in TUPLES
            if not (first_ok and second_ok):
                return False, f"instance test with the wrong roles: {ast.unparse(n)} (expected isinstance(<event>, <member of the filter>) or issubclass(type(<event>), <the filter>))"
        return True, ""

    # ---- a verdict memo: `self.<M>[type(event)]` stands for the instance test whose result is stored under that key, provided
    # the table belongs to this emitter alone (a fresh dict per instance: the verdict depends on the emitter's filter) and is
    # written nowhere else
    from ..flow import _init_store

    memo_reads = {}
    for p in paths:
        for a in p.conds():
            mm = re.fullmatch(r"self\.(\w+)\[(.+)\]", a)
            if mm and instance_test(a) is None:
                memo_reads.setdefault(mm.group(1), set()).add(mm.group(2))
    memo_ok: dict[str, str] = {}  # memo field -> the instance test it caches (text over the key)
    for M, keys in sorted(memo_reads.items()):
        got = _init_store(P, "EventEmitter", M)
        per_instance = got is not None and ((isinstance(got[1], ast.Dict) and not got[1].keys) or (isinstance(got[1], ast.Call) and ast.unparse(got[1]) == "dict()"))
        if not per_instance:
            ok, msg = False, (
                f"the filter verdict is read from `self.{M}[...]`, which is not a table created per emitter in __init__ (a class attribute / shared object): "
                "the verdict one emitter stored with its filter decides for every other emitter — events outside the filter are delivered, events inside it dropped"
            )
            continue
        stores = [(e, p) for p in paths for e in p.evs if e.kind == "setitem" and e.extra.get("container") == f"self.{M}"]
        closure = {f.node for f in P.self_closure("EventEmitter", "queue_event")}
        foreign = []
        for mod in P.modules.values():
            for fn in ast.walk(mod.tree):
                if isinstance(fn, (ast.FunctionDef, ast.AsyncFunctionDef)) and fn not in closure:
                    for n in ast.walk(fn):
                        if isinstance(n, ast.Attribute) and n.attr == M and not (fn.name == "__init__" and isinstance(n.ctx, ast.Store)):
                            foreign.append(f"{mod.relpath}:{n.lineno}")
        vals = {(e.extra.get("key"), e.extra.get("value")) for e, _ in stores}
        good = bool(stores) and not foreign and len(vals) == 1
        if good:
            (k, v), = vals
            r = instance_test(v or "")
            good = r is not None and r[0] and keys == {k}
        if good:
            memo_ok[M] = v
        else:
            ok, msg = False, f"`self.{M}[...]` decides whether an event is enqueued, but it is not a memo of the instance test (stores: {sorted(map(str, vals))[:3]}, keys read: {sorted(keys)}, other uses: {foreign[:3]})"
    ctx.extra["verdict_memos"] = memo_ok
    memo_msg = msg

    shape = False
    for p in paths:
        puts = [e for e in p.evs if e.kind == "call" and e.extra.get("func", "").endswith("_event_queue.put") or (e.kind == "call" and e.extra.get("func", "").endswith("event_queue.put"))]
        nput += len(puts)
        v = p.val
        none_true = any(a.endswith(" is None") and a[: -len(" is None")] in FILT and t for a, t in v.items())
        inst = {}
        for a, t in p.conds().items():
            mm = re.fullmatch(r"self\.(\w+)\[(.+)\]", a)
            r = (True, "") if mm and mm.group(1) in memo_ok else instance_test(a)
            if r is None:
                continue
            if not r[0]:
                ok, msg = False, r[1]
            else:
                shape = True
                inst[a] = t
        inst_true = any(inst.values())
        if puts and not (none_true or inst_true):
            ok, msg = False, f"event enqueued on a path where neither 'filter is None' nor the instance test holds: {p.sig()}"
        if not puts and (none_true or inst_true):
            ok, msg = False, f"event dropped although the filter accepts it: {p.sig()}"
    ctx.check(ok and shape and nput >= 1, RQ, "EventEmitter.queue_event", memo_msg or msg or "queue_event does not filter by isinstance over the filter's members", qfi.loc)
    ctx.count("functions", 4)
    ctx.assumptions += [
        "tuples handed to the emitter are built only from (IN_MOVED_FROM, IN_MOVED_TO) record pairs (C08 checks this)",
        "IN_IGNORED cannot be masked (inotify(7))",
    ]


IN = "observers/inotify.py"
VARIANTS = [
    dict(name="B watch key without the filter", expect="fire", rule="C11/filter-is-part-of-the-watch-identity", edits=[("observers/api.py", "        return self.path, self.is_recursive, self.event_filter", "        return self.path, self.is_recursive")]),
    dict(name="B created entry without IN_MOVE", expect="fire", rule="C11/mask-covers-need", edits=[(IN, "                event_mask |= InotifyConstants.IN_MOVE | InotifyConstants.IN_CREATE\n            elif cls is DirModifiedEvent:", "                event_mask |= InotifyConstants.IN_CREATE\n            elif cls is DirModifiedEvent:")]),
    dict(name="B dir-modified entry without IN_CLOSE_WRITE", expect="fire", rule="C11/mask-covers-need", edits=[(IN, "                    | InotifyConstants.IN_DELETE\n                    | InotifyConstants.IN_CLOSE_WRITE\n", "                    | InotifyConstants.IN_DELETE\n")]),
    dict(name="B deleted entry without moves (pre-fix)", expect="fire", rule="C11/mask-covers-need", edits=[(IN, "event_mask |= InotifyConstants.IN_DELETE | InotifyConstants.IN_MOVE", "event_mask |= InotifyConstants.IN_DELETE")]),
    dict(name="B deleted entry with only the MOVED_FROM half", expect="fire", rule="C11/mask-covers-need", edits=[(IN, "event_mask |= InotifyConstants.IN_DELETE | InotifyConstants.IN_MOVE", "event_mask |= InotifyConstants.IN_DELETE | InotifyConstants.IN_MOVED_FROM")]),
    dict(name="B no bookkeeping flags for recursive watches (pre-fix)", expect="fire", rule="C11/mask-covers-bookkeeping", edits=[(IN, "        if self.watch.is_recursive:\n            # Whatever the filter, following sub-directories needs their creations and moves.\n            event_mask |= InotifyConstants.IN_MOVE | InotifyConstants.IN_CREATE\n", "")]),
    dict(name="B base classes select nothing (pre-fix)", expect="fire", rule="C11/mask-covers-need", edits=[(IN, "for cls in {c for c in concrete_classes for f in self._event_filter if issubclass(c, f)}:", "for cls in self._event_filter:")]),
    dict(name="B delete-self dropped", expect="fire", rule="C11/mask-covers-bookkeeping", edits=[(IN, "        event_mask = InotifyConstants.IN_DELETE_SELF\n", "        event_mask = 0\n")]),
    dict(name="B queue-time filter removed", expect="fire", rule="C11/filter-at-queue-time", edits=[("observers/api.py", "        if self._event_filter is None or any(isinstance(event, cls) for cls in self._event_filter):\n            self._event_queue.put((event, self.watch))", "        self._event_queue.put((event, self.watch))")]),
    dict(name="E filter read once into a local, guard clause", expect="silent", edits=[("observers/api.py", "        if self._event_filter is None or any(isinstance(event, cls) for cls in self._event_filter):\n            self._event_queue.put((event, self.watch))", "        event_filter = self._event_filter\n        if event_filter is not None and not any(isinstance(event, cls) for cls in event_filter):\n            return\n        self._event_queue.put((event, self.watch))")]),
    dict(name="B isinstance arguments swapped", expect="fire", rule="C11/filter-at-queue-time", edits=[("observers/api.py", "isinstance(event, cls) for cls in self._event_filter", "isinstance(cls, event) for cls in self._event_filter")]),
    dict(name="E isinstance over a tuple of the filter", expect="silent", edits=[("observers/api.py", "any(isinstance(event, cls) for cls in self._event_filter)", "isinstance(event, tuple(self._event_filter))")]),
    dict(name="B filtered watch falls back to a mask for None", expect="fire", rule="C11/unfiltered-mask", edits=[(IN, "        if self._event_filter is None:\n            return None\n", "        if self._event_filter is None:\n            return InotifyConstants.IN_DELETE_SELF\n")]),
    dict(name="E reorder the elif arms", expect="silent", edits=[(IN, "            elif cls is FileClosedEvent:\n                event_mask |= InotifyConstants.IN_CLOSE_WRITE\n            elif cls is FileClosedNoWriteEvent:\n                event_mask |= InotifyConstants.IN_CLOSE_NOWRITE", "            elif cls is FileClosedNoWriteEvent:\n                event_mask |= InotifyConstants.IN_CLOSE_NOWRITE\n            elif cls is FileClosedEvent:\n                event_mask |= InotifyConstants.IN_CLOSE_WRITE")]),
    dict(name="E masks named in locals", expect="silent", edits=[(IN, "            elif cls is FileModifiedEvent:\n                event_mask |= InotifyConstants.IN_ATTRIB | InotifyConstants.IN_MODIFY", "            elif cls is FileModifiedEvent:\n                content = InotifyConstants.IN_ATTRIB | InotifyConstants.IN_MODIFY\n                event_mask |= content")]),
]


def thorough(ctx):
    from ..selftest import thorough as st

    return st(ctx, VARIANTS)
