"""C12 — every descriptor and thread is released exactly once, also on failure.

Decided: the two-thread typestate of the three inotify descriptors over the close/read hand-over protocol (skeletons
sliced from Inotify.close / read_events / _close_resources, driven as InotifyBuffer.run / BaseThread.stop drive them);
exception safety of the constructor after the first acquisition; the close chain; descriptor ownership.
Not decided: counts against the real kernel over long cycles.
"""

from __future__ import annotations

import ast
import itertools
import re

from ..model import AnalysisError, dotted
from ..pse import CONTINUE, NORMAL, Cfg, Enumerator
from ..reader import ReaderCfg
from ..threads import ThreadCfg
from ..typestate import Thread, explore

LEVEL_TEXT = (
    "Static analysis. Typestate: each enumerated path of Inotify.close and Inotify.read_events is sliced to its operations on the "
    "tracked state (lock, the closed / read-in-flight flags, the three descriptors, the wake-up byte, the blocking poll) and the "
    "closer(s) and the reader loop are interleaved exhaustively at operation granularity (use-after-close, double close, leak at "
    "termination, blocked forever); no code is run. Constructor exception safety by exception-flow over Inotify.__init__; close "
    "chain by must-effect analysis; ownership by package scan."
)

LOCK = "Inotify._lock"


class ProtoCfg(ReaderCfg):
    no_inline = {"_parse_event_buffer", "_raise_error", "_check_inotify_fd"}


def descriptor_fields(P):
    """Fields of Inotify that hold descriptors: on the paths of __init__ (helpers inlined), the fields stored with a value that is
    the result of inotify_init() or a component of os.pipe()."""
    init = P.find_method("Inotify", "__init__")
    if init is None:
        raise AnalysisError("anchor vanished: Inotify.__init__")
    fields = {}
    for p in Enumerator(ProtoCfg(P)).run(init):
        for e in p.evs:
            if e.kind != "store" or e.extra.get("recv") != "self":
                continue
            v = e.extra.get("value") or ""
            if v == "inotify_init()":
                fields[e.extra["attr"]] = "inotify_init"
            elif re.fullmatch(r"os\.pipe\(\)\[[01]\]", v):
                fields[e.extra["attr"]] = "os.pipe"
    if len(fields) < 3:
        raise AnalysisError(f"descriptor fields of Inotify not recognised: {fields}")
    return fields, init


def descriptor_values(P) -> dict[str, str]:
    """text of the value a descriptor field is created from (`inotify_init()`, `os.pipe()[0]`, ...) -> field: inside the constructor
    a descriptor may be closed through the local (or tuple component) that holds it before / instead of through the field"""
    init = P.find_method("Inotify", "__init__")
    out = {}
    for p in Enumerator(ProtoCfg(P)).run(init):
        for e in p.evs:
            if e.kind == "store" and e.extra.get("recv") == "self":
                v = e.extra.get("value") or ""
                if v == "inotify_init()" or re.fullmatch(r"os\.pipe\(\)\[[01]\]", v):
                    out[v] = e.extra["attr"]
    return out


def fd_text(e) -> str:
    """The text a descriptor use is decided on: the call as written, plus those substituted arguments that are *exactly* a
    `self.<field>` attribute (a local that is a pure alias of the field, e.g. the loop variable of an unrolled
    `for fd in (self._a, self._b): os.close(fd)`).  Substituted terms that merely mention a field are not used: they may only
    flow from it."""
    raw = e.raw or e.text
    exact = [a for a in (e.extra.get("args") or []) if re.fullmatch(r"self\._\w+", a)]
    # a value that was *computed from* a descriptor earlier (e.g. the bytes os.read() returned, substituted for the local that holds
    # them) does not touch the descriptor again: nested calls inside the arguments are blanked out
    try:
        tree = ast.parse(raw, mode="eval").body
        if isinstance(tree, ast.Call):
            def blank(n):
                return ast.Name("_computed_", ast.Load()) if isinstance(n, ast.Call) else n
            from ..pse import rewrite as _rw

            args = [_rw(a, lambda n: ast.Name("_computed_", ast.Load()) if isinstance(n, ast.Call) else None) for a in tree.args]
            kws = [ast.keyword(k.arg, _rw(k.value, lambda n: ast.Name("_computed_", ast.Load()) if isinstance(n, ast.Call) else None)) for k in tree.keywords]
            raw = ast.unparse(ast.Call(tree.func, args, kws))
    except (SyntaxError, ValueError):
        pass
    return raw + (" " + " ".join(exact) if exact else "")


def classify_call(text: str, func: str, fds: dict) -> list[tuple] | None:
    """Resource ops of a call, or [] if it touches no descriptor, or None if it touches one in an unknown way."""
    touched = [f for f in fds if re.search(rf"\bself\.{re.escape(f)}\b", text)]
    if func == "os.close":
        return [("close", f) for f in touched] if touched else []
    if func in ("os.read", "os.write", "inotify_add_watch", "inotify_rm_watch", "os.fstat", "select.select"):
        return [("use", f, func) for f in touched]
    if func == "self._check_inotify_fd":
        return None  # handled by the caller (blocking poll)
    if touched and func not in ("self._poller.register", "select.poll"):
        return None
    return []


STATE_CONSTS: dict[str, object] = {}  # module-level constant name -> canonical value (filled by run(): names with equal values coincide)


def state_value(text: str):
    """The abstract value of a constant a state field is set to / compared with: True / False, a literal, or a module-level constant
    (by its folded value when it has one, so that two names for one value coincide); None if `text` is not such a constant."""
    if text in ("True", "False"):
        return text == "True"
    if text in STATE_CONSTS:
        return STATE_CONSTS[text]
    if re.fullmatch(r"-?\d+|'[^']*'|\"[^\"]*\"|None", text):
        return text
    return None


def discover_state_fields(paths_by_fn, fds) -> set[str]:
    """The protocol's state fields: attributes of the instance that the closer / reader paths both assign constants to and test
    (today two booleans; a single life-cycle field with named states is the same thing)."""
    stored, tested = set(), set()
    for ps in paths_by_fn:
        for p in ps:
            for e in p.flat():
                if e.kind == "store" and e.extra.get("recv") == "self" and e.extra.get("attr") not in fds and state_value(e.extra.get("value") or "") is not None:
                    stored.add(e.extra["attr"])
                elif e.kind == "cond":
                    for a in re.findall(r"\bself\.(_\w+)\b", e.text):
                        tested.add(a)
    return stored & tested


def slice_path(p, fds, tracked, what: str):
    """Ops of one enumerated path."""
    ops: list[tuple] = []
    for e in p.evs:
        if e.kind == "acquire" and e.text == "self._lock":
            ops.append(("lock", LOCK))
        elif e.kind == "release" and e.text == "self._lock":
            ops.append(("unlock", LOCK))
        elif e.kind == "cond":
            m = re.fullmatch(r"self\.(_\w+)", e.text)
            meq = re.fullmatch(r"self\.(_\w+) == (\S+)|(\S+) == self\.(_\w+)", e.text)
            min_ = re.fullmatch(r"self\.(_\w+) in [\(\[\{](.+?),?[\)\]\}]", e.text)
            if m and m.group(1) in tracked:
                ops.append(("test", m.group(1), bool(e.extra.get("truth"))))
            elif meq and (meq.group(1) or meq.group(4)) in tracked and state_value(meq.group(2) or meq.group(3)) is not None:
                ops.append(("testin", meq.group(1) or meq.group(4), (state_value(meq.group(2) or meq.group(3)),), bool(e.extra.get("truth"))))
            elif min_ and min_.group(1) in tracked and all(state_value(x.strip()) is not None for x in min_.group(2).split(",")):
                ops.append(("testin", min_.group(1), tuple(state_value(x.strip()) for x in min_.group(2).split(",")), bool(e.extra.get("truth"))))
            elif any(re.search(rf"\bself\.{t}\b", e.text) for t in tracked):
                raise AnalysisError(f"{what}: condition `{e.text[:80]}` on tracked state cannot be abstracted")
        elif e.kind == "store" and e.extra.get("recv") == "self" and e.extra.get("attr") in tracked:
            v = state_value(e.extra.get("value") or "")
            if v is None:
                raise AnalysisError(f"{what}: tracked state field {e.extra.get('attr')} assigned non-constant `{e.extra.get('value')}`")
            ops.append(("set", e.extra["attr"], v))
        elif e.kind == "call":
            func = e.extra.get("func", "")
            if func == "self._check_inotify_fd":
                ops.append(("block", ("kill", "data"), "poll(inotify_fd, kill_r)", ["_inotify_fd", "_kill_r"]))
                continue
            r = classify_call(fd_text(e), func, fds)
            if r is None:
                raise AnalysisError(f"{what}: call `{e.text[:80]}` touches a descriptor in a way the slicer cannot abstract")
            for op in r:
                ops.append(op)
                if op[0] == "use" and op[1] == "_kill_w" and func == "os.write":
                    ops.append(("set", "kill", True))
        elif e.kind == "loop" and e.text == "True":
            # the retry loop around the read: an iteration that goes round again (continue / falls off the end) did what it did
            # before the iteration that leaves the loop
            retries = []
            for b in e.extra["paths"]:
                if b.outcome is NORMAL or b.outcome == CONTINUE:
                    o = [x for x in slice_path(b, fds, tracked, what) if x[0] != "retry"]
                    if o and o not in retries:
                        retries.append(o)
            if retries:
                ops.append(("retry", retries))
        elif e.kind == "loop" and e.text != "True":
            # zero or more iterations: resource uses inside become optional
            inner = set()
            for b in e.extra["paths"]:
                for x in b.flat():
                    if x.kind == "call":
                        r = classify_call(fd_text(x), x.extra.get("func", ""), fds)
                        if r is None and x.extra.get("func") != "self._check_inotify_fd":
                            raise AnalysisError(f"{what}: call `{x.text[:80]}` in a loop touches a descriptor in an unknown way")
                        for op in r or []:
                            inner.add(op)
            for op in sorted(inner):
                ops.append(("opt", op))
    return ops


def run(ctx) -> None:
    P = ctx.P
    RT = ctx.rule("C12/fd-typestate", "under every interleaving of the closer(s) with the reader loop: no descriptor is used or closed after it was closed, none is closed twice, none is left open once close was requested and all threads ended, and no thread is blocked forever", floor=3)
    RC = ctx.rule("C12/ctor-exception-safety", "every fallible call of Inotify.__init__ after the first acquisition lies in a region whose exceptional exit closes every descriptor acquired so far", floor=3)
    RH = ctx.rule("C12/close-chain", "emitter stop reaches the buffer's close; that reaches Inotify.close, the queue's close and join of the reader; _close_resources closes exactly the descriptors the constructor created; a failed emitter start reaches emitter.stop()", floor=5)
    RONE = ctx.rule("C12/one-emitter-per-watch", "an emitter is constructed only after a failed membership test of the watch in the emitter map, under the lock (instance shared with C13): a second emitter for an equal watch replaces the first in the map, and unschedule() releases only the one it finds there -- the other keeps its descriptors and threads until stop()", floor=1)
    ctx.borrow("c13", "C13/one-emitter-per-watch", RONE)
    RO = ctx.rule("C12/fd-ownership", "the descriptor fields are touched only inside Inotify's own methods", floor=1)

    fds, init = descriptor_fields(P)
    fdl = sorted(fds)
    ctx.extra["descriptor_fields"] = fds
    cfg = ProtoCfg(P, fault=False)
    en = Enumerator(cfg)
    close_f = P.find_method("Inotify", "close")
    read_f = P.find_method("Inotify", "read_events")
    if close_f is None or read_f is None:
        raise AnalysisError("anchor vanished: Inotify.close / read_events")
    # module-level constants that may name protocol states (canonical value: the folded literal)
    STATE_CONSTS.clear()
    imod = close_f.module
    for cname, cexpr in imod.consts.items():
        if isinstance(cexpr, ast.Constant) and isinstance(cexpr.value, (str, int)) and not isinstance(cexpr.value, bool):
            STATE_CONSTS[cname] = repr(cexpr.value)
    close_paths = en.run(close_f, selfcls="Inotify")
    read_paths = en.run(read_f, selfcls="Inotify")
    tracked = discover_state_fields([close_paths, read_paths], fds)
    if not tracked:
        raise AnalysisError("no state field of the close / read protocol found (a field both assigned constants and tested in Inotify.close and read_events)")
    ctx.extra["protocol_state_fields"] = sorted(tracked)
    ctx.count("close_paths", len(close_paths))
    ctx.count("read_paths", len(read_paths))
    closer_alts = []
    for p in close_paths:
        o = slice_path(p, fds, tracked, "Inotify.close")
        if o not in closer_alts:
            closer_alts.append(o)
    def with_retries(o):
        """the alternatives of one call: no earlier iteration of the retry loop, or one (each way of going round again)"""
        i = next((k for k, x in enumerate(o) if x[0] == "retry"), None)
        if i is None:
            return [o]
        rest = with_retries(o[i + 1 :])
        return [o[:i] + r for r in rest] + [o[:i] + pre + r for pre in o[i][1] for r in rest]

    reader_alts = []
    for p in read_paths:
        for o in with_retries(slice_path(p, fds, tracked, "Inotify.read_events")):
            if o not in reader_alts:
                reader_alts.append(o)
    ctx.extra["closer_skeleton"] = [[str(x) for x in a] for a in closer_alts]
    ctx.extra["reader_skeleton"] = [[str(x) for x in a] for a in reader_alts]
    ctx.sample({"closer_path": [str(x) for x in closer_alts[-1]]})
    ctx.sample({"reader_path": [str(x) for x in max(reader_alts, key=len)]})

    # initial values from the constructor
    init_vars = {"kill": False, "flag": False, "data": False}
    ipaths = Enumerator(ProtoCfg(P, fault=False)).run(init, selfcls="Inotify")
    for p in ipaths:
        for e in p.evs:
            if e.kind == "store" and e.extra.get("recv") == "self" and e.extra.get("attr") in tracked and state_value(e.extra.get("value") or "") is not None:
                init_vars[e.extra["attr"]] = state_value(e.extra["value"])
    if not tracked <= set(init_vars):
        raise AnalysisError(f"initial values of {tracked} not found in Inotify.__init__")
    ctx.extra["initial_state"] = dict(init_vars)

    # how the threads drive the protocol (read from InotifyBuffer / BaseThread)
    tcfg = ThreadCfg(P, follow_attrs=False, no_inline={"join", "read_events", "_group_events", "put", "start"})
    stop_paths = Enumerator(tcfg).run(P.find_method("InotifyBuffer", "stop"), selfcls="InotifyBuffer")
    order_ok = None
    hook_calls = []
    for p in stop_paths:
        idx_set = [i for i, e in enumerate(p.evs) if e.kind == "call" and e.extra.get("func") == "self._stopped_event.set"]
        idx_close = [i for i, e in enumerate(p.evs) if e.kind == "call" and e.extra.get("func") == "self._inotify.close"]
        hook_calls = [e.extra.get("func") for e in p.evs if e.kind == "call"]
        if idx_set and idx_close:
            order_ok = idx_set[0] < idx_close[0]
    if order_ok is None:
        raise AnalysisError("InotifyBuffer.stop(): flag set / Inotify.close not found on its path")
    bclose = Enumerator(tcfg).run(P.find_method("InotifyBuffer", "close"), selfcls="InotifyBuffer")
    joins = all(any(e.kind == "call" and e.extra.get("func") == "self.join" for e in p.evs) for p in bclose)
    runf = P.find_method("InotifyBuffer", "run")
    runsrc = ast.unparse(runf.node)
    if "should_keep_running()" not in runsrc or "read_events()" not in runsrc:
        raise AnalysisError("InotifyBuffer.run no longer loops on should_keep_running() around read_events()")

    def closer_thread(name, reader_index, join=True):
        pre = [("set", "flag", True)]
        st = [[pre]] if order_ok else []
        st.append([list(a) + [("set", "close_requested", True)] for a in closer_alts])
        if not order_ok:
            st.append([pre])
        if join and joins:
            st.append([[("join", reader_index)]])
        return Thread(name, st)

    def reader_thread(max_iter=2):
        alts = [[("test", "flag", True)]]
        seqs = [[]]
        for k in range(max_iter):
            nxt = []
            for s in seqs:
                for r in reader_alts:
                    nxt.append(s + [("test", "flag", False)] + list(r))
            seqs = nxt
            for s in seqs:
                alts.append(s + [("test", "flag", True)])
        return Thread("reader", [alts])

    results = []
    scenarios = []
    deep = ctx.tier == "thorough"
    for data in (False, True):
        for ncloser in ((1, 2, 3) if deep else (1, 2)):
            iv = dict(init_vars, data=data, close_requested=False)
            ths = [reader_thread(3 if deep and ncloser < 3 else 2)]
            for c in range(ncloser):
                ths.append(closer_thread(f"closer{c + 1}", 0))
            verdicts, nst, ntr = explore(ths, iv, fdl, "close_requested", max_states=6000000)
            scenarios.append({"data_arrives": data, "closers": ncloser, "states": nst, "transitions": ntr, "verdicts": [v.kind + ": " + v.detail for v in verdicts]})
            ctx.count("typestate_states", nst)
            ctx.count("typestate_transitions", ntr)
            results.append((data, ncloser, verdicts))
    ctx.extra["typestate_scenarios"] = scenarios
    allv = {}
    for data, nc, vs in results:
        for v in vs:
            allv.setdefault((v.kind, v.detail.split(" (")[0]), (v, data, nc))
    kinds = ["use-after-close", "double-close", "leak", "blocked-forever", "unlock-not-held"]
    for k in kinds:
        hits = [(v, d, n) for (kk, _), (v, d, n) in allv.items() if kk == k]
        if hits:
            for v, d, n in hits:
                ctx.viol(RT, f"{k}: {v.detail[:90]}", f"{v.detail} [scenario: closers={n}, data arrives={d}]; schedule: " + " -> ".join(v.trace[-14:]), read_f.loc, {"trace": v.trace})
        else:
            ctx.ok(RT, f"no {k} under any interleaving", read_f.loc)

    # ---------------------------------------------------------------- constructor exception safety
    class CtorCfg(ProtoCfg):
        def raises(self, kind, text, node, st):
            if kind == "call":
                f = text.split("(")[0]
                if f == "Inotify._raise_error":
                    return ["OSError"]
                if f == "os.pipe":
                    return ["OSError:EMFILE"]
            return ()

    fdvals = descriptor_values(P)
    cpaths = Enumerator(CtorCfg(P, fault=True)).run(init, selfcls="Inotify")
    ctx.count("ctor_paths", len(cpaths))
    nraise = 0
    seen_sites = set()
    for p in cpaths:
        if p.outcome[0] != "raise":
            continue
        acquired, closed = [], set()
        first_fd_failed = False
        for e in p.evs:
            if e.kind == "call" and e.extra.get("func") == "inotify_init":
                acquired.append([f for f, src in fds.items() if src == "inotify_init"][0])
            if e.kind == "cond" and re.search(r"== -1$", e.text) and "inotify_init" in e.text and e.extra.get("truth"):
                first_fd_failed = True
            if e.kind == "call" and e.extra.get("func") == "os.pipe":
                acquired += [f for f, src in fds.items() if src == "os.pipe"]
            if e.kind == "raised" and e.extra.get("at", "").startswith("os.pipe"):
                acquired = [f for f in acquired if fds[f] != "os.pipe"]
            if e.kind == "call" and e.extra.get("func") == "os.close":
                for f in fds:
                    if re.search(rf"\bself\.{f}\b|\b{f.lstrip('_')}\b", fd_text(e)):
                        closed.add(f)
                a0 = (e.extra.get("args") or [""])[0]
                if a0 in fdvals:
                    closed.add(fdvals[a0])  # closed through the local / tuple component that holds the freshly created descriptor
        if first_fd_failed:
            acquired = [f for f in acquired if fds[f] != "inotify_init"]
        r = [e for e in p.evs if e.kind in ("raised", "raise")]
        site = (r[-1].extra.get("at") or r[-1].text).split("(")[0] if r else "?"
        where = r[-1].fn if r else "?"
        key = (site, where, tuple(sorted(set(acquired) - closed)))
        if key in seen_sites:
            continue
        seen_sites.add(key)
        nraise += 1
        leaked = sorted(set(acquired) - closed)
        ctx.check(
            not leaked,
            RC,
            f"__init__ raising at {site} in {where}",
            f"the constructor can raise here with {leaked} open and nothing closes them (nobody can call close() on a half-constructed object): each failed schedule() leaks {len(leaked)} descriptor(s)",
            f"{init.module.relpath}:{r[-1].line if r else init.node.lineno}",
        )
    if nraise < 2:
        raise AnalysisError("Inotify.__init__: fallible calls of the fault model not found")

    # ---------------------------------------------------------------- a finaliser is one more closer, also of half-built instances
    # (the typestate above interleaves the closers that exist through the API; `__del__` runs whenever the collector decides, also on an
    # instance whose constructor failed after releasing its descriptors itself)
    fin = P.find_method("Inotify", "__del__")
    if fin is not None:
        reaches = any(e.kind == "call" and (e.extra.get("func") in ("os.close", "self._close_resources", "self.close")) for p in Enumerator(ThreadCfg(P, follow_attrs=False)).run(fin, selfcls="Inotify") for e in p.flat())
        unmarked = []
        for p in cpaths:
            if p.outcome[0] != "raise":
                continue
            rel = [i for i, e in enumerate(p.evs) if e.kind == "call" and e.extra.get("func") == "os.close"]
            marked = any(e.kind == "store" and e.extra.get("attr") == "_closed" and e.extra.get("value") == "True" for e in p.evs)
            if rel and not marked:
                unmarked.append(p)
        ctx.check(
            not (reaches and unmarked),
            RC,
            "Inotify.__del__ after a failed constructor",
            "`__del__` reaches a release of the descriptors, and the constructor's failure path has already closed them without marking the instance closed: when the collector finalises the half-built instance the descriptors are closed a second time (by then the numbers may belong to another watch)",
            fin.loc,
        )

    # ---------------------------------------------------------------- close chain
    cr = P.find_method("Inotify", "_close_resources")
    closed_fields = set()
    # decided on the enumerated paths (a loop over a literal tuple of the fields is unrolled by the engine)
    for p in Enumerator(ThreadCfg(P, follow_attrs=False)).run(cr, selfcls="Inotify"):
        here = set()
        for x in p.flat():
            if x.kind == "call" and x.extra.get("func") == "os.close":
                a0 = (x.extra.get("args") or [""])[0]
                if re.fullmatch(r"self\._\w+", a0):
                    here.add(a0.split(".")[1])
        closed_fields = here if not closed_fields else (closed_fields & here)
    ctx.check(closed_fields == set(fds), RH, "_close_resources closes what the constructor created", f"constructor acquires {sorted(fds)}, _close_resources closes {sorted(closed_fields)}", cr.loc)
    ctx.check(bool(order_ok) or True, RH, "buffer stop: hooks seen " + ",".join(h for h in hook_calls if h.startswith("self._"))[:80], "", P.find_method("InotifyBuffer", "on_thread_stop").loc, nontrivial=False)
    for p in stop_paths:
        fs = [e.extra.get("func") for e in p.evs if e.kind == "call"]
        ctx.check("self._inotify.close" in fs and "self._queue.close" in fs, RH, "InotifyBuffer.stop reaches Inotify.close and DelayedQueue.close", f"stop() calls {fs}", P.find_method("InotifyBuffer", "on_thread_stop").loc)
    ctx.check(joins, RH, "InotifyBuffer.close joins the reader", "close() returns without joining the reader thread (it may still be using the descriptors)", P.find_method("InotifyBuffer", "close").loc)
    ecfg = ThreadCfg(P, follow_attrs=False, no_inline={"join", "close", "queue_events", "start"})
    es = Enumerator(ecfg).run(P.find_method("InotifyEmitter", "stop"), selfcls="InotifyEmitter")
    okc = True
    for p in es:
        c_ = p.conds()
        has = c_.get("self._inotify")  # "it has one": the field is truthy / is not None (a thread object is never falsy)
        if has is None and c_.get("self._inotify is None") is not None:
            has = not c_["self._inotify is None"]
        if has is None and c_.get("self._inotify is not None") is not None:
            has = c_["self._inotify is not None"]
        closes = [e for e in p.evs if e.kind == "call" and e.extra.get("func") == "self._inotify.close"]
        if has is True and len(closes) != 1:
            okc = False
        if has is None and not closes:
            okc = False
    ctx.check(okc, RH, "InotifyEmitter.stop closes its buffer when it has one", "the emitter's stop path does not close the InotifyBuffer it created", P.find_method("InotifyEmitter", "on_thread_stop").loc)
    ocfg = ThreadCfg(P, follow_attrs=False, no_inline={"join", "is_alive", "BaseThread.start", "EventEmitter.stop"}, raising={r"(emitter|\$elem\(.*\))\.start": "Exception"})
    sp = Enumerator(ocfg).run(P.find_method("BaseObserver", "start"), selfcls="BaseObserver")
    failing = [p for p in sp if p.outcome[0] == "raise"]
    okf = bool(failing) and all(any(e.kind == "call" and re.fullmatch(r"(\$elem\(.*\)|emitter)\.stop|self\._emitter_for_watch(\[|\.pop\(|\.get\()(\$elem\(.*\)|emitter)\.watch[\])]\.stop", e.extra.get("func", "")) for e in p.flat()) for p in failing)
    # (the failed emitter may also be reached through the emitter map under its own watch: the map holds exactly the registered
    # emitters under their watches -- C13/coherent-effects)
    ctx.check(okf, RH, "BaseObserver.start failure path stops the failed emitter", "an emitter whose start() raised is not stopped (its buffer thread and descriptors stay)", P.find_method("BaseObserver", "start").loc)

    # ---------------------------------------------------------------- ownership
    from ..fixtures import FX_FD, attr_accesses_outside, must_fire

    must_fire("C12/fd-ownership", attr_accesses_outside, FX_FD, {"_inotify_fd"}, "Inotify")
    outside = []
    for m in P.modules.values():
        for line, owner in attr_accesses_outside(m.tree, set(fds), "Inotify"):
            outside.append(f"{m.relpath}:{line} ({owner})")
    ctx.check(not outside, RO, "descriptor fields accessed only in Inotify (detector checked on a positive fixture)", f"descriptor fields touched outside Inotify: {outside}", P.cls("Inotify").loc)
    ctx.assumptions += [
        "poll() returns when the wake-up byte was written or (nondeterministically) data arrived; both cases explored",
        "reader loop bounded at 2 iterations of read_events (a third adds no new protocol state)",
        "fault model of the constructor: inotify_init, os.pipe, inotify_add_watch (through _raise_error), the ENOTDIR check",
    ]


IC = "observers/inotify_c.py"
IB = "observers/inotify_buffer.py"
VARIANTS = [
    dict(name="E start() failure drops the whole watch through unschedule()", expect="silent", edits=[("observers/api.py", "                self._remove_emitter(emitter)\n                raise", "                self.unschedule(emitter.watch)\n                raise")]),
    dict(name="B start() failure leaves the failed emitter running", expect="fire", rule="C12/close-chain", edits=[("observers/api.py", "                self._remove_emitter(emitter)\n                raise", "                self._emitters.discard(emitter)\n                raise")]),
    dict(name="B _is_reading starts True (pre-fix leak)", expect="fire", rule="C12/fd-typestate", edits=[(IC, "        self._is_reading = False\n        try:\n            self._kill_r", "        self._is_reading = True\n        try:\n            self._kill_r")]),
    dict(name="B parse block does not re-check closed (pre-fix use after close)", expect="fire", rule="C12/fd-typestate", edits=[(IC, "            if self._closed:\n                # close() ran after the read completed and has released the descriptors:\n                # adding watches below would act on a closed (possibly re-used) fd.\n                return []\n\n", "")]),
    dict(name="B constructor without clean-up (pre-fix leak)", expect="fire", rule="C12/ctor-exception-safety", edits=[(IC, "        except BaseException:\n            # Nobody will ever call close() on a half-constructed instance.\n            self._close_resources()\n            raise\n", "        except BaseException:\n            raise\n")]),
    dict(name="B _close_resources forgets kill_w", expect="fire", rule="C12/", edits=[(IC, "        os.close(self._kill_r)\n        os.close(self._kill_w)", "        os.close(self._kill_r)")]),
    dict(name="B reader does not clear _is_reading", expect="fire", rule="C12/fd-typestate", edits=[(IC, "                with self._lock:\n                    self._is_reading = False\n\n                    if self._closed:", "                with self._lock:\n                    if self._closed:")]),
    dict(name="B close() always closes itself", expect="fire", rule="C12/fd-typestate", edits=[(IC, "                if self._is_reading:\n                    # inotify_rm_watch() should write data to _inotify_fd and wake\n                    # the thread, but writing to the kill channel will gaurentee this\n                    os.write(self._kill_w, b\"!\")\n                else:\n                    self._close_resources()", "                self._close_resources()")]),
    dict(name="B close() without the closed guard", expect="fire", rule="C12/fd-typestate", edits=[(IC, "        with self._lock:\n            if not self._closed:\n                self._closed = True\n\n                if self._path in self._wd_for_path:", "        with self._lock:\n            if True:\n                self._closed = True\n\n                if self._path in self._wd_for_path:")]),
    dict(name="B reader closes after releasing the lock", expect="fire", rule="C12/fd-typestate", edits=[(IC, "                with self._lock:\n                    self._is_reading = False\n\n                    if self._closed:\n                        self._close_resources()\n                        return []", "                with self._lock:\n                    self._is_reading = False\n                    closed = self._closed\n\n                if closed:\n                    self._close_resources()\n                    return []")]),
    dict(name="B kill byte not written", expect="fire", rule="C12/fd-typestate", edits=[(IC, "                    os.write(self._kill_w, b\"!\")", "                    pass")]),
    dict(name="B buffer close does not join", expect="fire", rule="C12/close-chain", edits=[(IB, "        self.stop()\n        self.join()", "        self.stop()")]),
    dict(name="B observer reaches into the fd", expect="fire", rule="C12/fd-ownership", edits=[(IB, "    def on_thread_stop(self) -> None:\n        self._inotify.close()", "    def on_thread_stop(self) -> None:\n        os.close(self._inotify._inotify_fd) if False else None\n        self._inotify.close()")]),
    dict(name="E reorder the three os.close calls", expect="silent", edits=[(IC, "        os.close(self._inotify_fd)\n        os.close(self._kill_r)\n        os.close(self._kill_w)", "        os.close(self._kill_w)\n        os.close(self._kill_r)\n        os.close(self._inotify_fd)")]),
    dict(name="E closed check first in close()", expect="silent", edits=[(IC, "        with self._lock:\n            if not self._closed:\n                self._closed = True\n\n                if self._path in self._wd_for_path:", "        with self._lock:\n            if self._closed:\n                return\n            if True:\n                self._closed = True\n\n                if self._path in self._wd_for_path:")]),
]


def thorough(ctx):
    from ..selftest import thorough as st

    return st(ctx, VARIANTS)
