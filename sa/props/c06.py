"""C06 — no API call order deadlocks; stop()+join() always ends every library thread.

Not decided: liveness under the OS scheduler, or anything in user handlers.
Decided — the static deadlock discipline of this code base: acyclic lock order; no join / blocking wait under a lock its
waker needs; every untimed blocking site in a thread body has a waker that stop() must reach after the stop flag is set;
untimed Condition.wait() only inside predicate loops whose predicate the notifiers write; the lock held around user
callbacks is re-entrant; release actions on the stop path are idempotent.
"""

from __future__ import annotations

import ast
import re

from ..model import AnalysisError, dotted
from ..pse import NORMAL, Enumerator, Path
from ..threads import ThreadCfg, lock_aliases, lock_assignments, lock_kind

LEVEL_TEXT = (
    "Static analysis. Class-specialised path enumeration with deep inlining through typed attribute receivers (emitter -> buffer -> "
    "reader / delay queue) of every thread body (run) and of every stop() closure; blocking sites and wakers are matched by a frozen "
    "table (queue get <- put on that queue; poll <- write to the kill pipe; Condition.wait <- notify on the same condition); the "
    "ordering 'flag set before waker' is checked on every stop path consistent with the state in which the site can block; lock-order "
    "graph over all acquisitions with the locks held at that point; monitor-discipline rule over every untimed wait in the package."
    " Also: the reader's poll/select waits on the kill pipe's read end and reports readiness of the inotify descriptor (otherwise the waker of the table cannot wake it)."
)

LINUX_SKIP = ("watchdog.observers.fsevents", "watchdog.observers.fsevents2", "watchdog.observers.kqueue", "watchdog.observers.read_directory_changes", "watchdog.observers.winapi", "watchdog.watchmedo")
USER_CODE = {"dispatch", "events_callback", "process_termination_callback", "on_any_event"}


_OWNER_CACHE: dict = {}


def lock_owner(P, cls: str | None, attr: str) -> str:
    key = (id(P), cls, attr)
    if key not in _OWNER_CACHE:
        _OWNER_CACHE[key] = _lock_owner(P, cls, attr)
    return _OWNER_CACHE[key]


def _lock_owner(P, cls: str | None, attr: str) -> str:
    if cls and cls in P.classes:
        al = lock_aliases(P, cls)
        attr2 = al.get(f"self.{attr}", f"self.{attr}").split(".", 1)[1]
        for c in P.mro(cls):
            ci = P.classes.get(c)
            if not ci:
                continue
            for fi in ci.methods.values():
                for n in ast.walk(fi.node):
                    if isinstance(n, ast.Assign) and len(n.targets) == 1 and dotted(n.targets[0]) == f"self.{attr2}":
                        return f"{c}.{attr2}"
        return f"{cls}.{attr2}"
    return f"?.{attr}"


def canon(P, e) -> str:
    """Canonical lock id of an acquire/release/wait/notify event."""
    t = e.text
    attr = t.split(".")[-1]
    if t.startswith("self.") and t.count(".") == 1:
        return lock_owner(P, e.cls, attr)
    return t


def callback_bindings(P) -> dict[tuple[str, str], tuple[str, str]]:
    """(callee class, callback attribute) -> (owner class, method) for `T(cb=lambda ...: self.m())` constructions in the package."""
    out = {}
    for m in P.modules.values():
        for cname, ci in m.classes.items():
            for fi in ci.methods.values():
                for n in ast.walk(fi.node):
                    if not (isinstance(n, ast.Call) and isinstance(n.func, ast.Name) and n.func.id in P.classes):
                        continue
                    for k in n.keywords:
                        v = k.value
                        if isinstance(v, ast.Lambda) and isinstance(v.body, ast.Call) and isinstance(v.body.func, ast.Attribute):
                            if isinstance(v.body.func.value, ast.Name) and v.body.func.value.id == "self":
                                out[(n.func.id, k.arg)] = (cname, v.body.func.attr)
                        elif isinstance(v, ast.Attribute) and isinstance(v.value, ast.Name) and v.value.id == "self" and P.find_method(cname, v.attr):
                            out[(n.func.id, k.arg)] = (cname, v.attr)
                    # positional: ProcessWatcher(self.process, self._restart_process)
                    init = P.find_method(n.func.id, "__init__")
                    if init is not None:
                        params = [a.arg for a in init.node.args.args][1:]
                        for a, pn in zip(n.args, params):
                            if isinstance(a, ast.Attribute) and isinstance(a.value, ast.Name) and a.value.id == "self" and P.find_method(cname, a.attr):
                                out[(n.func.id, pn)] = (cname, a.attr)
    return out


class DeepCfg(ThreadCfg):
    max_inline_depth = 10
    max_paths = 60000
    callbacks: dict = {}

    def inline(self, call, ft, rc, st):
        got = super().inline(call, ft, rc, st)
        if got:
            return got
        # library callbacks stored in attributes: self.<cb>(...) where <cb> was bound to a method of the constructing class
        f = call.func
        if isinstance(f, ast.Attribute) and isinstance(f.value, ast.Name) and f.value.id == "self" and st.selfcls:
            for c in self.program.mro(st.selfcls):
                b = self.callbacks.get((c, f.attr))
                if b:
                    fi = self.program.find_method(b[0], b[1])
                    if fi is not None:
                        return fi, b[0], ast.Name("owner", ast.Load())
        return None


def deep_cfg(P, emitter: str | None = None):
    b = {}
    if emitter:
        b["EventEmitter"] = emitter
    cfg = DeepCfg(P, bindings=b, follow_attrs=True, no_inline=(USER_CODE - {"events_callback", "process_termination_callback"}) | {"join", "start", "_recursive_simulate", "_group_events", "_parse_event_buffer", "_add_dir_watch", "_add_watch", "SkipRepeatsQueue.put"}, local_types={"emitter": emitter or "EventEmitter", "event_queue": "EventQueue"})
    cfg.callbacks = callback_bindings(P)
    return cfg


def walk_events(paths, held=None):
    """(event, held dict, path conds-so-far as list of (cls,obj,text,truth), stores-so-far) depth first incl. loop bodies."""
    _SEEN_LOOPS.clear()
    for p in paths:
        yield from _walk(p.evs, dict(held or {}), [], {})


_SEEN_LOOPS: set = set()


def _walk(evs, held, conds, stores):
    conds = list(conds)
    stores = dict(stores)
    for e in evs:
        if e.kind == "cond":
            conds.append((e.cls, e.obj, e.text, bool(e.extra.get("truth"))))
        if e.kind == "store" and e.extra.get("recv") == "self":
            v_ = e.extra.get("value") or ""
            if v_ in ("True", "False", "None") or re.fullmatch(r"_?[A-Z][A-Z0-9_]*", v_):  # a boolean, or a named state (module-level constant)
                stores[(e.cls, e.obj, e.extra.get("attr"))] = v_
            else:
                stores.pop((e.cls, e.obj, e.extra.get("attr")), None)  # overwritten by something that is not a constant
        yield e, dict(held), list(conds), dict(stores)
        if e.kind == "acquire":
            k = e.extra.get("_canon")
            held[k] = held.get(k, 0) + 1
        elif e.kind == "release":
            k = e.extra.get("_canon")
            if held.get(k, 0) > 0:
                held[k] -= 1
                if not held[k]:
                    del held[k]
        elif e.kind == "loop":
            key = (id(e.node), tuple(sorted(held.items())), tuple(sorted((k, v) for k, v in stores.items())))
            if key in _SEEN_LOOPS:
                continue  # same loop, same lock set, same dominating constant stores: already walked
            _SEEN_LOOPS.add(key)
            for b in e.extra["paths"]:
                yield from _walk(b.evs, dict(held), conds, stores)


def tag_canon(P, paths):
    done: set[int] = set()

    def rec(ps):
        for p in ps:
            for e in p.evs:
                if id(e) in done:
                    continue
                done.add(id(e))
                if e.kind in ("acquire", "release", "wait", "notify"):
                    e.extra["_canon"] = canon(P, e)
                if e.kind == "loop":
                    rec(e.extra["paths"])

    rec(paths)


def is_thread_join(e) -> bool:
    f = e.extra.get("func", "")
    if not f.endswith(".join"):
        return False
    recv = f[: -len(".join")]
    return not (recv.startswith(("os.path", "'", '"', "b'", 'b"', "posixpath", "ntpath")) or recv.endswith((".path", "sep")))


def is_queue_get(e) -> bool:
    if e.kind != "call":
        return False
    f = e.extra.get("func", "")
    if not re.search(r"(^|\.)_?event_queue\.get$", f):
        return False
    kw = e.extra.get("kwargs", {})
    args = e.extra.get("args") or []
    timed = "timeout" in kw or len(args) > 1
    nonblock = kw.get("block") == "False" or (args and args[0] == "False")
    return not timed and not nonblock


def is_queue_put(e) -> bool:
    return e.kind == "call" and re.search(r"(^|\.)_?event_queue\.(put|put_nowait)$", e.extra.get("func", "")) is not None


def consistent(site_conds, site_stores, stop_path: Path) -> bool:
    """Is this stop path possible in a state in which the thread can be blocked at the site?  Only (class, attribute) facts
    are compared: `X is None` against the truthiness of X, and constant stores that dominate the site against tests of it."""
    facts: dict[tuple, bool] = {}  # (cls, attr) -> truthy?
    values: dict[tuple, str] = {}  # (cls, attr) -> the constant last stored before the site (a boolean, or a named state)
    for cls, obj, text, truth in site_conds:
        m = re.fullmatch(r"self\.(_\w+) is None", text)
        if m:
            facts[(cls, m.group(1))] = not truth
        m = re.fullmatch(r"self\.(_\w+)", text)
        if m:
            facts[(cls, m.group(1))] = truth
    for (cls, obj, attr), v in site_stores.items():
        values[(cls, attr)] = v
        if v in ("True", "False", "None"):
            facts[(cls, attr)] = v == "True"
    for e in stop_path.flat():
        if e.kind != "cond":
            continue
        m = re.fullmatch(r"self\.(_\w+)( is None)?", e.text)
        if m:
            key = (e.cls, m.group(1))
            if key in facts:
                truthy = (not e.extra.get("truth")) if m.group(2) else bool(e.extra.get("truth"))
                if truthy != facts[key]:
                    return False
            continue
        # a life-cycle field compared with named states: the stop path must agree with the state stored before the site
        meq = re.fullmatch(r"self\.(_\w+) == (\w+)", e.text)
        min_ = re.fullmatch(r"self\.(_\w+) in [\(\[\{](.+?),?[\)\]\}]", e.text)
        if meq and (e.cls, meq.group(1)) in values:
            if (values[(e.cls, meq.group(1))] == meq.group(2)) != bool(e.extra.get("truth")):
                return False
        elif min_ and (e.cls, min_.group(1)) in values:
            if (values[(e.cls, min_.group(1))] in [x.strip() for x in min_.group(2).split(",")]) != bool(e.extra.get("truth")):
                return False
    return True


def poll_listens_on_kill_pipe(ctx, RK, P) -> None:
    """The waker of the reader's poll is a write to the kill pipe: that only wakes it if the wait includes the pipe's read end,
    and the reader only goes on to read when the *inotify* descriptor is the readable one."""
    ini = P.find_method("Inotify", "__init__")
    if ini is None:
        raise AnalysisError("anchor vanished: Inotify.__init__")
    assigned = [ast.unparse(n.value) for n in ast.walk(ini.node) if isinstance(n, ast.Assign) and any(ast.unparse(t) == "self._check_inotify_fd" for t in n.targets)]
    # closures of __init__, or bound methods of the class (`self._check_inotify_fd = self._poll_inotify_fd`)
    fns = {f.name: f for f in ast.walk(ini.node) if isinstance(f, ast.FunctionDef) and f is not ini.node}
    for a in assigned:
        if a.startswith("self.") and P.find_method("Inotify", a[5:]) is not None:
            fns[a] = P.find_method("Inotify", a[5:]).node
    cls_node = P.cls("Inotify").node
    if not assigned or not all(a in fns for a in assigned):
        raise AnalysisError("anchor vanished: the functions bound to Inotify._check_inotify_fd")
    registered = {ast.unparse(n.args[0]) for n in ast.walk(cls_node) if isinstance(n, ast.Call) and ast.unparse(n.func) == "self._poller.register" and n.args}
    want = {"self._inotify_fd", "self._kill_r"}
    for name in assigned:
        f = fns[name]
        calls = [n for n in ast.walk(f) if isinstance(n, ast.Call)]
        polls = [n for n in calls if ast.unparse(n.func) == "self._poller.poll"]
        sels = [n for n in calls if ast.unparse(n.func) == "select.select"]
        rets = [n.value for n in ast.walk(f) if isinstance(n, ast.Return) and n.value is not None]
        cmp_ok = bool(rets) and all(
            any(isinstance(c, ast.Compare) and len(c.ops) == 1 and isinstance(c.ops[0], (ast.Eq, ast.In)) and "self._inotify_fd" in (ast.unparse(c.left), ast.unparse(c.comparators[0])) for c in ast.walk(r)) and "_kill_r" not in ast.unparse(r)
            for r in rets
        )
        if polls:
            listens = registered >= want and all(not n.args and not n.keywords for n in polls)
            what = f"registered {sorted(registered)}, poll() untimed={all(not n.args and not n.keywords for n in polls)}"
        elif sels:
            rd = sels[0].args[0] if sels[0].args else None
            got = {ast.unparse(x) for x in rd.elts} if isinstance(rd, (ast.List, ast.Tuple)) else set()
            listens = got >= want and len(sels[0].args) == 3
            what = f"select read set {sorted(got)}"
        else:
            listens, what = False, "neither poll() nor select() is called"
        ctx.check(listens, RK, f"reader wait `{name}` listens on the kill pipe", f"the reader's blocking wait does not include the kill pipe's read end ({what}): close() writes to the pipe but the reader sleeps on until the next filesystem event; InotifyBuffer.close() joins it forever", f"{ini.module.relpath}:{f.lineno}")
        ctx.check(cmp_ok, RK, f"reader wait `{name}` reports readiness of the inotify descriptor", "the wait's result is not `the inotify descriptor is among the readable ones`: after a wake-up through the kill pipe the reader would block in read(2), or skip reading when data is there", f"{ini.module.relpath}:{f.lineno}")


MUTATING = ("pop", "popleft", "remove", "clear", "discard", "popitem", "append", "appendleft", "extend", "add", "update", "insert")


def cursor_loops_advance(ctx, RULE, P) -> None:
    """`while <test over local names, len() and constants>:` -- a decoder's cursor loop, a count-down: on every way round (the end
    of the body, every `continue`) a name the test reads has been assigned or mutated in this iteration.  A way round that leaves them
    all untouched meets the same test with the same values: the thread spins there for ever (holding whatever lock it holds)."""
    n = 0
    for fi in P.all_functions():
        for loop in [x for x in ast.walk(fi.node) if isinstance(x, ast.While)]:
            names = {x.id for x in ast.walk(loop.test) if isinstance(x, ast.Name) and isinstance(x.ctx, ast.Load)} - {"len", "True", "False", "None"}
            pure = all(isinstance(x, (ast.Name, ast.Constant, ast.Compare, ast.BoolOp, ast.UnaryOp, ast.BinOp, ast.cmpop, ast.boolop, ast.unaryop, ast.operator, ast.expr_context)) or (isinstance(x, ast.Call) and isinstance(x.func, ast.Name) and x.func.id == "len" and not x.keywords) for x in ast.walk(loop.test))
            if not names or not pure:
                continue
            # a nested function that rebinds the names (nonlocal) makes the local reasoning void: leave such loops alone
            if any(isinstance(x, (ast.Nonlocal, ast.Global)) and set(x.names) & names for x in ast.walk(fi.node)):
                continue
            # a loop that can also be left from inside under a condition that changes by itself (it reads a call's result: the
            # clock, a queue, the file system) is not a pure cursor loop: its termination is that exit's business
            par_ = {}
            for a_ in ast.walk(loop):
                for b_ in ast.iter_child_nodes(a_):
                    par_[b_] = a_
            from_calls = {t_.id for x in ast.walk(loop) if isinstance(x, (ast.Assign, ast.AnnAssign, ast.AugAssign, ast.NamedExpr)) and getattr(x, "value", None) is not None and any(isinstance(c_, ast.Call) for c_ in ast.walk(x.value)) for t_ in ast.walk(x.targets[0] if isinstance(x, ast.Assign) else x.target) if isinstance(t_, ast.Name)}
            dynamic_exit = False
            for x in ast.walk(loop):
                if not isinstance(x, (ast.Break, ast.Return, ast.Raise)):
                    continue
                y, inner_loop = x, False
                while y in par_ and par_[y] is not loop:
                    y = par_[y]
                    if isinstance(y, (ast.For, ast.While)) and isinstance(x, ast.Break):
                        inner_loop = True
                    if isinstance(y, ast.If) and not inner_loop and (any(isinstance(c_, ast.Call) for c_ in ast.walk(y.test)) or any(isinstance(c_, ast.Name) and c_.id in from_calls for c_ in ast.walk(y.test))):
                        dynamic_exit = True
            if dynamic_exit:
                continue
            n += 1
            bad: list[int] = []

            def touches(st: ast.stmt) -> bool:
                for x in ast.walk(st):
                    if isinstance(x, ast.Name) and isinstance(x.ctx, (ast.Store, ast.Del)) and x.id in names:
                        return True
                    if isinstance(x, ast.Call) and isinstance(x.func, ast.Attribute) and x.func.attr in MUTATING and isinstance(x.func.value, ast.Name) and x.func.value.id in names:
                        return True
                return False

            def block(stmts, touched: bool):
                """-> touched at the normal end of the block, or None when every path has left it"""
                for st in stmts:
                    if isinstance(st, ast.Continue):
                        if not touched:
                            bad.append(st.lineno)
                        return None
                    if isinstance(st, (ast.Break, ast.Return, ast.Raise)):
                        return None
                    if isinstance(st, ast.If):
                        t0 = touched or touches(ast.Expr(st.test))
                        a, b = block(st.body, t0), block(st.orelse, t0)
                        if a is None and b is None:
                            return None
                        touched = all(x for x in (a, b) if x is not None)
                    elif isinstance(st, (ast.With, ast.AsyncWith)):
                        r = block(st.body, touched or any(touches(ast.Expr(i.context_expr)) for i in st.items))
                        if r is None:
                            return None
                        touched = r
                    elif isinstance(st, ast.Try):
                        r = block(st.body, touched)
                        rs = [r] + [block(h.body, touched) for h in st.handlers]
                        if r is not None and st.orelse:
                            rs[0] = block(st.orelse, r)
                        rs = [x for x in rs if x is not None]
                        if st.finalbody:
                            f = block(st.finalbody, all(rs) if rs else touched)
                            if f is None or not rs:
                                return None
                            touched = f
                        else:
                            if not rs:
                                return None
                            touched = all(rs)
                    elif isinstance(st, (ast.For, ast.While, ast.AsyncFor)):
                        # an inner loop may run zero times; its own continue / break are its own
                        inner_ret = any(isinstance(x, ast.Return) for x in ast.walk(st))
                        _ = inner_ret
                        touched = touched or touches(ast.Expr(st.iter if not isinstance(st, ast.While) else st.test))
                    elif isinstance(st, (ast.FunctionDef, ast.AsyncFunctionDef, ast.ClassDef)):
                        continue
                    else:
                        touched = touched or touches(st)
                return touched

            end = block(loop.body, False)
            if end is False:
                bad.append(loop.body[-1].end_lineno or loop.lineno)
            ctx.check(
                not bad,
                RULE,
                f"{fi.qualname}: `while {ast.unparse(loop.test)[:50]}`",
                f"the loop goes round again at line(s) {sorted(set(bad))} without having assigned or mutated any of {sorted(names)} in that iteration: the test is met again with the same values and the thread spins there for ever; stop() / join() (and every call that needs a lock held around this loop) then never returns",
                f"{fi.module.relpath}:{loop.lineno}",
            )
    ctx.count("cursor_loops", n)


def run(ctx) -> None:
    P = ctx.P
    RCL = ctx.rule("C06/cursor-loops-advance", "in every `while` loop whose test reads only local names, len() and constants (a decoder's cursor loop, a count-down), each way round -- the end of the body and every `continue` -- comes after an assignment to, or a mutation of, a name the test reads", floor=3)
    cursor_loops_advance(ctx, RCL, P)
    RLB = ctx.rule("C06/explicit-locks-released-on-every-path", "a lock taken with an explicit acquire() in the delay queue is released on every way out of the method, early returns and exceptions included (instances shared with C17): a leaked non-re-entrant lock blocks the next put() of the reader thread for ever, and close() / join() behind it", floor=3)
    ctx.borrow("c17", "C17/lock-balanced", RLB)
    RO = ctx.rule("C06/lock-order", "the graph 'lock B may be acquired while lock A is held' (through resolved calls) is acyclic", floor=1)
    RW = ctx.rule("C06/no-wait-under-needed-lock", "no join() / blocking wait is executed while holding a lock that the joined thread's body, or the waker of that wait, acquires", floor=2)
    RK = ctx.rule("C06/every-block-has-a-waker", "for every library thread class: its stop() reaches, on every path consistent with the state in which the thread can block there, the waker of every untimed blocking site reachable from its run(), after the stop flag is set", floor=4)
    RM = ctx.rule("C06/monitor-discipline", "every untimed Condition.wait() is the body of a loop whose condition reads shared state, and every notifier writes some of that state before notifying", floor=3)
    RR = ctx.rule("C06/callback-lock-reentrant", "the lock held while calling user handlers, which public API methods also take, is an RLock", floor=1)
    RP = ctx.rule("C06/producers-never-block", "emitter threads put on the observer's event queue with a blocking put and no timeout; the consumer stops consuming once stop() is called (and stop() joins the emitters while holding the lock the consumer needs), so the queue must be unbounded", floor=1)
    RI = ctx.rule("C06/stop-idempotent", "release actions on the inotify stop path are guarded by a state test that the first execution falsifies", floor=2)

    thorough = ctx.tier == "thorough"
    thread_classes = [c for c in P.subclasses("BaseThread") if c != "BaseThread" and (thorough or P.classes[c].module.name not in LINUX_SKIP)]
    ctx.extra["thread_classes"] = thread_classes
    emitters_linux = [c for c in ("InotifyEmitter", "InotifyFullEmitter", "PollingEmitter") if P.has_cls(c)]

    edges: dict[tuple[str, str], str] = {}
    locks_seen: set[str] = set()
    join_sites = []
    get_under_lock = []

    def absorb(paths, where):
        tag_canon(P, paths)
        for e, held, conds, stores in walk_events(paths):
            if e.kind == "acquire":
                b = e.extra["_canon"]
                locks_seen.add(b)
                for a in held:
                    if a != b:
                        edges.setdefault((a, b), f"{where}: {e.fn}:{e.line}")
                    elif a == b:
                        kind = lock_kind(P, b.split(".")[0], b.split(".")[1]) or ""
                        if kind == "Lock":
                            edges.setdefault((a, b), f"{where}: {e.fn}:{e.line} (non-reentrant lock re-acquired)")
            if e.kind == "call" and (is_queue_put(e) or is_queue_get(e) or re.search(r"event_queue\.task_done$", e.extra.get("func", ""))):
                locks_seen.add("queue.Queue.mutex")
                for a in held:
                    edges.setdefault((a, "queue.Queue.mutex"), f"{where}: {e.fn}:{e.line}")
            if e.kind == "call" and is_thread_join(e) and held:
                join_sites.append((e, dict(held), where))
            if e.kind == "wait" and not e.extra.get("timed"):
                others = {k: v for k, v in held.items() if k != e.extra["_canon"]}
                if others:
                    get_under_lock.append((e, others, where))

    runs: dict[str, list[Path]] = {}
    stops: dict[str, list[Path]] = {}
    ALL_ENTRY_PATHS: list[Path] = []
    npaths = 0
    for T in thread_classes:
        rf = P.find_method(T, "run")
        sf = P.find_method(T, "stop")
        if rf is None or sf is None or rf.cls is None:
            continue
        emit_bind = [None]
        if P.is_subclass(T, "BaseObserver") or T == "EventDispatcher":
            emit_bind = emitters_linux
        rp: list[Path] = []
        sp: list[Path] = []
        for eb in emit_bind:
            cfg = deep_cfg(P, eb)
            try:
                rp += Enumerator(cfg).run(rf, selfcls=T)
                sp += Enumerator(cfg).run(sf, selfcls=T)
            except AnalysisError as ex:
                if P.classes[T].module.name in LINUX_SKIP:
                    ctx.note(f"{T}: not analysable ({ex}); non-Linux backend, thorough tier only")
                    rp, sp = [], []
                    break
                raise
        if not rp:
            continue
        runs[T], stops[T] = rp, sp
        npaths += len(rp) + len(sp)
        absorb(rp, f"{T}.run")
        absorb(sp, f"{T}.stop")
    # stop() itself must not raise: whatever follows the raising call on the stop path (the waker, the joins of the other emitters,
    # the dispatcher's sentinel) is skipped, and the threads it was going to wake stay blocked
    RNR = ctx.rule(
        "C06/stop-never-raises",
        "no path of a library thread's stop() (close chain inlined) ends in an exception of the modelled kinds (explicit raise statements "
        "reached through the inlined helpers): an exception unwinds through every caller up to the application's stop()/unschedule() and "
        "skips the wakers and joins that follow",
        floor=3,
    )
    for T, sp in stops.items():
        if P.classes[T].module.name in LINUX_SKIP:
            continue
        rs = [p for p in sp if p.outcome[0] == "raise"]
        where, what = "", ""
        if rs:
            r = [e for e in rs[0].evs if e.kind == "raised"]
            what = str(rs[0].outcome[1])
            last_calls = [e for e in rs[0].evs if e.kind == "call"][-3:]
            where = " after " + " -> ".join((e.raw or e.text)[:50] for e in last_calls)
        ctx.check(
            not rs,
            RNR,
            f"{T}.stop()",
            f"{len(rs)} path(s) of {T}.stop() end in {what}{where}: the rest of the stop path does not run (for the reader: the kill pipe is not written and the descriptors stay open; for the observer: the remaining emitters are not stopped and the dispatcher's sentinel is never queued), so join() blocks forever",
            P.find_method(T, "stop").loc,
        )
    if any((not i.ok) and i.rule == RNR for i in ctx.instances):
        ctx.note("a stop path raises: the lock-order / waker analyses below presuppose stop paths that complete and are skipped for this run")
        return
    # API entry points and helpers that take locks
    extra_entries = [
        ("BaseObserver", m, eb)
        for m in ("schedule", "unschedule", "unschedule_all", "add_handler_for_watch", "remove_handler_for_watch", "start")
        for eb in emitters_linux
    ] + [("InotifyBuffer", "close", None), ("InotifyBuffer", "read_event", None), ("Inotify", "add_watch", None), ("Inotify", "remove_watch", None), ("Inotify", "close", None), ("DelayedQueue", "remove", None), ("DelayedQueue", "put", None)]
    for cname in ("AutoRestartTrick", "ShellCommandTrick", "EventDebouncer"):
        if P.has_cls(cname):
            for m in P.classes[cname].methods:
                if not m.startswith("__"):
                    extra_entries.append((cname, m, None))
    for cname, m, eb in extra_entries:
        fi = P.find_method(cname, m)
        if fi is None:
            continue
        ps = Enumerator(deep_cfg(P, eb)).run(fi, selfcls=cname)
        npaths += len(ps)
        ALL_ENTRY_PATHS.extend(ps)
        absorb(ps, f"{cname}.{m}")
    ctx.count("paths", npaths)
    ctx.count("thread_classes", len(runs))
    ctx._all_paths = [p for v in runs.values() for p in v] + [p for v in stops.values() for p in v] + list(ALL_ENTRY_PATHS)
    ctx.extra["locks"] = sorted(locks_seen)
    ctx.extra["lock_order_edges"] = sorted(f"{a} -> {b}   [{w}]" for (a, b), w in edges.items())

    # ---------------------------------------------------------------- lock order: cycle detection
    from ..fixtures import FX_CYCLE, find_cycles

    if not find_cycles(FX_CYCLE):
        raise AnalysisError("positive fixture for C06/lock-order did not match: the cycle detector is broken")
    cycles = find_cycles(set(edges))
    if cycles:
        for cyc in cycles:
            wit = [edges.get((cyc[i], cyc[i + 1]), "?") for i in range(len(cyc) - 1)]
            ctx.viol(RO, "cycle " + " -> ".join(cyc), "lock-order cycle: two threads taking these locks in opposite orders deadlock; acquisitions at " + "; ".join(wit), "")
    else:
        ctx.ok(RO, f"lock-order graph acyclic ({len(locks_seen)} locks, {len(edges)} edges)", "")
    for (a, b), w in sorted(edges.items()):
        ctx.ok(RO, f"edge {a} -> {b}", w, nontrivial=True)

    # ---------------------------------------------------------------- waits / joins under locks
    acq_cache: dict[str, set[str]] = {}

    def locks_of_run(J: str) -> set[str]:
        if J not in acq_cache:
            s: set[str] = set()
            for X in [J] + [c for c in P.subclasses(J, strict=True) if c in runs]:
                for p in runs.get(X, []):
                    for e in p.flat():
                        if e.kind == "acquire":
                            s.add(e.extra.get("_canon") or canon(P, e))
            acq_cache[J] = s
        return acq_cache[J]

    seen_j = set()
    for e, held, where in join_sites:
        f = e.extra.get("func", "")
        recv = f[: -len(".join")]
        J = None
        if recv == "self":
            J = e.cls
        elif recv.startswith("$elem(") or recv in ("emitter",) or "_emitter_for_watch" in recv:
            J = "EventEmitter"
        else:
            cfg = deep_cfg(P)
            J = None
            if recv.startswith("self.") and e.cls:
                J = P.attr_types(e.cls).get(recv.split(".")[1])
        key = (e.fn, f, tuple(sorted(held)))
        if key in seen_j or J is None:
            if J is None:
                ctx.unresolved.append(f"join target of `{f}` in {e.fn} not resolved")
            continue
        seen_j.add(key)
        targets = [J] + P.subclasses(J, strict=True)
        need: set[str] = set()
        for t in targets:
            need |= locks_of_run(t) if t in runs else set()
        clash = sorted(set(held) & need)
        ctx.check(not clash, RW, f"{e.fn}: {f}() holding {sorted(held)}", f"join() is made while holding {clash}, which the joined thread's body acquires: if that thread is waiting for the lock, neither side can proceed", f"{e.fn}:{e.line}", {"joined": targets, "joined_thread_locks": sorted(need)})
    seen_w = set()
    for e, others, where in get_under_lock:
        key = (e.fn, e.extra["_canon"], tuple(sorted(others)))
        if key in seen_w:
            continue
        seen_w.add(key)
        # the waker of this wait: notify on the same condition, reached from some stop()/put: it must not need `others`
        need: set[str] = set()
        for T, sp in stops.items():
            for p in sp:
                hits = [x for x in p.flat() if x.kind == "notify" and x.extra.get("_canon") == e.extra["_canon"]]
                if hits:
                    for x in p.flat():
                        if x.kind == "acquire":
                            need.add(x.extra.get("_canon"))
        clash = sorted(set(others) & need)
        ctx.check(not clash, RW, f"{e.fn}: wait on {e.extra['_canon']} holding {sorted(others)}", f"a thread waits on the condition while holding {clash}, which the stop path that notifies it must take first", f"{e.fn}:{e.line}")

    # ---------------------------------------------------------------- a thread is joined only after it was told to stop
    RJ = ctx.rule("C06/join-after-stop", "on every path of a stop closure or API entry point, join() of a library thread comes after that thread's stop flag was set (and its stop hook ran): joining first waits for a thread nobody has woken", floor=1)
    seen_js = set()
    for where, plist in [(f"{T}.stop", sp) for T, sp in stops.items()] + [("entry", ALL_ENTRY_PATHS)]:
        for p in plist:
            evs = list(p.flat())
            for i, x in enumerate(evs):
                if not (x.kind == "call" and is_thread_join(x)):
                    continue
                f = x.extra.get("func", "")
                recv = f[: -len(".join")]
                joined = x.obj if recv == "self" else recv
                flags = [j for j, y in enumerate(evs) if y.kind == "call" and y.extra.get("func") == "self._stopped_event.set" and y.obj == joined]
                key = (x.fn, x.line, joined)
                if not flags:
                    if key not in seen_js:
                        ctx.unresolved.append(f"join of `{joined}` at {x.fn}:{x.line}: no stop() of that object on the same path (stopped elsewhere); order not decided")
                    seen_js.add(key)
                    continue
                ok = min(flags) < i
                if key in seen_js and ok:
                    continue
                seen_js.add(key)
                ctx.check(ok, RJ, f"{x.fn}: {f}() after stop of `{joined}`", f"`{joined}` is joined before it is told to stop on a path of {where}: the join waits for a thread that is still blocked in its loop", f"{x.fn}:{x.line}")

    # ---------------------------------------------------------------- stop() itself completes: it cannot leave through a failed look-up
    # (the wakers above are looked for on the *normal* paths of stop(); a stop() that raises half-way has skipped what comes after --
    # for the observer: the sentinel that wakes its dispatcher)
    RSF = ctx.rule("C06/stop-completes", "no path of BaseObserver.stop() leaves by a KeyError from a look-up in the registry maps (a map that is not a defaultdict, under a key not found in it on that path): the wake-ups that follow would be skipped and join() would wait forever", floor=1)
    from .c07 import REGISTRY, DispatcherCfg

    binit = P.find_method("BaseObserver", "__init__")
    bstop = P.find_method("BaseObserver", "stop")
    if binit is None or bstop is None:
        raise AnalysisError("anchor vanished: BaseObserver.__init__ / stop")
    total_maps = set()
    for p in Enumerator(ThreadCfg(P, follow_attrs=False)).run(binit, selfcls="BaseObserver"):
        for e in p.evs:
            if e.kind == "store" and e.extra.get("target") in REGISTRY and re.match(r"(collections\.)?defaultdict\(\w", e.extra.get("value", "")):
                total_maps.add(e.extra["target"])
    spaths = Enumerator(DispatcherCfg(P, total_maps)).run(bstop, selfcls="BaseObserver")
    ctx.count("stop_paths_with_fallible_lookups", len(spaths))
    esc = [p for p in spaths if p.outcome[0] == "raise" and str(p.outcome[1]).startswith("KeyError")]
    if esc:
        r_ = [e for e in esc[0].flat() if e.kind == "raised"]
        ctx.viol(RSF, "BaseObserver.stop", f"stop() can leave by KeyError at `{(r_[-1].extra.get('at', '') if r_ else '?')[:80]}` (a watch without an entry in that map, e.g. one whose emitter failed to start): the stop sentinel is never queued, the dispatcher stays in get() and join() never returns", f"{bstop.module.relpath}:{r_[-1].line if r_ else bstop.node.lineno}")
    else:
        ctx.ok(RSF, f"BaseObserver.stop: {len(spaths)} paths, none leaves by a failed registry look-up", bstop.loc)

    # ---------------------------------------------------------------- every block has a waker
    nsites = 0
    for T, rp in runs.items():
        sites: dict[tuple, tuple] = {}
        for e, held, conds, stores in walk_events(rp):
            kind = None
            if e.kind == "wait" and not e.extra.get("timed"):
                kind = ("cond", e.extra.get("_canon"))
            elif is_queue_get(e):
                kind = ("queue", "event_queue")
            elif e.kind == "call" and e.extra.get("func") == "self._check_inotify_fd":
                kind = ("poll", e.cls)
            elif e.kind == "call" and re.fullmatch(r".*(_stopped_event|stopped_event)\.wait", e.extra.get("func", "")) and not (e.extra.get("args") or e.extra.get("kwargs")):
                kind = ("event", "stop flag")
            if kind:
                k = (kind, e.fn, e.line)
                if k not in sites:
                    sites[k] = (e, conds, {kk: v for kk, v in stores.items()})
        for (kind, fn, line), (e, conds, stores) in sorted(sites.items(), key=lambda kv: (kv[0][1], kv[0][2])):
            nsites += 1
            construct = f"{T}: {kind[0]} block in {fn} ({e.raw[:50]})"
            sp = [p for p in stops[T] if p.outcome is NORMAL or p.outcome[0] == "return"]
            cons = [p for p in sp if consistent(conds, stores, p)]
            if not cons:
                ctx.viol(RK, construct, "no normal path of stop() is consistent with the state in which the thread blocks here", f"{fn}:{line}")
                continue
            ok, msg = True, ""
            for p in cons:
                evs = list(p.flat())
                idx_flag = [i for i, x in enumerate(evs) if x.kind == "call" and re.fullmatch(r"self\._stopped_event\.set", x.extra.get("func", "")) and x.obj == "self"]
                if kind[0] == "cond":
                    idx_w = [i for i, x in enumerate(evs) if x.kind == "notify" and x.extra.get("_canon") == kind[1]]
                elif kind[0] == "queue":
                    idx_w = [i for i, x in enumerate(evs) if is_queue_put(x)]
                elif kind[0] == "poll":
                    idx_w = [i for i, x in enumerate(evs) if x.kind == "call" and x.extra.get("func") == "os.write" and "_kill_w" in (x.raw or "")]
                else:
                    idx_w = idx_flag
                # for a nested thread (reader inside the emitter's stop) the flag that matters is the blocked thread's own
                own_flag = [i for i, x in enumerate(evs) if x.kind == "call" and re.fullmatch(r"self\._stopped_event\.set", x.extra.get("func", "")) and x.cls == e.cls] if kind[0] == "poll" else idx_flag
                own_flag = own_flag or idx_flag
                if not idx_flag:
                    ok, msg = False, "stop() does not set the stop flag on this path"
                elif not idx_w:
                    ok, msg = False, f"stop() does not reach the waker of this blocking call on the path [{p.sig()[:100]}]: the thread stays blocked and join() never returns"
                elif max(idx_w) < min(own_flag):
                    ok, msg = False, "the waker runs before the stop flag is set: the woken thread re-checks a still-clear flag and blocks again (lost wake-up)"
            ctx.check(ok, RK, construct, msg, f"{fn}:{line}", {"stop_paths_considered": len(cons), "state_at_site": [c[2] + "=" + str(c[3]) for c in conds][-6:]})
            ctx.sample({"thread": T, "site": f"{fn}:{line}", "kind": kind[0]})
    ctx.count("blocking_sites", nsites)
    poll_listens_on_kill_pipe(ctx, RK, P)

    from ..monitor import monitor_discipline

    monitor_discipline(ctx, RM, skip_modules=LINUX_SKIP)

    # ---------------------------------------------------------------- producers never block
    qclasses = set(P.subclasses("SkipRepeatsQueue")) | {"Queue"}
    ncons = 0
    for m in P.modules.values():
        for n in ast.walk(m.tree):
            if isinstance(n, ast.Call) and (dotted(n.func) or "").split(".")[-1] in qclasses and (dotted(n.func) or "").split(".")[-1] != "Queue":
                ncons += 1
                size = n.args[0] if n.args else next((k.value for k in n.keywords if k.arg == "maxsize"), None)
                v = None if size is None else P.fold(size, m)
                bounded = size is not None and not (isinstance(v, int) and v <= 0)
                ctx.check(
                    not bounded,
                    RP,
                    f"{m.name}: {ast.unparse(n)[:60]}",
                    f"the event queue is bounded (maxsize={ast.unparse(size) if size is not None else None}): when it fills up, emitter threads block in put() with no timeout and no look at the stop flag; "
                    "stop()/unschedule() then join them while holding the observer lock the consumer needs, and the observer thread stops consuming once the flag is set — join() never returns",
                    f"{m.relpath}:{n.lineno}",
                )
    puts_blocking = []
    for T, rp in runs.items():
        for p in rp:
            for e in p.flat():
                if is_queue_put(e) and e.extra.get("func", "").endswith(".put"):
                    kw = e.extra.get("kwargs", {})
                    args = e.extra.get("args") or []
                    if "timeout" not in kw and len(args) < 3 and kw.get("block") != "False":
                        puts_blocking.append((T, e))
    ctx.extra["blocking_puts_in_thread_bodies"] = sorted({f"{T}: {e.fn}:{e.line}" for T, e in puts_blocking})
    if ncons == 0:
        raise AnalysisError("no construction of the observer event queue found")

    # ---------------------------------------------------------------- callback lock re-entrant
    k = lock_kind(P, "BaseObserver", "_lock")
    ctx.check(k == "RLock", RR, "BaseObserver._lock", f"the observer lock is a {k}: a handler that calls schedule()/unschedule()/stop() from inside a callback deadlocks on it", P.cls("BaseObserver").loc)

    # ---------------------------------------------------------------- stop idempotent
    if "InotifyEmitter" in stops:
        f = P.find_method("InotifyEmitter", "on_thread_stop")
        ps = Enumerator(ThreadCfg(P, follow_attrs=False, no_inline={"close"})).run(f, selfcls="InotifyEmitter")
        ok = True
        for p in ps:
            closes = [e for e in p.evs if e.kind == "call" and e.extra.get("func") == "self._inotify.close"]
            guard = p.conds().get("self._inotify")
            if guard is None:
                guard = (not p.conds().get("self._inotify is None")) if p.conds().get("self._inotify is None") is not None else None
            cleared = any(e.kind == "store" and e.extra.get("attr") == "_inotify" and e.extra.get("value") == "None" for e in p.evs)
            if closes and not (guard is True and cleared):
                ok = False
        ctx.check(ok, RI, "InotifyEmitter.on_thread_stop", "the buffer is closed without testing / clearing the reference: a second stop() closes it twice", f.loc)
        f2 = P.find_method("Inotify", "close")
        ps = Enumerator(ThreadCfg(P, follow_attrs=False)).run(f2, selfcls="Inotify")
        ok = True
        for p in ps:
            acts = [e for e in p.evs if e.kind == "call" and e.extra.get("func") in ("os.write", "os.close", "inotify_rm_watch", "self._close_resources")]
            if not acts:
                continue
            # test-and-set on the protocol's state: the path has tested a state field and found "no release requested yet", and it
            # stores a value under which that same test fails the next time (a boolean flag, or a life-cycle field with named states)
            good = False
            stores = [(e.extra.get("attr"), e.extra.get("value")) for e in p.flat() if e.kind == "store" and e.extra.get("recv") == "self"]
            for a_, t_ in p.conds().items():
                m = re.fullmatch(r"self\.(_\w+)", a_)
                meq = re.fullmatch(r"self\.(_\w+) == (\w+)", a_)
                min_ = re.fullmatch(r"self\.(_\w+) in [\(\[\{](.+?),?[\)\]\}]", a_)
                if m and t_ is False and (m.group(1), "True") in stores:
                    good = True
                elif meq and t_ is False and (meq.group(1), meq.group(2)) in stores:
                    good = True
                elif min_ and t_ is False and any((min_.group(1), x.strip()) in stores for x in min_.group(2).split(",")):
                    good = True
            if not good:
                ok = False
        ctx.check(ok, RI, "Inotify.close", "release actions run without the closed test-and-set: a second close() writes to / closes descriptors again", f2.loc)
    ctx.assumptions += [
        "waker table: queue.get <- put on the same queue; poll <- write to the kill pipe; Condition.wait <- notify on the same condition; Event.wait <- Event.set",
        "timed waits and bounded sleeps need no waker",
        "user handler code is out of scope",
    ]


API = "observers/api.py"
UT = "utils/__init__.py"
IN = "observers/inotify.py"
IB = "observers/inotify_buffer.py"
IC = "observers/inotify_c.py"
DQ = "utils/delayed_queue.py"
DB = "utils/event_debouncer.py"
VARIANTS = [
    dict(name="B RLock -> Lock", expect="fire", rule="C06/", edits=[(API, "        self._lock = threading.RLock()\n        self._watches", "        self._lock = threading.Lock()\n        self._watches")]),
    dict(name="B drop the sentinel put", expect="fire", rule="C06/every-block-has-a-waker", edits=[(API, "        BaseThread.stop(self)\n        with contextlib.suppress(queue.Full):\n            self.event_queue.put_nowait(EventDispatcher.stop_event)", "        BaseThread.stop(self)")]),
    dict(name="B sentinel before the flag", expect="fire", rule="C06/every-block-has-a-waker", edits=[(API, "        BaseThread.stop(self)\n        with contextlib.suppress(queue.Full):\n            self.event_queue.put_nowait(EventDispatcher.stop_event)", "        with contextlib.suppress(queue.Full):\n            self.event_queue.put_nowait(EventDispatcher.stop_event)\n        BaseThread.stop(self)")]),
    dict(name="B hook before the flag in BaseThread.stop", expect="fire", rule="C06/every-block-has-a-waker", edits=[(UT, "        self._stopped_event.set()\n        self.on_thread_stop()", "        self.on_thread_stop()\n        self._stopped_event.set()")]),
    dict(name="B buffer stop hook forgets the queue", expect="fire", rule="C06/every-block-has-a-waker", edits=[(IB, "        self._inotify.close()\n        self._queue.close()", "        self._inotify.close()")]),
    dict(name="B kill pipe not registered with the poller", expect="fire", rule="C06/every-block-has-a-waker", edits=[(IC, "            self._poller.register(self._kill_r, select.POLLIN)\n", "")]),
    dict(name="B select variant ignores the kill pipe", expect="fire", rule="C06/every-block-has-a-waker", edits=[(IC, "select.select([self._inotify_fd, self._kill_r], [], [])", "select.select([self._inotify_fd], [], [])")]),
    dict(name="B select variant reports the wrong descriptor", expect="fire", rule="C06/every-block-has-a-waker", edits=[(IC, "return self._inotify_fd in result[0]", "return self._inotify_fd not in result[0]")]),
    dict(name="B close() raises when the root watch is already gone", expect="fire", rule="C06/stop-never-raises", edits=[(IC, "                    inotify_rm_watch(self._inotify_fd, wd)\n\n                if self._is_reading:", "                    if inotify_rm_watch(self._inotify_fd, wd) == -1:\n                        Inotify._raise_error()\n\n                if self._is_reading:")]),
    dict(name="B kill-pipe write dropped", expect="fire", rule="C06/every-block-has-a-waker", edits=[(IC, "                    os.write(self._kill_w, b\"!\")", "                    pass")]),
    dict(name="B stop hook takes the emitter lock", expect="fire", rule="C06/", edits=[(IN, "    def on_thread_stop(self) -> None:\n        if self._inotify:\n            self._inotify.close()\n            self._inotify = None", "    def on_thread_stop(self) -> None:\n        with self._lock:\n            if self._inotify:\n                self._inotify.close()\n                self._inotify = None")]),
    dict(name="B DelayedQueue.close without notify", expect="fire", rule="C06/", edits=[(DQ, "        self._not_empty.acquire()\n        self._not_empty.notify()\n        self._not_empty.release()\n\n    def get", "\n    def get")]),
    dict(name="B debouncer waits without predicate (pre-fix)", expect="fire", rule="C06/monitor-discipline", edits=[(DB, "                while not self._events and self.should_keep_running():\n                    self._cond.wait()", "                self._cond.wait()")]),
    dict(name="B debouncer stop without notify", expect="fire", rule="C06/", edits=[(DB, "            super().stop()\n            self._cond.notify()", "            super().stop()")]),
    dict(name="B dispatcher joined under the observer lock by unschedule_all", expect="fire", rule="C06/", edits=[(API, "            self._clear_emitters()\n            self._watches.clear()", "            self._clear_emitters()\n            self._watches.clear()\n            self.join()")]),
    dict(name="B emitter close not cleared (double close)", expect="fire", rule="C06/stop-idempotent", edits=[(IN, "            self._inotify.close()\n            self._inotify = None", "            self._inotify.close()")]),
    dict(name="B buffer joined before it is stopped", expect="fire", rule="C06/join-after-stop", edits=[(IB, "        self.stop()\n        self.join()", "        self.join()\n        self.stop()")]),
    dict(name="B bounded event queue", expect="fire", rule="C06/producers-never-block", edits=[(API, "        self._event_queue = EventQueue()", "        self._event_queue = EventQueue(maxsize=4096)")]),
    dict(name="E explicitly unbounded event queue", expect="silent", edits=[(API, "        self._event_queue = EventQueue()", "        self._event_queue = EventQueue(maxsize=0)")]),
    dict(name="E notify -> notify_all", expect="silent", edits=[(DQ, "        self._not_empty.acquire()\n        self._not_empty.notify()\n        self._not_empty.release()", "        self._not_empty.acquire()\n        self._not_empty.notify_all()\n        self._not_empty.release()")]),
    dict(name="E put instead of put_nowait for the sentinel", expect="silent", edits=[(API, "self.event_queue.put_nowait(EventDispatcher.stop_event)", "self.event_queue.put(EventDispatcher.stop_event, False)")]),
]


def thorough(ctx):
    import json
    import os

    from ..mypy_xcheck import xcheck
    from ..report import EVIDENCE_DIR
    from ..selftest import thorough as st

    rc = st(ctx, VARIANTS)
    paths = getattr(ctx, "_all_paths", [])
    res = xcheck(ctx.P, paths)
    path = os.path.join(EVIDENCE_DIR, f"{ctx.prop_id}.json")
    ev = json.load(open(path))
    ev["coverage"]["mypy_call_edge_cross_check"] = res
    json.dump(ev, open(path, "w"), indent=1, default=str)
    if not res.get("available"):
        print(f"C06 mypy cross-check skipped: {res.get('why')}")
        return rc
    print(f"C06 mypy cross-check: {res['inlined_call_sites']} inlined call sites, {res['checked_against_mypy']} typed by mypy, {res['agreed']} agree, {len(res['disagreements'])} disagree")
    if res["disagreements"]:
        for d in res["disagreements"]:
            print(f"ANALYSIS-ERROR property=C06: call resolution disagrees with mypy at {d['site']} ({d['call']}): analyser {d['analyser']}, mypy {d['mypy']}")
        return 2
    return rc
