"""C04 — queued events reach each registered handler exactly once, in order, nobody else.

Decided: the mechanisms the property text names (each can be removed without any existing test failing):
guarded-by discipline of the registry, the shape of the dispatch site, and that an event travels with its watch.
"""

from __future__ import annotations

import ast
import re

from ..model import AnalysisError, dotted, norm_stmt
from ..pse import Enumerator, walk_with_locks
from ..threads import ThreadCfg, guarded_by, lock_assignments, lock_kind

LEVEL_TEXT = (
    "Static analysis. Lock-set analysis over every enumerated path of every public entry point of BaseObserver and its "
    "subclasses (helpers inlined per calling context) for the four registry collections; path/def-use rules at the "
    "dispatch site (snapshot keyed by the dequeued watch, live membership re-check, under the lock, one dispatch per "
    "iteration, sentinel first); whole-package scan of event-queue producers. Exactly-once over all schedules follows only "
    "together with the trusted semantics of RLock and queue.Queue."
)

FIELDS = ("_handlers", "_emitters", "_emitter_for_watch", "_watches")
SNAPSHOT_FUNCS = ("set", "list", "tuple", "frozenset", "sorted")


def observer_entries(P, cls: str) -> list[str]:
    out = []
    for c in P.mro(cls):
        ci = P.classes.get(c)
        if not ci:
            continue
        for m in ci.methods:
            if (not m.startswith("_") or m == "__init__") and m not in out:
                out.append(m)
    return out


def run(ctx) -> None:
    P = ctx.P
    RG = ctx.rule(
        "C04/guarded-by",
        "every read or write of _handlers/_emitters/_emitter_for_watch/_watches happens with BaseObserver._lock held, in every "
        "calling context from a public entry point (tabled exceptions: __init__, start, the emitters property)",
        floor=20,
    )
    RD = ctx.rule(
        "C04/dispatch-shape",
        "dispatch iterates a snapshot of the handler collection keyed by the dequeued watch; each dispatch is dominated by a "
        "membership test against a fresh read of the live registry; under the lock; exactly one dispatch per iteration; the stop "
        "sentinel is tested before unpacking",
        floor=5,
    )
    RW = ctx.rule(
        "C04/event-travels-with-watch",
        "every put on an observer event queue enqueues the stop sentinel or an (event, emitter's own watch) pair; the dispatch "
        "site looks handlers up under the second component of what it dequeued",
        floor=2,
    )
    RL = ctx.rule("C04/one-lock-object", "the observer lock is created once (in __init__) and never rebound", floor=1)
    RU = ctx.rule("C04/detached-handlers-are-unregistered", "unschedule_all() — documented to detach all handlers — empties the handler registry wholesale on every normal path: a handler it leaves behind is called for the events of an equal watch scheduled later, a watch it is no longer registered for (instance shared with C05)", floor=1)
    from ..threads import ThreadCfg as _TC
    from .c05 import registry_emptied

    registry_emptied(ctx, RU, P, _TC(P, no_inline={"join", "is_alive", "dispatch", "queue_events", "BaseThread.start"}, follow_attrs=False))

    TABLED = {
        "__init__": "object not yet shared with another thread",
        "start": "runs before the dispatcher thread exists (the property quantifies over a running observer and lists the calls it covers)",
        "emitters": "hands out the live set for inspection; not on the dispatch or mutation path",
    }
    for k, v in TABLED.items():
        ctx.tabled(f"C04/guarded-by entry={k}", v)

    observers = P.subclasses("BaseObserver")
    ctx.count("observer_classes", len(observers))
    total_paths = 0
    for cls in observers:
        cfg = ThreadCfg(
            P,
            no_inline={"join", "is_alive", "dispatch", "queue_events", "EventEmitter.start", "EventEmitter.stop", "BaseThread.start"},
            follow_attrs=False,
            raising={r"(emitter|\$elem\(.*\))\.start": "Exception", r"self\._emitter_class": "Exception"},
        )
        entries = observer_entries(P, cls)
        res, npaths = guarded_by(P, cls, FIELDS, "self._lock", entries, cfg)
        total_paths += npaths
        for r in res:
            construct = f"class={cls} entry={r['entry']} in={r['fn']} field={r['field']} :: {r['stmt']}"
            loc = f"{P.classes[r['fn'].split('.')[0]].module.relpath}:{r['line']}" if r["fn"].split(".")[0] in P.classes else ""
            if r["entry"] in TABLED:
                ctx.ok(RG, construct, loc, {"tabled": TABLED[r["entry"]]}, nontrivial=False)
                continue
            ctx.check(
                r["held"],
                RG,
                construct,
                f"registry field self.{r['field']} accessed without the observer lock on a path from public entry {r['entry']}",
                loc,
            )
        # private helpers without any call site have no calling context
        for c in P.mro(cls):
            ci = P.classes.get(c)
            if not ci or cls != "BaseObserver":
                continue
            for m, fi in ci.methods.items():
                if m.startswith("_") and not m.startswith("__"):
                    called = any(
                        isinstance(n, ast.Attribute) and n.attr == m
                        for mod in P.modules.values()
                        for n in ast.walk(mod.tree)
                        if isinstance(n, ast.Attribute) and isinstance(n.ctx, ast.Load)
                    )
                    if not called:
                        ctx.note(f"{c}.{m} has no call site: no calling context, not an instance")
    ctx.count("paths", total_paths)

    # lock identity
    assigns = lock_assignments(P, "BaseObserver", "_lock")
    ctx.check(assigns == ["BaseObserver.__init__"], RL, "BaseObserver._lock", f"observer lock (re)bound in {assigns}", P.cls("BaseObserver").loc)

    from ..dispatch import dispatch_shape

    dispatch_shape(ctx, RD, RW, RD)
    # the queue coalesces by `==`: two events that differ in any field must not compare equal (the C16 rule, shared)
    REQ = ctx.rule("C04/distinct-events-compare-unequal", "events are equal iff same class and same field values (generated dataclass equality over every field; instances shared with C16): otherwise the event queue coalesces two different events and one is never delivered", floor=12)
    ctx.borrow("c16", "C16/event-equality", REQ)

    # ---------------------------------------------------------------- producers
    nprod = 0
    for m in P.modules.values():
        for cname, ci in m.classes.items():
            for fname, fi in ci.methods.items():
                for n in ast.walk(fi.node):
                    if not (isinstance(n, ast.Call) and isinstance(n.func, ast.Attribute) and n.func.attr in ("put", "put_nowait")):
                        continue
                    recv = dotted(n.func.value) or ""
                    if not recv.endswith("event_queue"):
                        continue
                    nprod += 1
                    arg = n.args[0] if n.args else None
                    loc = f"{m.relpath}:{n.lineno}"
                    construct = f"{cname}.{fname}: {norm_stmt(n)}"
                    if isinstance(arg, ast.Tuple) and len(arg.elts) == 2:
                        w = dotted(arg.elts[1]) or ""
                        ctx.check(
                            w in ("self.watch", "self._watch"),
                            RW,
                            construct,
                            f"event enqueued with `{ast.unparse(arg.elts[1])}` instead of the emitter's own watch",
                            loc,
                        )
                    else:
                        t = ast.unparse(arg) if arg is not None else ""
                        ctx.check("stop_event" in t, RW, construct, f"`{t}` enqueued on the observer event queue: neither the stop sentinel nor an (event, watch) pair", loc)
    ctx.count("producer_sites", nprod)
    # "an event identical to the immediately preceding still-undelivered one may be coalesced into it" — and nothing else may be
    # dropped by the queue (instance shared with C16)
    RQ = ctx.rule("C04/queue-drops-only-pending-duplicates", "the event queue skips an item only if it equals the last enqueued, still pending item (shared with C16)", floor=2)
    from .c16 import queue_bookkeeping, skip_decision

    queue_bookkeeping(ctx, RQ, RQ, RQ)
    skip_decision(ctx, RQ)
    # queue entries are (event, watch) pairs compared with ==: "equals the pending item" is only "same event for the same watch"
    # if watch equality is the full identity (path, recursive flag, filter) -- shared instances with C13
    RE = ctx.rule("C04/entry-equality-includes-the-watch", "ObservedWatch ==, != and hash are functions of the one key (path, recursive flag, filter): an event for one watch is never coalesced into an equal event of another watch on the same path", floor=4)
    from .c13 import watch_identity

    watch_identity(ctx, RE, P)
    ctx.assumptions += ["threading.RLock provides mutual exclusion and re-entrancy", "queue.Queue is FIFO and hands each item to exactly one get()"]


# ------------------------------------------------------------------------------------------------ self-validation
API = "observers/api.py"
_DISPATCH = """        with self._lock:
            # To allow unschedule/stop and safe removal of event handlers
            # within event handlers itself, check if the handler is still
            # registered after every dispatch.
            for handler in self._handlers[watch].copy():
                if handler in self._handlers[watch]:
                    handler.dispatch(event)
"""
VARIANTS = [
    dict(name="B watch equality ignores the filter", expect="fire", rule="C04/entry-equality-includes-the-watch", edits=[(API, "        return self.key == watch.key\n", "        return (self._path, self._is_recursive) == (watch._path, watch._is_recursive)\n")]),
    dict(name="B drop lock at dispatch", expect="fire", rule="C04/", edits=[(API, _DISPATCH, """        if True:
            for handler in self._handlers[watch].copy():
                if handler in self._handlers[watch]:
                    handler.dispatch(event)
""")]),
    dict(name="B drop copy()", expect="fire", rule="C04/dispatch-shape", edits=[(API, "for handler in self._handlers[watch].copy():", "for handler in self._handlers[watch]:")]),
    dict(name="B drop membership re-check", expect="fire", rule="C04/dispatch-shape", edits=[(API, "                if handler in self._handlers[watch]:\n                    handler.dispatch(event)", "                handler.dispatch(event)")]),
    dict(name="B re-check against the snapshot", expect="fire", rule="C04/dispatch-shape", edits=[(API, _DISPATCH, """        with self._lock:
            handlers = self._handlers[watch].copy()
            for handler in handlers:
                if handler in handlers:
                    handler.dispatch(event)
""")]),
    dict(name="B iterate all handler sets", expect="fire", rule="C04/", edits=[(API, "for handler in self._handlers[watch].copy():\n                if handler in self._handlers[watch]:", "for handler in [h for hs in self._handlers.values() for h in hs]:\n                if handler in self._handlers[watch]:")]),
    dict(name="B enqueue without own watch", expect="fire", rule="C04/event-travels-with-watch", edits=[(API, "self._event_queue.put((event, self.watch))", "self._event_queue.put((event, None))")]),
    dict(name="B unlocked add_handler", expect="fire", rule="C04/guarded-by", edits=[(API, "        with self._lock:\n            self._add_handler_for_watch(event_handler, watch)\n\n    def remove_handler_for_watch", "        if True:\n            self._add_handler_for_watch(event_handler, watch)\n\n    def remove_handler_for_watch")]),
    dict(name="B dispatch twice", expect="fire", rule="C04/dispatch-shape", edits=[(API, "                    handler.dispatch(event)\n        event_queue.task_done()", "                    handler.dispatch(event)\n                    handler.dispatch(event)\n        event_queue.task_done()")]),
    dict(name="B lock rebound in start", expect="fire", rule="C04/one-lock-object", edits=[(API, "        super().start()\n\n    def schedule", "        self._lock = threading.RLock()\n        super().start()\n\n    def schedule")]),
    dict(name="E copy() -> list()", expect="silent", edits=[(API, "for handler in self._handlers[watch].copy():", "for handler in list(self._handlers[watch]):")]),
    dict(name="E copy() -> tuple()", expect="silent", edits=[(API, "for handler in self._handlers[watch].copy():", "for handler in tuple(self._handlers[watch]):")]),
    dict(name="E with -> acquire/try/finally", expect="silent", edits=[(API, _DISPATCH, """        self._lock.acquire()
        try:
            for handler in self._handlers[watch].copy():
                if handler in self._handlers[watch]:
                    handler.dispatch(event)
        finally:
            self._lock.release()
""")]),
    dict(name="E rename loop variable", expect="silent", edits=[(API, "            for handler in self._handlers[watch].copy():\n                if handler in self._handlers[watch]:\n                    handler.dispatch(event)", "            for h in self._handlers[watch].copy():\n                if h in self._handlers[watch]:\n                    h.dispatch(event)")]),
    dict(name="E inverted guard with continue", expect="silent", edits=[(API, "                if handler in self._handlers[watch]:\n                    handler.dispatch(event)", "                if handler not in self._handlers[watch]:\n                    continue\n                handler.dispatch(event)")]),
]


def thorough(ctx):
    from ..selftest import thorough as st

    return st(ctx, VARIANTS)
