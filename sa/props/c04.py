"""C04 — queued events reach each registered handler exactly once, in order, nobody else.

Decided: the mechanisms the property text names (each can be removed without any existing test failing):
guarded-by discipline of the registry, the shape of the dispatch site, and that an event travels with its watch.
"""

from __future__ import annotations

import ast
import re

from ..model import AnalysisError, dotted, norm_stmt
from ..pse import Enumerator, walk_with_locks
from ..threads import ThreadCfg, guarded_by, lock_assignments, lock_kind

LEVEL_TEXT = (
    "Static analysis. Lock-set analysis over every enumerated path of every public entry point of BaseObserver and its "
    "subclasses (helpers inlined per calling context) for the four registry collections; path/def-use rules at the "
    "dispatch site (snapshot keyed by the dequeued watch, live membership re-check, under the lock, one dispatch per "
    "iteration, sentinel first); whole-package scan of event-queue producers. Exactly-once over all schedules follows only "
    "together with the trusted semantics of RLock and queue.Queue."
)

FIELDS = ("_handlers", "_emitters", "_emitter_for_watch", "_watches")
SNAPSHOT_FUNCS = ("set", "list", "tuple", "frozenset", "sorted")


def observer_entries(P, cls: str) -> list[str]:
    out = []
    for c in P.mro(cls):
        ci = P.classes.get(c)
        if not ci:
            continue
        for m in ci.methods:
            if (not m.startswith("_") or m == "__init__") and m not in out:
                out.append(m)
    return out


def run(ctx) -> None:
    P = ctx.P
    RG = ctx.rule(
        "C04/guarded-by",
        "every read or write of _handlers/_emitters/_emitter_for_watch/_watches happens with BaseObserver._lock held, in every "
        "calling context from a public entry point (tabled exceptions: __init__, start, the emitters property)",
        floor=20,
    )
    RD = ctx.rule(
        "C04/dispatch-shape",
        "dispatch iterates a snapshot of the handler collection keyed by the dequeued watch; each dispatch is dominated by a "
        "membership test against a fresh read of the live registry; under the lock; exactly one dispatch per iteration; the stop "
        "sentinel is tested before unpacking",
        floor=5,
    )
    RW = ctx.rule(
        "C04/event-travels-with-watch",
        "every put on an observer event queue enqueues the stop sentinel or an (event, emitter's own watch) pair; the dispatch "
        "site looks handlers up under the second component of what it dequeued",
        floor=2,
    )
    RL = ctx.rule("C04/one-lock-object", "the observer lock is created once (in __init__) and never rebound", floor=1)
    RU = ctx.rule("C04/detached-handlers-are-unregistered", "unschedule_all() — documented to detach all handlers — empties the handler registry wholesale on every normal path: a handler it leaves behind is called for the events of an equal watch scheduled later, a watch it is no longer registered for (instance shared with C05)", floor=1)
    from ..threads import ThreadCfg as _TC
    from .c05 import registry_emptied

    registry_emptied(ctx, RU, P, _TC(P, no_inline={"join", "is_alive", "dispatch", "queue_events", "BaseThread.start"}, follow_attrs=False))

    TABLED = {
        "__init__": "object not yet shared with another thread",
        "start": "runs before the dispatcher thread exists (the property quantifies over a running observer and lists the calls it covers)",
        "emitters": "hands out the live set for inspection; not on the dispatch or mutation path",
    }
    for k, v in TABLED.items():
        ctx.tabled(f"C04/guarded-by entry={k}", v)

    observers = P.subclasses("BaseObserver")
    ctx.count("observer_classes", len(observers))
    total_paths = 0
    for cls in observers:
        cfg = ThreadCfg(
            P,
            no_inline={"join", "is_alive", "dispatch", "queue_events", "EventEmitter.start", "EventEmitter.stop", "BaseThread.start"},
            follow_attrs=False,
            raising={r"(emitter|\$elem\(.*\))\.start": "Exception", r"self\._emitter_class": "Exception"},
        )
        entries = observer_entries(P, cls)
        res, npaths = guarded_by(P, cls, FIELDS, "self._lock", entries, cfg)
        total_paths += npaths
        for r in res:
            construct = f"class={cls} entry={r['entry']} in={r['fn']} field={r['field']} :: {r['stmt']}"
            loc = f"{P.classes[r['fn'].split('.')[0]].module.relpath}:{r['line']}" if r["fn"].split(".")[0] in P.classes else ""
            if r["entry"] in TABLED:
                ctx.ok(RG, construct, loc, {"tabled": TABLED[r["entry"]]}, nontrivial=False)
                continue
            ctx.check(
                r["held"],
                RG,
                construct,
                f"registry field self.{r['field']} accessed without the observer lock on a path from public entry {r['entry']}",
                loc,
            )
        # private helpers without any call site have no calling context
        for c in P.mro(cls):
            ci = P.classes.get(c)
            if not ci or cls != "BaseObserver":
                continue
            for m, fi in ci.methods.items():
                if m.startswith("_") and not m.startswith("__"):
                    called = any(
                        isinstance(n, ast.Attribute) and n.attr == m
                        for mod in P.modules.values()
                        for n in ast.walk(mod.tree)
                        if isinstance(n, ast.Attribute) and isinstance(n.ctx, ast.Load)
                    )
                    if not called:
                        ctx.note(f"{c}.{m} has no call site: no calling context, not an instance")
    ctx.count("paths", total_paths)

    # lock identity
    assigns = lock_assignments(P, "BaseObserver", "_lock")
    ctx.check(assigns == ["BaseObserver.__init__"], RL, "BaseObserver._lock", f"observer lock (re)bound in {assigns}", P.cls("BaseObserver").loc)

    from ..dispatch import dispatch_shape

    dispatch_shape(ctx, RD, RW, RD)
    # the queue coalesces by `==`: two events that differ in any field must not compare equal (the C16 rule, shared)
    REQ = ctx.rule("C04/distinct-events-compare-unequal", "events are equal iff same class and same field values (generated dataclass equality over every field; instances shared with C16): otherwise the event queue coalesces two different events and one is never delivered", floor=12)
    ctx.borrow("c16", "C16/event-equality", REQ)

    # ---------------------------------------------------------------- producers
    nprod = 0
    for m in P.modules.values():
        for cname, ci in m.classes.items():
            for fname, fi in ci.methods.items():
                for n in ast.walk(fi.node):
                    if not (isinstance(n, ast.Call) and isinstance(n.func, ast.Attribute) and n.func.attr in ("put", "put_nowait")):
                        continue
                    recv = dotted(n.func.value) or ""
                    if not recv.endswith("event_queue"):
                        continue
                    nprod += 1
                    arg = n.args[0] if n.args else None
                    loc = f"{m.relpath}:{n.lineno}"
                    construct = f"{cname}.{fname}: {norm_stmt(n)}"
                    if isinstance(arg, ast.Tuple) and len(arg.elts) == 2:
                        w = dotted(arg.elts[1]) or ""
                        ctx.check(
                            w in ("self.watch", "self._watch"),
                            RW,
                            construct,
                            f"event enqueued with `{ast.unparse(arg.elts[1])}` instead of the emitter's own watch",
                            loc,
                        )
                    else:
                        t = ast.unparse(arg) if arg is not None else ""
                        ctx.check("stop_event" in t, RW, construct, f"`{t}` enqueued on the observer event queue: neither the stop sentinel nor an (event, watch) pair", loc)
    ctx.count("producer_sites", nprod)
    # "an event identical to the immediately preceding still-undelivered one may be coalesced into it" — and nothing else may be
    # dropped by the queue (instance shared with C16)
    RQ = ctx.rule("C04/queue-drops-only-pending-duplicates", "the event queue skips an item only if it equals the last enqueued, still pending item (shared with C16)", floor=2)
    from .c16 import queue_bookkeeping, skip_decision

    queue_bookkeeping(ctx, RQ, RQ, RQ)
    skip_decision(ctx, RQ)
    # queue entries are (event, watch) pairs compared with ==: "equals the pending item" is only "same event for the same watch"
    # if watch equality is the full identity (path, recursive flag, filter) -- shared instances with C13
    RE = ctx.rule("C04/entry-equality-includes-the-watch", "ObservedWatch ==, != and hash are functions of the one key (path, recursive flag, filter): an event for one watch is never coalesced into an equal event of another watch on the same path", floor=4)
    from .c13 import watch_identity

    watch_identity(ctx, RE, P)
    ROQ = ctx.rule("C04/each-observer-has-its-own-queue", "the queue a dispatcher consumes is created per instance: the value stored in its queue field is a constructor call made in `__init__`'s body, or a parameter without a shared default (a default such as `event_queue=EventQueue()` is evaluated once, at definition time: all observers of the process would then consume one queue, and an observer's events reach another observer's handlers)", floor=1)
    own_queue_per_dispatcher(ctx, ROQ, P)
    RH1 = ctx.rule("C04/registry-holds-a-handler-once", "the per-watch handler collection cannot hold one handler twice: it is a set, or every insertion into it is made under a failed membership test of that handler in it (dispatch walks the collection and calls each element: a handler held twice -- schedule() called twice for an equal watch -- is passed every event twice, and one remove leaves it registered)", floor=1)
    registry_holds_a_handler_once(ctx, RH1, P)
    ctx.assumptions += ["threading.RLock provides mutual exclusion and re-entrancy", "queue.Queue is FIFO and hands each item to exactly one get()"]


def own_queue_per_dispatcher(ctx, RULE, P) -> None:
    ini = P.find_method("EventDispatcher", "__init__")
    if ini is None:
        raise AnalysisError("anchor vanished: EventDispatcher.__init__")
    a = ini.node.args
    pos = a.posonlyargs + a.args
    defaults = dict(zip([x.arg for x in pos[len(pos) - len(a.defaults) :]], a.defaults))
    defaults.update({x.arg: d for x, d in zip(a.kwonlyargs, a.kw_defaults) if d is not None})
    stores = [n for n in ast.walk(ini.node) if isinstance(n, (ast.Assign, ast.AnnAssign)) and any(isinstance(t, ast.Attribute) and t.attr in ("_event_queue", "event_queue") and isinstance(t.value, ast.Name) and t.value.id == "self" for t in (n.targets if isinstance(n, ast.Assign) else [n.target]))]
    if not stores:
        raise AnalysisError("EventDispatcher.__init__ does not store the event queue")
    from ..flow import origins

    for st in stores:
        if st.value is None:
            continue
        for base, wr in sorted(origins(ini.node, st.value)):
            shared = None
            if base.startswith("param:"):
                d = defaults.get(base[6:])
                if d is not None and not (isinstance(d, ast.Constant) and d.value is None):
                    shared = f"the default of parameter `{base[6:]}`, `{ast.unparse(d)[:40]}`, which is evaluated once when the function is defined"
            elif base.startswith("expr:") or wr:
                pass  # built here (a call in the body, possibly wrapped): fresh per instance
            elif not base.startswith("self."):
                cm = ini.module.consts.get(base.split(".")[0])
                if cm is not None and isinstance(cm, ast.Call):
                    shared = f"the module-level object `{base}`"
            ctx.check(
                shared is None,
                RULE,
                f"EventDispatcher.__init__: the queue field is `{ast.unparse(st.value)[:50]}`",
                f"the queue every instance consumes is {shared}: all observers in the process put on and consume one queue, so an event queued by one observer's emitter is dispatched by another observer to *its* handlers for an equal watch (or dropped), and never reaches the handlers registered for it",
                f"{ini.module.relpath}:{st.lineno}",
            )


def registry_holds_a_handler_once(ctx, RULE, P, field: str = "_handlers") -> None:
    ci = P.cls("BaseObserver")
    kinds: dict[str, int] = {}

    def is_field(n) -> bool:
        return isinstance(n, ast.Attribute) and n.attr == field and isinstance(n.value, ast.Name) and n.value.id == "self"

    def is_slot(n) -> bool:  # self._handlers[<w>]  /  self._handlers.setdefault(<w>, ..)  /  self._handlers.get(<w>, ..)
        return (isinstance(n, ast.Subscript) and is_field(n.value)) or (isinstance(n, ast.Call) and isinstance(n.func, ast.Attribute) and n.func.attr in ("setdefault", "get") and is_field(n.func.value))

    def ctor_kind(e) -> str | None:
        if isinstance(e, ast.Call) and isinstance(e.func, ast.Name) and not e.args and not e.keywords:
            return e.func.id
        if isinstance(e, ast.Name):
            return e.id
        if isinstance(e, (ast.List, ast.ListComp)):
            return "list"
        if isinstance(e, (ast.Set, ast.SetComp)):
            return "set"
        return None

    fns: dict = {}
    for c in P.mro("BaseObserver"):
        for m, fi in (P.classes[c].methods.items() if c in P.classes else ()):
            fns.setdefault(m, fi)
    for m, fi in fns.items():
        for n in ast.walk(fi.node):
            # the registry itself: defaultdict(K)
            tgt = n.targets[0] if isinstance(n, ast.Assign) and len(n.targets) == 1 else (n.target if isinstance(n, ast.AnnAssign) else None)
            val = getattr(n, "value", None)
            if tgt is not None and is_field(tgt) and isinstance(val, ast.Call) and (dotted(val.func) or "").split(".")[-1] == "defaultdict" and val.args:
                kinds[ctor_kind(val.args[0]) or ast.unparse(val.args[0])] = n.lineno
            # a slot given its collection: self._handlers[w] = K() / setdefault(w, K())
            if tgt is not None and isinstance(tgt, ast.Subscript) and is_field(tgt.value) and val is not None:
                kinds[ctor_kind(val) or ast.unparse(val)[:30]] = n.lineno
            if isinstance(n, ast.Call) and isinstance(n.func, ast.Attribute) and n.func.attr == "setdefault" and is_field(n.func.value) and len(n.args) == 2:
                kinds[ctor_kind(n.args[1]) or ast.unparse(n.args[1])[:30]] = n.lineno
    if not kinds:
        raise AnalysisError(f"BaseObserver.{field}: the kind of the per-watch handler collection was not found (defaultdict(K), slot = K(), setdefault(w, K()))")
    loc = ci.loc
    if set(kinds) <= {"set"}:
        ctx.ok(RULE, f"BaseObserver.{field}: the per-watch collection is a set", loc)
        return
    # a sequence: every insertion must be made under `h not in <the slot>`
    INSERT = ("append", "insert", "extend", "appendleft")
    sites = []
    for m, fi in fns.items():
        parents = {}
        for a in ast.walk(fi.node):
            for b in ast.iter_child_nodes(a):
                parents[b] = a
        for n in ast.walk(fi.node):
            ins = None
            if isinstance(n, ast.Call) and isinstance(n.func, ast.Attribute) and n.func.attr in INSERT and is_slot(n.func.value) and n.args:
                ins = n.args[-1]
            elif isinstance(n, ast.AugAssign) and is_slot(n.target):
                ins = n.value
            if ins is None:
                continue

            def guarded(node, what: str, fn_parents) -> bool:
                x = node
                while x in fn_parents:
                    par = fn_parents[x]
                    if isinstance(par, ast.If) and x in par.body:
                        for c in ast.walk(par.test):
                            if isinstance(c, ast.Compare) and len(c.ops) == 1 and isinstance(c.ops[0], ast.NotIn) and ast.unparse(c.left) == what and is_slot(c.comparators[0]):
                                return True
                    x = par
                return False

            what = ast.unparse(ins)
            ok = guarded(n, what, parents)
            if not ok and isinstance(ins, ast.Name) and ins.id in [a.arg for a in fi.node.args.args]:
                # a helper: every call of it in the class is made under the guard, for the argument it passes
                idx = [a.arg for a in fi.node.args.args].index(ins.id) - 1
                calls = []
                for m2, f2 in fns.items():
                    par2 = {}
                    for a in ast.walk(f2.node):
                        for b in ast.iter_child_nodes(a):
                            par2[b] = a
                    for c in ast.walk(f2.node):
                        if isinstance(c, ast.Call) and isinstance(c.func, ast.Attribute) and c.func.attr == m and isinstance(c.func.value, ast.Name) and c.func.value.id == "self" and 0 <= idx < len(c.args):
                            calls.append((f2, guarded(c, ast.unparse(c.args[idx]), par2), c.lineno))
                ok = bool(calls) and all(g for _f, g, _l in calls)
                unguarded = [f"{f_.qualname}:{l_}" for f_, g, l_ in calls if not g]
            else:
                unguarded = []
            sites.append(n)
            ctx.check(
                ok,
                RULE,
                f"{fi.qualname}: `{ast.unparse(n)[:60]}`",
                f"the per-watch handler collection is a {sorted(kinds)} and this insertion is not made under `{what} not in <that collection>`{' on the way from ' + ', '.join(unguarded) if unguarded else ''}: a handler scheduled twice for equal watches is held twice, so every event is passed to it twice (and one remove_handler_for_watch leaves it registered)",
                f"{fi.module.relpath}:{n.lineno}",
            )
    if not sites:
        raise AnalysisError(f"BaseObserver.{field}: a {sorted(kinds)} per watch, but no insertion into it was found")


# ------------------------------------------------------------------------------------------------ self-validation
API = "observers/api.py"
_DISPATCH = """        with self._lock:
            # To allow unschedule/stop and safe removal of event handlers
            # within event handlers itself, check if the handler is still
            # registered after every dispatch.
            for handler in self._handlers[watch].copy():
                if handler in self._handlers[watch]:
                    handler.dispatch(event)
"""
VARIANTS = [
    dict(name="E registry of lists, every insertion under a membership test", expect="silent", edits=[(API, "defaultdict[ObservedWatch, set[FileSystemEventHandler]] = defaultdict(set)", "defaultdict[ObservedWatch, list[FileSystemEventHandler]] = defaultdict(list)"), (API, "            self._handlers[watch].remove(event_handler)\n", "            try:\n                self._handlers[watch].remove(event_handler)\n            except ValueError:\n                raise KeyError(event_handler) from None\n"), (API, "        self._handlers[watch].add(event_handler)\n", "        if event_handler not in self._handlers[watch]:\n            self._handlers[watch].append(event_handler)\n")]),
    dict(name="B registry of lists, only the public adder de-duplicates", expect="fire", rule="C04/registry-holds-a-handler-once", edits=[(API, "defaultdict[ObservedWatch, set[FileSystemEventHandler]] = defaultdict(set)", "defaultdict[ObservedWatch, list[FileSystemEventHandler]] = defaultdict(list)"), (API, "            self._handlers[watch].remove(event_handler)\n", "            try:\n                self._handlers[watch].remove(event_handler)\n            except ValueError:\n                raise KeyError(event_handler) from None\n"), (API, "        self._handlers[watch].add(event_handler)\n", "        self._handlers[watch].append(event_handler)\n"), (API, "        with self._lock:\n            self._add_handler_for_watch(event_handler, watch)\n", "        with self._lock:\n            if event_handler not in self._handlers[watch]:\n                self._add_handler_for_watch(event_handler, watch)\n")]),
    dict(name="B watch equality ignores the filter", expect="fire", rule="C04/entry-equality-includes-the-watch", edits=[(API, "        return self.key == watch.key\n", "        return (self._path, self._is_recursive) == (watch._path, watch._is_recursive)\n")]),
    dict(name="B drop lock at dispatch", expect="fire", rule="C04/", edits=[(API, _DISPATCH, """        if True:
            for handler in self._handlers[watch].copy():
                if handler in self._handlers[watch]:
                    handler.dispatch(event)
""")]),
    dict(name="B drop copy()", expect="fire", rule="C04/dispatch-shape", edits=[(API, "for handler in self._handlers[watch].copy():", "for handler in self._handlers[watch]:")]),
    dict(name="B drop membership re-check", expect="fire", rule="C04/dispatch-shape", edits=[(API, "                if handler in self._handlers[watch]:\n                    handler.dispatch(event)", "                handler.dispatch(event)")]),
    dict(name="B re-check against the snapshot", expect="fire", rule="C04/dispatch-shape", edits=[(API, _DISPATCH, """        with self._lock:
            handlers = self._handlers[watch].copy()
            for handler in handlers:
                if handler in handlers:
                    handler.dispatch(event)
""")]),
    dict(name="B iterate all handler sets", expect="fire", rule="C04/", edits=[(API, "for handler in self._handlers[watch].copy():\n                if handler in self._handlers[watch]:", "for handler in [h for hs in self._handlers.values() for h in hs]:\n                if handler in self._handlers[watch]:")]),
    dict(name="B enqueue without own watch", expect="fire", rule="C04/event-travels-with-watch", edits=[(API, "self._event_queue.put((event, self.watch))", "self._event_queue.put((event, None))")]),
    dict(name="B unlocked add_handler", expect="fire", rule="C04/guarded-by", edits=[(API, "        with self._lock:\n            self._add_handler_for_watch(event_handler, watch)\n\n    def remove_handler_for_watch", "        if True:\n            self._add_handler_for_watch(event_handler, watch)\n\n    def remove_handler_for_watch")]),
    dict(name="B dispatch twice", expect="fire", rule="C04/dispatch-shape", edits=[(API, "                    handler.dispatch(event)\n        event_queue.task_done()", "                    handler.dispatch(event)\n                    handler.dispatch(event)\n        event_queue.task_done()")]),
    dict(name="B lock rebound in start", expect="fire", rule="C04/one-lock-object", edits=[(API, "        super().start()\n\n    def schedule", "        self._lock = threading.RLock()\n        super().start()\n\n    def schedule")]),
    dict(name="E copy() -> list()", expect="silent", edits=[(API, "for handler in self._handlers[watch].copy():", "for handler in list(self._handlers[watch]):")]),
    dict(name="E copy() -> tuple()", expect="silent", edits=[(API, "for handler in self._handlers[watch].copy():", "for handler in tuple(self._handlers[watch]):")]),
    dict(name="E with -> acquire/try/finally", expect="silent", edits=[(API, _DISPATCH, """        self._lock.acquire()
        try:
            for handler in self._handlers[watch].copy():
                if handler in self._handlers[watch]:
                    handler.dispatch(event)
        finally:
            self._lock.release()
""")]),
    dict(name="E rename loop variable", expect="silent", edits=[(API, "            for handler in self._handlers[watch].copy():\n                if handler in self._handlers[watch]:\n                    handler.dispatch(event)", "            for h in self._handlers[watch].copy():\n                if h in self._handlers[watch]:\n                    h.dispatch(event)")]),
    dict(name="E inverted guard with continue", expect="silent", edits=[(API, "                if handler in self._handlers[watch]:\n                    handler.dispatch(event)", "                if handler not in self._handlers[watch]:\n                    continue\n                handler.dispatch(event)")]),
]


def thorough(ctx):
    from ..selftest import thorough as st

    return st(ctx, VARIANTS)
