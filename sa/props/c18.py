"""C18 — tricks: debounced batches complete and ordered; one child at a time; stop ends all.

Decided: the debouncer's monitor discipline and batch hand-over under its condition; stop flags of AutoRestartTrick are
test-and-set under the lock; a stop flag tested outside its lock must not guard a spawn (check-then-act); stop() reaches
debouncer.stop, child stop and the joins; ProcessWatcher re-checks the stop flag before its callback; ShellCommandTrick's
drop/wait options dominate the spawn.  Not decided: real child processes, restart counts, batch contents over time.
"""

from __future__ import annotations

import ast
import re

from ..model import AnalysisError
from ..monitor import monitor_discipline
from ..pse import NORMAL, Enumerator, walk_with_locks
from ..threads import ThreadCfg, lock_kind

LEVEL_TEXT = (
    "Static analysis. Path enumeration of EventDebouncer, AutoRestartTrick, ShellCommandTrick and ProcessWatcher with lock sets; "
    "rules: monitor discipline of the debouncer (shared instance with C06), batch swapped out and appended under the condition, "
    "callback only while running, test-and-set of stop flags under the lock, check-then-act (a stop flag written under a lock and "
    "tested outside it must not be the only guard of a spawn), must-effects of stop(), the watcher's stop re-check before its "
    "callback, drop/wait options dominating the spawn."
    " Also: debounce quiescence (the last wait before the callback is a timed wait on the interval that timed out), a batch callback in flight excludes stop() (or the spawn is re-validated under the lock), the watcher reports exactly the child's exit, per-method contracts of the auto-restart trick (restart sequencing, stop kills the child, kill_process), the shell trick's running predicate as a truth table."
)

SPAWN = re.compile(r"subprocess\.Popen$|\.start$")


def walk_all(ps):
    for p in ps:
        yield p
        for e in p.evs:
            if e.kind == "loop":
                yield from walk_all(e.extra["paths"])


def trick_contracts(ctx, P) -> None:
    """Per-method contracts of the auto-restart trick (each method enumerated on its own, sibling methods as opaque calls)."""
    from ..model import boolified
    from ..pse import Cfg

    RT = ctx.rule(
        "C18/restart-sequencing",
        "start(): a debouncer (interval, callback reaching _restart_process) is created and started iff an interval is set, then the child is "
        "started; on_any_event(): ignored event types do nothing, every other event goes to the debouncer if there is one, else restarts "
        "directly, exactly once; _restart_process(): nothing while stopping, else stop then start then count; _start_process(): nothing "
        "while stopping, else spawn the command, and watch it (callback = _restart_process) iff restart_on_command_exit",
        floor=8,
    )
    RKC = ctx.rule(
        "C18/stop-kills-the-child",
        "_stop_process(): an existing child gets the stop signal; if that fails the child is gone; otherwise it is polled until it has "
        "exited or kill_after has elapsed, and on expiry it gets signal 9 (a failure of which is absorbed); the field is cleared on every "
        "path; kill_process signals the child's process group (posix) / the process (Windows) with the given signal",
        floor=4,
    )
    A = P.cls("AutoRestartTrick")

    class K(ThreadCfg):
        def raises(self, kind, text, node, st):
            if kind == "call" and (st.last_func or "") == "kill_process":
                return ["OSError"]
            return ()

    # the methods the contracts are stated for stay opaque to one another; any other private helper of the class is inlined
    CONTRACT = {"start", "stop", "on_any_event", "_restart_process", "_start_process", "_stop_process"}
    cfg = K(P, follow_attrs=False, no_inline=CONTRACT | {"join"})
    cfg.havoc_on_acquire = False
    cfg.exact_last_iteration = True  # what the last round of the polling loop found (a break, or a flag it set) stays known after the loop

    def paths(m):
        fi = A.methods.get(m)
        if fi is None:
            raise AnalysisError(f"anchor vanished: AutoRestartTrick.{m}")
        return fi, [p for p in Enumerator(cfg).run(fi, selfcls="AutoRestartTrick")]

    def calls(p):
        return [(e.extra.get("func"), e.extra.get("args") or [], e.extra.get("kwargs") or {}) for e in p.evs if e.kind == "call"]

    def callback_restarts(cb: str) -> bool:
        """the debouncer's callback restarts the command once per batch: a lambda around self._restart_process(), or a method of the
        trick every path of which calls it exactly once"""
        if "self._restart_process" in cb:
            return True
        m_ = re.fullmatch(r"self\.(\w+)", cb)
        if m_ and m_.group(1) in A.methods and m_.group(1) not in CONTRACT:
            mps = [p for p in Enumerator(cfg).run(A.methods[m_.group(1)], selfcls="AutoRestartTrick")]
            return bool(mps) and all(p.outcome[0] != "raise" and sum(1 for e in p.evs if e.kind == "call" and e.extra.get("func") == "self._restart_process") == 1 for p in mps)
        return False

    # ---- start
    fi, ps = paths("start")
    for p in ps:
        iv = p.conds().get("self.debounce_interval_seconds")
        cs = calls(p)
        fs = [f for f, _, _ in cs]
        deb = [e for e in p.evs if e.kind == "store" and e.extra.get("attr") == "event_debouncer"]
        ok, why = True, ""
        if iv is True:
            ctor = [(a, k) for f, a, k in cs if f == "EventDebouncer"]
            good_ctor = len(ctor) == 1 and ctor[0][1].get("debounce_interval_seconds") == "self.debounce_interval_seconds" and callback_restarts(ctor[0][1].get("events_callback", ""))
            if not (len(deb) == 1 and deb[0].extra.get("value", "").startswith("EventDebouncer(") and good_ctor):
                ok, why = False, "an interval is set but no EventDebouncer(debounce_interval_seconds=the interval, events_callback -> _restart_process) is stored"
            elif "self.event_debouncer.start" not in fs:
                ok, why = False, "the debouncer thread is never started: events pile up and no batch ever restarts the child"
        elif iv is False:
            if deb:
                ok, why = False, "a debouncer is created although no interval is set"
        else:
            ok, why = False, "the debounce interval is not consulted"
        if ok and (not fs or fs[-1] != "self._start_process"):
            ok, why = False, "start() does not end by starting the child"
        ctx.check(ok, RT, f"AutoRestartTrick.start interval={iv}", why, fi.loc)
    # ---- on_any_event
    fi, ps = paths("on_any_event")
    evp = ([a.arg for a in fi.node.args.args if a.arg != "self"] or ["event"])[0]
    seen = set()
    for p in ps:
        c = p.conds()
        ign = next((v for k, v in c.items() if k.startswith(f"{evp}.event_type in ") and "EVENT_TYPE_OPENED" in k and "EVENT_TYPE_CLOSED_NO_WRITE" in k), None)
        has = c.get("self.event_debouncer is None")
        fs = calls(p)
        he = [a for f, a, _ in fs if f == "self.event_debouncer.handle_event"]
        rs = [a for f, a, _ in fs if f == "self._restart_process"]
        if ign is True:
            ok, why = not he and not rs, "an opened / closed-without-write event triggers a restart (reading the watched files would restart the child in a loop)"
        elif ign is False and has is False:
            ok, why = he == [[evp]] and not rs, "with a debouncer the event must be handed to it, exactly once, and nothing restarted directly"
        elif ign is False and has is True:
            ok, why = len(rs) == 1 and not he, "without a debouncer every triggering event restarts the child exactly once"
        else:
            ok, why = False, "the ignored event types / the presence of the debouncer are not consulted"
        seen.add((ign, has))
        ctx.check(ok, RT, f"AutoRestartTrick.on_any_event ignored-type={ign} debouncer={'?' if has is None else not has}", why, fi.loc)
    if not {(True, None), (False, True), (False, False)} <= seen and not any(not i.ok for i in ctx.instances if i.rule == RT):
        raise AnalysisError(f"AutoRestartTrick.on_any_event: expected the three cases, found {sorted(map(str, seen))}")
    # ---- _restart_process
    fi, ps = paths("_restart_process")
    for p in ps:
        st_ = p.conds().get("self._is_trick_stopping")
        fs = [f for f, _, _ in calls(p) if f in ("self._stop_process", "self._start_process")]
        cnt = [e for e in p.evs if e.kind == "store" and e.extra.get("attr") == "restart_count"]
        if st_ is True:
            ok, why = not fs, "a restart proceeds although the trick is stopping"
        elif st_ is False:
            ok, why = fs == ["self._stop_process", "self._start_process"] and len(cnt) == 1 and cnt[0].extra.get("value") == "self.restart_count + 1", f"a restart must be: stop the child, start a new one, count it — does {fs}, count stores {[e.text for e in cnt]} (start before stop = two children alive; no stop = the old child keeps running; no start = no child)"
        else:
            ok, why = False, "the stopping flag is not consulted"
        ctx.check(ok, RT, f"AutoRestartTrick._restart_process stopping={st_}", why, fi.loc)
    # ---- _start_process
    fi, ps = paths("_start_process")
    for p in ps:
        c = p.conds()
        st_, ex = c.get("self._is_trick_stopping"), c.get("self.restart_on_command_exit")
        cs = calls(p)
        spawn = [a for f, a, _ in cs if f == "subprocess.Popen"]
        pst = [e for e in p.evs if e.kind == "store" and e.extra.get("attr") == "process"]
        wst = [e for e in p.evs if e.kind == "store" and e.extra.get("attr") == "process_watcher"]
        wstart = [f for f, _, _ in cs if f == "self.process_watcher.start"]
        if st_ is True:
            ok, why = not spawn, "a child is spawned although the trick is stopping"
        elif st_ is False:
            ok = len(spawn) == 1 and spawn[0][:1] == ["self.command"] and len(pst) == 1 and pst[0].extra.get("value", "").startswith("subprocess.Popen(")
            why = "the command is not spawned exactly once and kept in self.process"
            if ok and ex is True:
                ok = len(wst) == 1 and wst[0].extra.get("value") == "ProcessWatcher(self.process, self._restart_process)" and len(wstart) == 1
                why = "restart_on_command_exit: the child is not watched by a started ProcessWatcher(child, _restart_process)"
            elif ok and ex is False:
                ok, why = not wst and not wstart, "a watcher is created although restart_on_command_exit is off"
            elif ok:
                ok, why = False, "restart_on_command_exit is not consulted"
        else:
            ok, why = False, "the stopping flag is not consulted"
        ctx.check(ok, RT, f"AutoRestartTrick._start_process stopping={st_} on-exit={ex}", why, fi.loc)
    # ---- _stop_process
    fi, ps = paths("_stop_process")
    nchild = 0
    for p in ps:
        c = p.conds()
        if c.get("self._is_process_stopping") is not False or p.outcome[0] == "raise":
            if p.outcome[0] == "raise":
                ctx.viol(RKC, f"AutoRestartTrick._stop_process lets {p.outcome[1]} escape", "a failing kill (the child is already gone) propagates out of stop()/restart: the flag _is_process_stopping may stay set and stop() fails", fi.loc)
            continue
        has_child = c.get("self.process is None")
        kills = [(i, e) for i, e in enumerate(p.evs) if e.kind == "call" and e.extra.get("func") == "kill_process"]
        cleared = any(e.kind == "store" and e.extra.get("attr") == "process" and e.extra.get("value") == "None" for e in p.evs)
        if has_child is not False:
            ctx.check(not kills, RKC, f"AutoRestartTrick._stop_process without child [{p.sig()[:50]}]", "a signal is sent although there is no child", fi.loc, nontrivial=False)
            continue
        nchild += 1
        ok, why = True, ""
        if not kills or kills[0][1].extra.get("args") != ["self.process.pid", "self.stop_signal"]:
            ok, why = False, f"the child does not get kill_process(self.process.pid, self.stop_signal) first (gets {[e.extra.get('args') for _, e in kills]})"
        else:
            i0 = kills[0][0]
            first_failed = any(e.kind == "caught" and e.text.startswith("OSError") for e in p.evs[i0 + 1 : i0 + 3])
            rest = kills[1:]
            loops = [e for e in p.evs[i0:] if e.kind == "loop"]
            # what the path last learnt, at top level (the last round of the polling loop is spliced in after the loop's summary)
            top = [e for e in p.evs[i0:] if e.kind == "cond"]
            polls = [e for e in top if e.text == "self.process.poll() is None"]
            times = [e for e in top if e.text.startswith("time.time() < ") and "kill_after" in e.text]
            exited = bool(polls) and polls[-1].extra.get("truth") is False
            expired = (not exited) and bool(times) and times[-1].extra.get("truth") is False
            if first_failed:
                if rest:
                    ok, why = False, "the stop signal failed (child already gone) but another signal is sent"
            elif exited:
                if rest:
                    ok, why = False, "the child exited in time but is sent signal 9 anyway"
            elif expired:
                if len(rest) != 1 or rest[0][1].extra.get("args") != ["self.process.pid", "9"]:
                    ok, why = False, "the child did not exit within kill_after and is not sent kill_process(self.process.pid, 9): it stays alive after stop() returned"
                for L in loops:
                    for b in L.extra["paths"]:
                        bc = b.conds()
                        if (b.outcome == ("break",) or b.outcome[0] == "return") and bc.get("self.process.poll() is None") is not False:
                            ok, why = False, "the polling loop is left although the child was not found exited (no signal 9 follows)"
            else:
                ok, why = False, f"the path neither sees the child exit nor kill_after expire [{p.sig()[:80]}]"
        if ok and not cleared:
            ok, why = False, "self.process is not cleared: the next restart signals a dead pid / a recycled process group"
        ctx.check(ok, RKC, f"AutoRestartTrick._stop_process child [{p.sig()[:70]}]", why, fi.loc)
    if nchild < 3:
        raise AnalysisError("AutoRestartTrick._stop_process: expected the cases signal failed / exited in time / expired")
    # ---- kill_process definitions
    tm = A.module
    defs = [n for n in ast.walk(tm.tree) if isinstance(n, ast.FunctionDef) and n.name == "kill_process"]
    if not defs:
        raise AnalysisError("anchor vanished: tricks.kill_process")
    for d in defs:
        ps_ = [a.arg for a in d.args.args]
        body_calls = [ast.unparse(n) for n in ast.walk(d) if isinstance(n, ast.Call) and ast.unparse(n.func) in ("os.kill", "os.killpg")]
        ok = len(ps_) == 2 and body_calls in ([f"os.killpg(os.getpgid({ps_[0]}), {ps_[1]})"], [f"os.kill({ps_[0]}, {ps_[1]})"])
        if not ok and len(ps_) == 2 and len(body_calls) == 2:
            # one definition that chooses at run time by the platform: `if <not Windows>: killpg(...) else: kill(...)`
            stm = [b for b in d.body if not (isinstance(b, ast.Expr) and isinstance(b.value, ast.Constant))]
            if len(stm) == 1 and isinstance(stm[0], ast.If) and stm[0].orelse:
                t_ = stm[0].test
                if isinstance(t_, ast.Name) and t_.id in tm.consts:
                    t_ = tm.consts[t_.id]
                tt_ = ast.unparse(t_)
                posix, win = (stm[0].body, stm[0].orelse) if tt_ in ("not platform.is_windows()",) else (stm[0].orelse, stm[0].body) if tt_ == "platform.is_windows()" else (None, None)
                if posix is not None:
                    calls_of = lambda blk: [ast.unparse(n) for b in blk for n in ast.walk(b) if isinstance(n, ast.Call) and ast.unparse(n.func) in ("os.kill", "os.killpg")]
                    ok = calls_of(posix) == [f"os.killpg(os.getpgid({ps_[0]}), {ps_[1]})"] and calls_of(win) == [f"os.kill({ps_[0]}, {ps_[1]})"]
        ctx.check(ok, RKC, f"kill_process at line-independent form `{body_calls[0][:40] if body_calls else 'no signal call'}`", f"kill_process({', '.join(ps_)}) does {body_calls}: expected os.killpg(os.getpgid(pid), signal) (the child is a session leader: its own children must go too) or os.kill(pid, signal) on Windows", f"{tm.relpath}:{d.lineno}")
    # ---- ShellCommandTrick.is_process_running
    RSP = ctx.rule("C18/shell-running-predicate", "ShellCommandTrick.is_process_running is true iff a process watcher is still registered or the last process exists and has not exited (the drop-during-process option relies on it)", floor=1)
    S = P.cls("ShellCommandTrick")
    rf = S.methods.get("is_process_running")
    if rf is None:
        raise AnalysisError("anchor vanished: ShellCommandTrick.is_process_running")
    okp, whyp, n2 = True, "", 0
    for p in Enumerator(Cfg(P)).run(boolified(rf), selfcls="ShellCommandTrick"):
        if p.outcome[0] != "return" or not isinstance(p.outcome[1], ast.Constant):
            okp, whyp = False, "does not return a truth value"
            continue
        n2 += 1
        c = p.conds()
        w, pn, ex = c.get("self._process_watchers"), c.get("self.process is None"), c.get("self.process.poll() is None")
        expect = True if w is True else (True if (pn is False and ex is True) else (False if (w is False and (pn is True or ex is False)) else None))
        if expect is None or bool(p.outcome[1].value) != expect:
            okp, whyp = False, f"returns {p.outcome[1].value} with watchers={w}, process is None={pn}, poll() is None={ex}"
    ctx.check(okp and n2 >= 3, RSP, "ShellCommandTrick.is_process_running", whyp or "too few cases", rf.loc)


def run(ctx) -> None:
    P = ctx.P
    RM = ctx.rule("C18/monitor-discipline", "the debouncer's untimed wait sits in a predicate loop whose predicate its notifiers write (same instance as C06)", floor=3)
    RB = ctx.rule("C18/batch-handover", "events are appended, and the pending batch is swapped out for the callback, only with the condition held; the callback runs only while the debouncer is running and gets exactly the swapped batch", floor=3)
    RF = ctx.rule("C18/flags-test-and-set", "the trick's stopping flags are tested and set inside one critical section of the stopping lock", floor=2)
    RC = ctx.rule("C18/check-then-act", "a stop flag that is written under a lock and tested outside it must not be the only guard of a spawn (the flag can be set between the test and the spawn)", floor=1)
    RS = ctx.rule("C18/stop-must-effects", "AutoRestartTrick.stop reaches debouncer.stop(), the child stop and join of both helper threads on every path on which they exist", floor=3)
    RW = ctx.rule("C18/watcher-recheck", "ProcessWatcher.run calls the termination callback only under a stop-flag test made after the polling loop", floor=1)
    RO = ctx.rule("C18/shell-options", "ShellCommandTrick: the drop-during-process test dominates the spawn; wait_for_process reaches process.wait()", floor=2)

    # the quiet-period wait is re-armed by every notify: each queued event must be announced, not only the first of a batch
    monitor_discipline(ctx, RM, only_classes={"EventDebouncer"}, announce_every_addition=True)

    cfg = ThreadCfg(P, follow_attrs=False, no_inline={"join", "start"})
    cfg.freeze_locals = True
    en = Enumerator(cfg)
    # ---------------------------------------------------------------- debouncer
    D = P.cls("EventDebouncer")
    he = en.run(D.methods["handle_event"], selfcls="EventDebouncer")
    ok = True
    for e, held, p in walk_with_locks(he, lambda s: s):
        if e.kind == "call" and e.extra.get("func") == "self._events.append":
            if held.get("self._cond", 0) <= 0:
                ok = False
        if e.kind == "call" and re.fullmatch(r"self\._events\.(insert|appendleft|extend)", e.extra.get("func", "")):
            ok = False
    napp = sum(1 for p in he for e in p.evs if e.kind == "call" and e.extra.get("func") == "self._events.append")
    ctx.check(ok and napp >= 1, RB, "EventDebouncer.handle_event appends under the condition", "events are not appended (in order) with the condition held", D.methods["handle_event"].loc)
    rp = en.run(D.methods["run"], selfcls="EventDebouncer")
    ctx.count("paths", len(rp) + len(he))
    ncb = 0
    okb, msgb = True, ""
    for e, held, p in walk_with_locks(rp, lambda s: s):
        if e.kind == "call" and e.extra.get("func") == "self.events_callback":
            ncb += 1
            arg = (e.extra.get("args") or [""])[0]
            evs = p.evs
            i = evs.index(e) if e in evs else None
            if i is None:
                continue
            before = evs[:i]
            # the batch handed over is a value read from self._events before it was reset, and the reset happened under the condition
            resets = [x for x in before if x.kind == "store" and x.extra.get("attr") == "_events"]
            if not resets:
                okb, msgb = False, "the pending list is not reset before the callback: the same events are delivered again with the next batch"
            batch_names = {x.extra.get("name") for x in before if x.kind == "assign" and (re.search(r"= self\._events\b", x.raw or x.text) or re.fullmatch(r"\w+ = self\._events", x.text))}
            if not (arg == "self._events" or arg.rstrip("'") in batch_names):
                okb, msgb = False, f"the callback gets `{arg}` instead of the swapped-out batch"
            if arg == "self._events" and resets:
                okb, msgb = False, "the callback gets the already reset list"
            last_wait = max([j for j, x in enumerate(before) if x.kind == "wait"], default=-1)
            running = [x for x in before[last_wait + 1 :] if x.kind == "cond" and (("should_keep_running" in x.text and x.extra.get("truth")) or (x.text.endswith("_stopped_event.is_set()") and x.extra.get("truth") is False))]
            if not running:
                okb, msgb = False, "the callback can run although stop() was called (no should_keep_running() test after the last wait)"
    # walk_with_locks only sees top-level and loop bodies: do the lock check for the swap
    for e, held, p in walk_with_locks(rp, lambda s: s):
        if e.kind == "store" and e.extra.get("attr") == "_events" and held.get("self._cond", 0) <= 0:
            okb, msgb = False, "the pending batch is swapped out without the condition held: an event appended concurrently is lost"
    ctx.check(okb and ncb >= 1, RB, "EventDebouncer.run hands over the swapped batch, only while running", msgb or "no callback call found", D.methods["run"].loc)
    # ---- quiescence: with a debounce interval the batch is handed over only after a timed wait of that interval expired
    RQ = ctx.rule(
        "C18/debounce-quiescence",
        "with a non-zero interval, the last wait before the callback is a timed wait on the interval whose result says 'timed out' (no "
        "further event arrived); the untimed wait for the first event is reached only with no event pending and the thread running",
        floor=2,
    )

    def last_wait(evs):
        """('top', index) of the last wait at this level, or ('loop', loop event) if a loop containing waits comes later."""
        for j in range(len(evs) - 1, -1, -1):
            x = evs[j]
            if x.kind == "wait":
                return "top", j
            if x.kind == "loop" and any(y.kind == "wait" for b in x.extra["paths"] for y in b.flat()):
                return "loop", x
        return None, None

    def timed_out(evs, j):
        w = evs[j]
        if not w.extra.get("timed"):
            return False, "the last wait before the callback is the untimed wait for the first event"
        nxt = []
        for x in evs[j + 1 :]:
            if x.kind in ("wait", "call", "acquire", "release", "loop"):
                break
            nxt.append(x)
        res = next((x for x in nxt if x.kind == "cond" and ".wait(" in x.text), None)
        if res is None:
            return False, "the result of the timed wait is not tested: a notify (a further event) ends the wait like the timeout does"
        if "debounce_interval_seconds" not in res.text:
            return False, f"the timed wait `{res.text[:60]}` does not wait for the debounce interval"
        if res.extra.get("truth") is not False:
            return False, "the batch is handed over when the timed wait was *notified* (a further event arrived) instead of when it timed out"
        return True, ""

    okq, msgq, nq = True, "", 0

    def scan_cb(ps):
        nonlocal okq, msgq, nq
        for p in ps:
            for i, e in enumerate(p.evs):
                if e.kind == "loop":
                    scan_cb(e.extra["paths"])
                if e.kind == "call" and e.extra.get("func") == "self.events_callback":
                    before = p.evs[:i]
                    iv = [x for x in before if x.kind == "cond" and x.text == "self.debounce_interval_seconds"]
                    if iv and iv[-1].extra.get("truth") is False:
                        continue  # no debouncing requested
                    nq += 1
                    where, at = last_wait(before)
                    if where == "top":
                        ok1, m1 = timed_out(before, at)
                    elif where == "loop":
                        ok1, m1 = True, ""
                        for b in at.extra["paths"]:
                            if b.outcome is not NORMAL:
                                continue
                            w2, a2 = last_wait(b.evs)
                            if w2 == "top":
                                o2, m2 = timed_out(b.evs, a2)
                                if not o2:
                                    ok1, m1 = False, m2 + " (loop left through its condition)"
                    else:
                        ok1, m1 = False, "no wait at all precedes the callback although a debounce interval is set"
                    if not ok1:
                        okq, msgq = False, m1

    # enumerated with the last, normally ending round of every while loop spliced in: a flag the round sets from the wait's result
    # (`quiet = not cond.wait(..)`) is then as good as a direct test of it
    cfgq = ThreadCfg(P, follow_attrs=False, no_inline={"join", "start"})
    cfgq.freeze_locals = True
    cfgq.exact_last_iteration = True
    scan_cb(Enumerator(cfgq).run(D.methods["run"], selfcls="EventDebouncer"))
    ctx.check(okq and nq > 0, RQ, "EventDebouncer.run delivers after a quiet interval", msgq or "no debounced hand-over found", D.methods["run"].loc)
    okp, msgp, nuw = True, "", 0
    def walk_prefixed(ps, prefix):
        """(events that led into the loops around the path, path)"""
        for p_ in ps:
            yield prefix, p_
            for i_, e_ in enumerate(p_.evs):
                if e_.kind == "loop":
                    yield from walk_prefixed(e_.extra["paths"], prefix + p_.evs[:i_])

    for pre, p in walk_prefixed(rp, []):
        for i, e in enumerate(p.evs):
            if e.kind == "wait" and not e.extra.get("timed"):
                nuw += 1
                # the tests made since the last wait, including those on the way into the loops around this one (a test whose outcome
                # was still known is not repeated by the engine)
                before = pre + p.evs[:i]
                last_w = max([j for j, x in enumerate(before) if x.kind == "wait"], default=-1)
                c = {x.text: x.extra.get("truth") for x in before[last_w + 1 :] if x.kind == "cond"}
                if c.get("self._events") is not False:
                    okp, msgp = False, "the untimed wait is reached while events are pending: they are not delivered until something else notifies"
                if c.get("self._stopped_event.is_set()") is not False and not any(("should_keep_running" in k and v) for k, v in c.items()):
                    okp, msgp = False, "the untimed wait is reached although stop() was called: the thread never exits"
    ctx.check(okp and nuw > 0, RQ, "EventDebouncer.run waits for the first event only when idle and running", msgp or "no untimed wait found", D.methods["run"].loc)

    sp = en.run(D.methods["stop"], selfcls="EventDebouncer")
    oks = True
    for e, held, p in walk_with_locks(sp, lambda s: s):
        if e.kind == "notify" and held.get("self._cond", 0) <= 0:
            oks = False
    ctx.check(oks, RB, "EventDebouncer.stop notifies under the condition", "stop() notifies without holding the condition", D.methods["stop"].loc)

    # ---------------------------------------------------------------- AutoRestartTrick flags
    A = P.cls("AutoRestartTrick")
    flags = {}
    methods = {m: en.run(fi, selfcls="AutoRestartTrick") for m, fi in A.methods.items() if m not in ("__init__", "generate_yaml")}
    ctx.count("paths", sum(len(v) for v in methods.values()))
    # which flags are written under which lock
    for m, ps in methods.items():
        for e, held, p in walk_with_locks(ps, lambda s: s):
            if e.kind == "store" and e.extra.get("recv") == "self" and e.extra.get("value") in ("True", "False") and re.match(r"_is_\w+", e.extra.get("attr", "")):
                hl = [k for k, v in held.items() if v > 0]
                flags.setdefault(e.extra["attr"], set()).update(hl or {"<none>"})
    ctx.extra["flags_written_under"] = {k: sorted(v) for k, v in flags.items()}
    for m in ("stop", "_stop_process"):
        ps = methods.get(m)
        if ps is None:
            raise AnalysisError(f"anchor vanished: AutoRestartTrick.{m}")
        ok, msg = True, ""
        found = False
        for p in ps:
            held = 0
            tested_in_section = set()
            skip = 0
            for e in p.evs:
                # the other operation judged here is skipped where it is inlined (it has its own instance); private helpers that hold a
                # piece of this operation (e.g. the test-and-set itself) are followed
                if e.kind == "inline" and (skip or e.text.split(".")[-1] in ("stop", "_stop_process")):
                    skip += 1
                    continue
                if e.kind == "inline_end" and skip:
                    skip -= 1
                    continue
                if skip:
                    continue
                if e.kind == "acquire" and e.text == "self._stopping_lock":
                    held += 1
                    tested_in_section = set()
                elif e.kind == "release" and e.text == "self._stopping_lock":
                    held -= 1
                elif e.kind == "cond" and re.fullmatch(r"self\._is_\w+", e.text):
                    if held > 0:
                        tested_in_section.add(e.text.split(".")[1])
                elif e.kind in ("assign", "freeze") and held > 0 and re.fullmatch(r"\w+'? = self\._is_\w+", e.text):
                    # the old value read into a local inside the section (`old = flag; flag = True; return not old`): the decision
                    # taken on that local later is the test, made atomically with the set
                    tested_in_section.add(e.text.split("self.")[1])
                elif e.kind == "store" and e.extra.get("value") == "True" and re.fullmatch(r"_is_\w+_stopping", e.extra.get("attr", "")):
                    found = True
                    if held <= 0 or e.extra["attr"] not in tested_in_section:
                        ok, msg = False, f"{e.extra['attr']} is set to True without having been tested in the same critical section of _stopping_lock: two threads can both pass the test"
        ctx.check(ok and found, RF, f"AutoRestartTrick.{m}", msg or "no stopping flag is set here", A.methods[m].loc)

    # ---------------------------------------------------------------- check-then-act
    locked_flags = {f for f, ls in flags.items() if any(l != "<none>" for l in ls)}
    unguarded_spawns = set()
    for m, ps in methods.items():
        seen = set()
        for p in ps:
            held = 0
            unlocked_tests = []
            for e in p.evs:
                if e.kind == "inline":
                    break  # callee analysed on its own
                if e.kind == "acquire":
                    held += 1
                elif e.kind == "release":
                    held -= 1
                elif e.kind == "cond" and re.fullmatch(r"self\.(_is_\w+)", e.text):
                    f = e.text.split(".")[1]
                    if f in locked_flags and held <= 0 and e.extra.get("truth") is False:
                        unlocked_tests.append(f)
                elif e.kind == "call" and e.extra.get("func") == "subprocess.Popen" and unlocked_tests:
                    key = (m, unlocked_tests[-1])
                    if key in seen:
                        continue
                    seen.add(key)
                    unguarded_spawns.add(key)
                    ctx.viol(
                        RC,
                        f"AutoRestartTrick.{m} flag={unlocked_tests[-1]}",
                        f"{unlocked_tests[-1]} is set under _stopping_lock by stop() but tested here without it, and the spawn that follows is not re-validated: a restart racing stop() starts a child after stop() has returned",
                        f"{A.module.relpath}:{e.line}",
                    )
        if not seen and any(e.kind == "call" and e.extra.get("func") == "subprocess.Popen" for p in ps for e in p.evs):
            ctx.ok(RC, f"AutoRestartTrick.{m} spawn is not guarded by an unlocked flag test alone", A.methods[m].loc)

    # ---------------------------------------------------------------- a batch callback in flight excludes stop()
    # The spawn in _start_process is guarded by an unlocked flag test only (known finding above), so the debouncer-driven
    # restart is safe against stop() for a different reason: the debouncer holds its condition while the callback runs, and
    # AutoRestartTrick.stop() goes through debouncer.stop() -- which takes that condition -- before it stops the child.  A
    # restart in flight therefore finishes (child spawned) before stop() kills "the" child.  Either protection is enough.
    RI = ctx.rule(
        "C18/in-flight-callback-excludes-stop",
        "the spawn of a debouncer-driven restart cannot straddle stop(): either the spawn is re-validated under the lock the stop flag "
        "is set under, or the debouncer runs its callback with its condition held, its stop() takes that condition, and the trick's "
        "stop() calls debouncer.stop() before stopping the child",
        floor=1,
    )
    cb_locked, ncb2 = True, 0
    for e, held, p in walk_with_locks(rp, lambda s: s):
        if e.kind == "call" and e.extra.get("func") == "self.events_callback":
            ncb2 += 1
            if held.get("self._cond", 0) <= 0:
                cb_locked = False
    stop_takes = bool(sp) and all(any(e.kind == "acquire" and e.text == "self._cond" for e in p.evs) for p in sp if p.outcome[0] != "raise")
    order_ok = True
    for p in methods["stop"]:
        fl = [(e.kind, e.extra.get("func") if e.kind == "call" else e.text) for e in p.evs]
        ds = [i for i, (k, t) in enumerate(fl) if k == "call" and t == "self.event_debouncer.stop"]
        ks = [i for i, (k, t) in enumerate(fl) if k == "inline" and str(t).endswith("._stop_process")]
        if ds and ks and min(ks) < min(ds):
            order_ok = False
    via_debouncer = cb_locked and ncb2 > 0 and stop_takes and order_ok
    ctx.check(
        (not unguarded_spawns) or via_debouncer,
        RI,
        "AutoRestartTrick: debouncer-driven restart vs stop()",
        "a restart started by the debouncer's callback can straddle stop(): the spawn is guarded only by an unlocked flag test "
        f"({sorted(unguarded_spawns)}), and the debouncer does not exclude stop() while its callback runs "
        f"(callback under the condition={cb_locked}, debouncer.stop() takes the condition={stop_takes}, debouncer stopped before the child={order_ok}): "
        "stop() finds no child between the restart's kill and its spawn, returns, and the child spawned next stays alive together with its watcher thread",
        D.methods["run"].loc,
        {"callback_under_condition": cb_locked, "stop_takes_condition": stop_takes, "debouncer_stopped_before_child": order_ok, "unguarded_spawns": sorted(unguarded_spawns)},
    )

    # ---------------------------------------------------------------- stop must-effects (single-threaded valuation: no havoc)
    cfg2 = ThreadCfg(P, follow_attrs=False, no_inline={"join", "start"})
    cfg2.havoc_on_acquire = False
    sps = Enumerator(cfg2).run(A.methods["stop"], selfcls="AutoRestartTrick")
    oks, msgs = True, ""
    nfull = 0
    for p in sps:
        c = p.conds()
        if c.get("self._is_trick_stopping") is True:
            continue
        # ... or the same decision taken on the old value read under the lock (`was = flag; flag = True`, then `if was: return`)
        from ..pse import snapshot_names as _sn

        snaps_ = _sn(p.evs)
        if any(t is True and snaps_.get(a) == "self._is_trick_stopping" for a, t in c.items()):
            continue
        nfull += 1
        fs = [e.extra.get("func") for e in p.evs if e.kind == "call"]
        has_deb = c.get("self.event_debouncer is None") is False
        # a watcher exists on this path if the first test of the field (stop()'s own or the inlined _stop_process's) says so
        wconds = [e for e in p.evs if e.kind == "cond" and e.text in ("self.process_watcher is None", "self.process_watcher is not None")]
        has_w = bool(wconds) and ((wconds[0].text.endswith("is None") and wconds[0].extra.get("truth") is False) or (wconds[0].text.endswith("is not None") and wconds[0].extra.get("truth") is True))
        if has_deb and ("self.event_debouncer.stop" not in fs or "self.event_debouncer.join" not in fs):
            oks, msgs = False, "the debouncer thread is not stopped and joined"
        if has_deb and "self.event_debouncer.stop" in fs and "self.event_debouncer.join" in fs and fs.index("self.event_debouncer.stop") > fs.index("self.event_debouncer.join"):
            oks, msgs = False, "the debouncer is joined before it is stopped"
        if not any(e.kind == "inline" and e.text.endswith("._stop_process") for e in p.evs):
            oks, msgs = False, "the child process is not stopped"
        wlocals = {e.extra.get("name") for e in p.evs if e.kind == "assign" and re.fullmatch(r"\w+ = self\.process_watcher", e.text)}
        if wlocals:
            # stop() works on a snapshot of the field taken before the child is stopped: the snapshot decides
            lc = [e for e in p.evs if e.kind == "cond" and re.fullmatch(r"(\w+)'? is (not )?None", e.text) and e.text.split("'")[0].split(" ")[0] in wlocals]
            has_w = bool(lc) and ((lc[0].text.endswith("is None") and not lc[0].text.endswith("is not None") and lc[0].extra.get("truth") is False) or (lc[0].text.endswith("is not None") and lc[0].extra.get("truth") is True))
        joined = any(f == "self.process_watcher.join" or any(f in (f"{n}.join", f"{n}'.join") for n in wlocals) for f in fs if f) or any(e.kind == "call" and any((e.raw or "").startswith(f"{n}.join(") for n in wlocals) for e in p.evs)
        # ... or the watcher sits in a list of helper threads built before the child was stopped: the joined element is a snapshot of the field
        from ..pse import snap_canon, snapshot_names

        snaps = snapshot_names(p.evs)
        joined = joined or any(snap_canon(f, snaps) == "snap<self.process_watcher>.join" for f in fs if f)
        if has_w and not joined:
            oks, msgs = False, "the process watcher thread is not joined although one exists on this path"
    ctx.check(oks and nfull > 0, RS, "AutoRestartTrick.stop", msgs, A.methods["stop"].loc)
    # _stop_process stops the watcher and clears process
    okp = True
    for p in Enumerator(cfg2).run(A.methods["_stop_process"], selfcls="AutoRestartTrick"):
        c = p.conds()
        if c.get("self._is_process_stopping") is True:
            continue
        fs = [e.extra.get("func") for e in p.evs if e.kind == "call"]
        if c.get("self.process_watcher is None") is False and "self.process_watcher.stop" not in fs:
            okp = False
        if c.get("self.process is None") is False and "kill_process" not in fs:
            okp = False
        resets = [e for e in p.evs if e.kind == "store" and e.extra.get("attr") == "_is_process_stopping" and e.extra.get("value") == "False"]
        if not resets:
            okp = False
    ctx.check(okp, RS, "AutoRestartTrick._stop_process", "the child / its watcher is not stopped, or the in-progress flag is not cleared on every path", A.methods["_stop_process"].loc)
    st = Enumerator(cfg2).run(A.methods["start"], selfcls="AutoRestartTrick")
    okst = all(any(e.kind == "inline" and e.text.endswith("._start_process") for e in p.evs) for p in st)
    ctx.check(okst, RS, "AutoRestartTrick.start", "start() does not start the process", A.methods["start"].loc)

    # ---------------------------------------------------------------- ProcessWatcher
    W = P.cls("ProcessWatcher")
    wp = en.run(W.methods["run"], selfcls="ProcessWatcher")
    okw, ncall = True, 0
    for p in wp:
        evs = p.evs
        for i, e in enumerate(evs):
            if e.kind == "call" and e.extra.get("func") == "self.process_termination_callback":
                ncall += 1
                last_loop = max([j for j, x in enumerate(evs[:i]) if x.kind in ("loop", "final_iter")], default=-1)
                rechecks = [x for x in evs[last_loop + 1 : i] if x.kind == "cond" and re.search(r"stopped_event\.is_set\(\)|should_keep_running\(\)", x.text)]
                good = any((("is_set" in x.text) and x.extra.get("truth") is False) or (("should_keep_running" in x.text) and x.extra.get("truth") is True) for x in rechecks)
                if not good:
                    okw = False
    ctx.check(okw and ncall >= 1, RW, "ProcessWatcher.run", "the termination callback is called without re-checking the stop flag after the polling loop: a watcher that was told to stop while the child was being killed restarts the process once more (two children, leaked watcher)", W.methods["run"].loc)

    RWX = ctx.rule(
        "C18/watcher-reports-exactly-the-exit",
        "ProcessWatcher.run reaches the termination callback only after `poll() is None` was decided false (the child has exited), and "
        "leaves without calling it only when the stop event was observed set (or no callback was given)",
        floor=2,
    )
    ok_exit, ok_quiet, nquiet, msgx = True, True, 0, ""
    for p in wp:
        flat = p.evs  # top level: the last iteration of the polling loop is spliced in after the loop's summary
        calls = [i for i, e in enumerate(flat) if e.kind == "call" and e.extra.get("func") == "self.process_termination_callback"]
        if calls:
            polls = [e for e in flat[: calls[0]] if e.kind == "cond" and re.fullmatch(r"self\.popen_obj\.poll\(\) is None|self\.popen_obj\.poll\(\) is not None", e.text)]
            exited = bool(polls) and ((polls[-1].text.endswith("is None") and polls[-1].extra.get("truth") is False) or (polls[-1].text.endswith("is not None") and polls[-1].extra.get("truth") is True))
            if not exited:
                ok_exit, msgx = False, "the callback is reached on a path where the child was last seen alive (or never polled): the trick restarts a running child over and over"
        elif p.outcome is NORMAL or p.outcome[0] == "return":
            nquiet += 1
            c = [(e.text, e.extra.get("truth")) for e in flat if e.kind == "cond"]
            stopped = any((".stopped_event.wait(" in t and v is True) or (t.endswith("stopped_event.is_set()") and v is True) or ("should_keep_running" in t and v is False) or (t == "self.process_termination_callback" and v is False) for t, v in c)
            if not stopped:
                ok_quiet, msgx = False, "the watcher leaves without calling the callback although nobody asked it to stop: the child's exit is never reported, restart_on_command_exit silently stops working"
    ctx.check(ok_exit and ncall >= 1, RWX, "ProcessWatcher.run callback only after the child exited", msgx, W.methods["run"].loc)
    ctx.check(ok_quiet and nquiet >= 1, RWX, "ProcessWatcher.run silent exit only when stopped", msgx or "no silent exit path found", W.methods["run"].loc)

    trick_contracts(ctx, P)
    from ..flow import check_attrs_initialised

    check_attrs_initialised(ctx, RS, P, ["EventDebouncer", "ProcessWatcher", "AutoRestartTrick", "ShellCommandTrick"], "the trick / its helper thread fails at that point: the child is not restarted, or stop() raises half-way and leaves the child running")

    # ---------------------------------------------------------------- ShellCommandTrick
    S = P.cls("ShellCommandTrick")
    cfg3 = ThreadCfg(P, follow_attrs=False, no_inline={"join", "start", "is_process_running"})
    cfg3.havoc_on_acquire = False
    sp = Enumerator(cfg3).run(S.methods["on_any_event"], selfcls="ShellCommandTrick")
    okd = okwf = True
    nsp = 0
    for p in sp:
        c = p.conds()
        spawn = [e for e in p.evs if e.kind == "call" and e.extra.get("func") == "subprocess.Popen"]
        if not spawn:
            continue
        nsp += 1
        drop = c.get("self.drop_during_process")
        running = c.get("self.is_process_running()")
        if drop is None or (drop is True and running is not False):
            okd = False
        w = c.get("self.wait_for_process")
        waits = [e for e in p.evs if e.kind == "call" and e.extra.get("func") == "self.process.wait"]
        if w is True and not waits:
            okwf = False
    ctx.check(okd and nsp > 0, RO, "ShellCommandTrick drop_during_process dominates the spawn", "a command is spawned while another is running although drop_during_process is set", S.methods["on_any_event"].loc)
    ctx.check(okwf and nsp > 0, RO, "ShellCommandTrick wait_for_process waits", "wait_for_process does not wait for the command", S.methods["on_any_event"].loc)
    ctx.assumptions += ["threading.Condition / RLock semantics", "subprocess.Popen spawns exactly one child"]


DB = "utils/event_debouncer.py"
TR = "tricks/__init__.py"
PW = "utils/process_watcher.py"
VARIANTS = [
    dict(name="B stopping lock never created", expect="fire", rule="C18/", edits=[("tricks/__init__.py", "        self._stopping_lock = threading.RLock()\n", "")]),
    dict(name="B debouncer created but never started", expect="fire", rule="C18/restart-sequencing", edits=[("tricks/__init__.py", "            self.event_debouncer.start()\n", "            pass\n")]),
    dict(name="B debouncer only without an interval", expect="fire", rule="C18/restart-sequencing", edits=[("tricks/__init__.py", "        if self.debounce_interval_seconds:\n            self.event_debouncer = EventDebouncer(", "        if not self.debounce_interval_seconds:\n            self.event_debouncer = EventDebouncer(")]),
    dict(name="B restarts only on opened events", expect="fire", rule="C18/restart-sequencing", edits=[("tricks/__init__.py", "    @echo_events\n    def on_any_event(self, event: FileSystemEvent) -> None:\n        if event.event_type in {EVENT_TYPE_OPENED, EVENT_TYPE_CLOSED_NO_WRITE}:\n            # FIXME: see issue #949, and find a way to better handle that scenario\n            return\n\n        if self.event_debouncer", "    @echo_events\n    def on_any_event(self, event: FileSystemEvent) -> None:\n        if event.event_type not in {EVENT_TYPE_OPENED, EVENT_TYPE_CLOSED_NO_WRITE}:\n            return\n\n        if self.event_debouncer")]),
    dict(name="B event not handed to the debouncer", expect="fire", rule="C18/restart-sequencing", edits=[("tricks/__init__.py", "            self.event_debouncer.handle_event(event)\n", "            pass\n")]),
    dict(name="B direct restart dropped", expect="fire", rule="C18/restart-sequencing", edits=[("tricks/__init__.py", "        else:\n            self._restart_process()\n", "        else:\n            pass\n")]),
    dict(name="B restart does not stop the old child", expect="fire", rule="C18/restart-sequencing", edits=[("tricks/__init__.py", "        self._stop_process()\n        self._start_process()\n        self.restart_count += 1", "        self._start_process()\n        self.restart_count += 1")]),
    dict(name="B restart starts before it stops", expect="fire", rule="C18/restart-sequencing", edits=[("tricks/__init__.py", "        self._stop_process()\n        self._start_process()\n        self.restart_count += 1", "        self._start_process()\n        self._stop_process()\n        self.restart_count += 1")]),
    dict(name="B restart does not start a new child", expect="fire", rule="C18/restart-sequencing", edits=[("tricks/__init__.py", "        self._stop_process()\n        self._start_process()\n        self.restart_count += 1", "        self._stop_process()\n        self.restart_count += 1")]),
    dict(name="B restart proceeds only while stopping", expect="fire", rule="C18/restart-sequencing", edits=[("tricks/__init__.py", "    def _restart_process(self) -> None:\n        if self._is_trick_stopping:\n            return", "    def _restart_process(self) -> None:\n        if not self._is_trick_stopping:\n            return")]),
    dict(name="B child spawned only while stopping", expect="fire", rule="C18/", edits=[("tricks/__init__.py", "    def _start_process(self) -> None:\n        if self._is_trick_stopping:\n            return", "    def _start_process(self) -> None:\n        if not self._is_trick_stopping:\n            return")]),
    dict(name="B watcher only when restart_on_command_exit is off", expect="fire", rule="C18/restart-sequencing", edits=[("tricks/__init__.py", "        if self.restart_on_command_exit:\n            self.process_watcher = ProcessWatcher(", "        if not self.restart_on_command_exit:\n            self.process_watcher = ProcessWatcher(")]),
    dict(name="B watcher arguments swapped", expect="fire", rule="C18/restart-sequencing", edits=[("tricks/__init__.py", "ProcessWatcher(self.process, self._restart_process)", "ProcessWatcher(self._restart_process, self.process)")]),
    dict(name="B watcher never started", expect="fire", rule="C18/restart-sequencing", edits=[("tricks/__init__.py", "            self.process_watcher.start()\n\n    def _stop_process", "            pass\n\n    def _stop_process")]),
    dict(name="B signal 9 never sent", expect="fire", rule="C18/stop-kills-the-child", edits=[("tricks/__init__.py", "                        with contextlib.suppress(OSError):\n                            kill_process(self.process.pid, 9)", "                        pass")]),
    dict(name="B polling loop leaves while the child runs", expect="fire", rule="C18/stop-kills-the-child", edits=[("tricks/__init__.py", "                        if self.process.poll() is not None:\n                            break", "                        if self.process.poll() is None:\n                            break")]),
    dict(name="B failing signal 9 escapes", expect="fire", rule="C18/stop-kills-the-child", edits=[("tricks/__init__.py", "                        with contextlib.suppress(OSError):\n                            kill_process(self.process.pid, 9)", "                        kill_process(self.process.pid, 9)")]),
    dict(name="B stop signal and pid swapped", expect="fire", rule="C18/stop-kills-the-child", edits=[("tricks/__init__.py", "kill_process(self.process.pid, self.stop_signal)", "kill_process(self.stop_signal, self.process.pid)")]),
    dict(name="B process field not cleared", expect="fire", rule="C18/stop-kills-the-child", edits=[("tricks/__init__.py", "                            kill_process(self.process.pid, 9)\n                self.process = None", "                            kill_process(self.process.pid, 9)")]),
    dict(name="B kill_process signals only the leader", expect="fire", rule="C18/stop-kills-the-child", edits=[("tricks/__init__.py", "        os.killpg(os.getpgid(pid), stop_signal)", "        os.kill(stop_signal, pid)")]),
    dict(name="B shell trick: running predicate always false", expect="fire", rule="C18/shell-running-predicate", edits=[("tricks/__init__.py", "        return bool(self._process_watchers or (self.process is not None and self.process.poll() is None))", "        return False")]),
    dict(name="B shell trick: running predicate ignores the last process", expect="fire", rule="C18/shell-running-predicate", edits=[("tricks/__init__.py", "        return bool(self._process_watchers or (self.process is not None and self.process.poll() is None))", "        return bool(self._process_watchers)")]),
    dict(name="B shell trick: poll polarity flipped", expect="fire", rule="C18/shell-running-predicate", edits=[("tricks/__init__.py", "self.process is not None and self.process.poll() is None))", "self.process is not None and self.process.poll() is not None))")]),
    dict(name="E restart written with an early-out helper variable", expect="silent", edits=[("tricks/__init__.py", "    def _restart_process(self) -> None:\n        if self._is_trick_stopping:\n            return\n        self._stop_process()", "    def _restart_process(self) -> None:\n        stopping = self._is_trick_stopping\n        if stopping:\n            return\n        self._stop_process()")]),
    dict(name="E shell trick: running predicate as if-chain", expect="silent", edits=[("tricks/__init__.py", "        return bool(self._process_watchers or (self.process is not None and self.process.poll() is None))", "        if self._process_watchers:\n            return True\n        if self.process is None:\n            return False\n        return self.process.poll() is None")]),
    dict(name="B stop() does not join the process watcher", expect="fire", rule="C18/stop-must-effects", edits=[("tricks/__init__.py", "        if process_watcher is not None:\n            process_watcher.join()\n", "        if process_watcher is not None:\n            pass\n")]),
    dict(name="B stop() joins the watcher only when there is none", expect="fire", rule="C18/", edits=[("tricks/__init__.py", "        if process_watcher is not None:\n            process_watcher.join()\n", "        if process_watcher is None:\n            process_watcher.join()\n")]),
    dict(name="B watcher polls with the wrong polarity", expect="fire", rule="C18/watcher-reports-exactly-the-exit", edits=[("utils/process_watcher.py", "while self.popen_obj.poll() is None:", "while self.popen_obj.poll() is not None:")]),
    dict(name="B watcher gives up at the first poll interval", expect="fire", rule="C18/watcher-reports-exactly-the-exit", edits=[("utils/process_watcher.py", "if self.stopped_event.wait(timeout=0.1):", "if not self.stopped_event.wait(timeout=0.1):")]),
    dict(name="E watcher polls in break form", expect="silent", edits=[("utils/process_watcher.py", "        while self.popen_obj.poll() is None:\n            if self.stopped_event.wait(timeout=0.1):\n                return\n", "        while True:\n            if self.popen_obj.poll() is not None:\n                break\n            if self.stopped_event.wait(timeout=0.1):\n                return\n")]),
    dict(name="B first-event wait polarity negated", expect="fire", rule="C18/", edits=[(DB, "while not self._events and self.should_keep_running():", "while not (not self._events and self.should_keep_running()):")]),
    dict(name="B debounce wait skipped when an interval is set", expect="fire", rule="C18/debounce-quiescence", edits=[(DB, "                if self.debounce_interval_seconds:\n", "                if not self.debounce_interval_seconds:\n")]),
    dict(name="B batch handed over when notified instead of when timed out", expect="fire", rule="C18/debounce-quiescence", edits=[(DB, "if not self._cond.wait(timeout=self.debounce_interval_seconds):", "if self._cond.wait(timeout=self.debounce_interval_seconds):")]),
    dict(name="B debounce loop without the time-out exit", expect="fire", rule="C18/debounce-quiescence", edits=[(DB, "                        if not self._cond.wait(timeout=self.debounce_interval_seconds):\n                            break\n", "                        self._cond.wait(timeout=self.debounce_interval_seconds)\n")]),
    dict(name="B debounce block before the wait for the first event", expect="fire", rule="C18/debounce-quiescence", edits=[(DB, "                while not self._events and self.should_keep_running():\n                    self._cond.wait()\n\n                if self.debounce_interval_seconds:\n                    # Wait for additional events (or shutdown) until the debounce interval passes.\n                    while self.should_keep_running():\n                        if not self._cond.wait(timeout=self.debounce_interval_seconds):\n                            break\n", "                if self.debounce_interval_seconds:\n                    while self.should_keep_running():\n                        if not self._cond.wait(timeout=self.debounce_interval_seconds):\n                            break\n\n                while not self._events and self.should_keep_running():\n                    self._cond.wait()\n")]),
    dict(name="B fixed one-second debounce", expect="fire", rule="C18/debounce-quiescence", edits=[(DB, "if not self._cond.wait(timeout=self.debounce_interval_seconds):", "if not self._cond.wait(timeout=1):")]),
    dict(name="E time-out result in a local", expect="silent", edits=[(DB, "                        if not self._cond.wait(timeout=self.debounce_interval_seconds):\n                            break\n", "                        notified = self._cond.wait(timeout=self.debounce_interval_seconds)\n                        if not notified:\n                            break\n")]),
    dict(name="B callback runs with the condition released", expect="fire", rule="C18/in-flight-callback-excludes-stop", edits=[(DB, "                self._events = []\n                self.events_callback(events)", "                self._events = []\n                self._cond.release()\n                try:\n                    self.events_callback(events)\n                finally:\n                    self._cond.acquire()")]),
    dict(name="B trick stops the child before the debouncer", expect="fire", rule="C18/in-flight-callback-excludes-stop", edits=[("tricks/__init__.py", "        if self.event_debouncer is not None:\n            self.event_debouncer.stop()\n        self._stop_process()\n", "        self._stop_process()\n        if self.event_debouncer is not None:\n            self.event_debouncer.stop()\n")]),
    dict(name="E callback outside the condition, spawn re-validated under the stopping lock", expect="silent", edits=[(DB, "                self._events = []\n                self.events_callback(events)", "                self._events = []\n                self._cond.release()\n                try:\n                    self.events_callback(events)\n                finally:\n                    self._cond.acquire()"), ("tricks/__init__.py", "        if self._is_trick_stopping:\n            return\n\n        # windows doesn't have setsid\n        self.process = subprocess.Popen(self.command, preexec_fn=getattr(os, \"setsid\", None))\n", "        with self._stopping_lock:\n            if self._is_trick_stopping:\n                return\n            # windows doesn't have setsid\n            self.process = subprocess.Popen(self.command, preexec_fn=getattr(os, \"setsid\", None))\n")]),
    dict(name="B debouncer waits without predicate (pre-fix)", expect="fire", rule="C18/monitor-discipline", edits=[(DB, "                while not self._events and self.should_keep_running():\n                    self._cond.wait()", "                self._cond.wait()")]),
    dict(name="B batch not reset", expect="fire", rule="C18/batch-handover", edits=[(DB, "                events = self._events\n                self._events = []\n                self.events_callback(events)", "                events = self._events\n                self.events_callback(events)")]),
    dict(name="B callback after stop", expect="fire", rule="C18/batch-handover", edits=[(DB, "                if not self.should_keep_running():\n                    break\n\n                events = self._events", "                events = self._events")]),
    dict(name="B handle_event without the condition", expect="fire", rule="C18/", edits=[(DB, "        with self._cond:\n            self._events.append(event)\n            self._cond.notify()", "        self._events.append(event)\n        with self._cond:\n            self._cond.notify()")]),
    dict(name="B stopping flag set outside the lock", expect="fire", rule="C18/flags-test-and-set", edits=[(TR, "        with self._stopping_lock:\n            if self._is_trick_stopping:\n                return\n            self._is_trick_stopping = True\n", "        with self._stopping_lock:\n            if self._is_trick_stopping:\n                return\n        self._is_trick_stopping = True\n")]),
    dict(name="B stop does not join the debouncer", expect="fire", rule="C18/stop-must-effects", edits=[(TR, "        if self.event_debouncer is not None:\n            self.event_debouncer.join()\n", "")]),
    dict(name="B stop does not stop the child", expect="fire", rule="C18/stop-must-effects", edits=[(TR, "            self.event_debouncer.stop()\n        self._stop_process()\n", "            self.event_debouncer.stop()\n")]),
    dict(name="B watcher callback without re-check", expect="fire", rule="C18/watcher-recheck", edits=[(PW, "            if not self.stopped_event.is_set() and self.process_termination_callback:", "            if self.process_termination_callback:")]),
    dict(name="B drop option ignored", expect="fire", rule="C18/shell-options", edits=[(TR, "        if self.drop_during_process and self.is_process_running():\n            return\n", "")]),
    dict(name="B in-progress flag never cleared", expect="fire", rule="C18/stop-must-effects", edits=[(TR, "        finally:\n            self._is_process_stopping = False", "        finally:\n            pass")]),
    dict(name="E should_keep_running spelled via the event", expect="silent", edits=[(PW, "            if not self.stopped_event.is_set() and self.process_termination_callback:", "            if self.should_keep_running() and self.process_termination_callback:")]),
    dict(name="E swap via tuple assignment", expect="silent", edits=[(DB, "                events = self._events\n                self._events = []\n", "                events, self._events = self._events, []\n")]),
]


def thorough(ctx):
    from ..selftest import thorough as st

    return st(ctx, VARIANTS)
