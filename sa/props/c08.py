"""C08 — a rename arrives as one paired move; no native event is lost or duplicated.

Decided: every native record is placed exactly once by the grouping code (alone, or as the second half of a pair whose
first half is *removed from where it was*); every grouped element reaches exactly one put (watch-removed markers aside);
only an unmatched MOVED_FROM is delayed; the partner predicate requires non-tuple, MOVED_FROM and cookie equality.
Not decided: "whenever the second half arrives before the delay has elapsed" (clock values) — see C17 for the queue.
"""

from __future__ import annotations

import ast
import itertools
import re

from ..model import AnalysisError
from ..pse import NORMAL, Enumerator, render
from ..reader import find_loops
from ..threads import ThreadCfg

LEVEL_TEXT = (
    "Static analysis. Path enumeration of InotifyBuffer._group_events (per-record loop, in-batch partner search as for/else with "
    "break, the closure predicate inlined) and of the hand-over loop in InotifyBuffer.run; counting rules on placements and puts "
    "per path; truth-table evaluation of the delay argument and of the partner predicate over their atoms."
)


class HelperCfg(ThreadCfg):
    """Module-level helper functions of the module under analysis are followed too (a partner predicate moved out of the method
    and bound with functools.partial is still the predicate)."""

    def inline(self, call, ft, rc, st):
        got = super().inline(call, ft, rc, st)
        if got:
            return got
        if isinstance(call.func, ast.Name) and st.module is not None and call.func.id in getattr(st.module, "functions", {}) and call.func.id not in st.env and call.func.id not in self.no_inline:
            fi = st.module.functions[call.func.id]
            if not any(isinstance(n, (ast.Yield, ast.YieldFrom)) for n in ast.walk(fi.node)):
                return fi, st.selfcls, None
        return None


class BufCfg(HelperCfg):
    IN = "event_list"  # set from the source in run(): first parameter of _group_events
    OUT = "grouped"  # the list _group_events returns

    def loop_elem(self, node, iter_term, st):
        t = ast.unparse(iter_term)
        if t == self.IN:
            return ast.Name("REC", ast.Load())
        if t.startswith("enumerate(") and re.search(rf"\b{re.escape(self.OUT)}\b", t):
            return ast.Tuple([ast.Name("IDX", ast.Load()), ast.Name("OLD", ast.Load())], ast.Load())
        if "_group_events(" in t:
            return ast.Name("G", ast.Load())
        return None


def eval_bool(t: ast.expr, env: dict[str, bool]):
    if isinstance(t, ast.BoolOp):
        vals = [eval_bool(v, env) for v in t.values]
        return all(vals) if isinstance(t.op, ast.And) else any(vals)
    if isinstance(t, ast.UnaryOp) and isinstance(t.op, ast.Not):
        return not eval_bool(t.operand, env)
    if isinstance(t, ast.Constant):
        return bool(t.value)
    key = render(t)
    if key not in env:
        raise KeyError(key)
    return env[key]


def atoms_of(t: ast.expr) -> list[str]:
    if isinstance(t, ast.BoolOp):
        out = []
        for v in t.values:
            out += atoms_of(v)
        return out
    if isinstance(t, ast.UnaryOp) and isinstance(t.op, ast.Not):
        return atoms_of(t.operand)
    if isinstance(t, ast.Constant):
        return []
    return [render(t)]


def reader_hands_every_record_on(ctx, RULE, P) -> None:
    """One layer below the buffer: on every path of the per-record loop of Inotify.read_events that goes on to the next record
    (normally or by `continue`) the record just decoded is added to the returned list exactly once -- also on the paths that absorb
    a failed add-watch.  Overflow records (wd == -1) carry no event and are skipped."""
    from ..model import returned_name
    from ..reader import flag_kind, record_paths

    rf = P.find_method("Inotify", "read_events")
    if rf is None or returned_name(rf.node) is None:
        raise AnalysisError("read_events: returned list not identified")
    out = returned_name(rf.node)
    bp, _L, fi, _all = record_paths(P, fault=True, key_errors=False)
    per_kind: dict[str, list] = {}
    for p in bp:
        if p.outcome is not NORMAL and p.outcome[0] != "continue":
            continue
        c_ = p.conds()
        # no watch for the record: the overflow marker (wd == -1), or a descriptor the map does not know (the kernel reports none:
        # tabled in C07) -- there is no path to build an event with
        if c_.get("wd == -1") is True or c_.get("self._path_for_wd.get(wd) is None") is True or c_.get("wd in self._path_for_wd") is False:
            continue
        n = 0
        for e in p.evs:
            if e.kind == "call" and e.extra.get("func") in (out + ".append", out + ".extend", out + ".insert"):
                t = e.extra.get("term")
                for a in ast.walk(t) if t is not None else ():
                    if isinstance(a, ast.Call) and isinstance(a.func, ast.Name) and a.func.id == "InotifyEvent" and [render(x) for x in a.args[:4]] == ["wd", "mask", "cookie", "name"]:
                        n += 1
        per_kind.setdefault(flag_kind(p), []).append((n, p))
    if not per_kind:
        raise AnalysisError("read_events: no per-record path goes on to the next record")
    for kind, lst in sorted(per_kind.items()):
        bad = [(n, p) for n, p in lst if n != 1]
        ctx.check(
            not bad,
            RULE,
            f"read_events kind={kind}: the record is added to `{out}` exactly once on each of {len(lst)} path(s)",
            bad and f"on a path that goes on to the next record [{bad[0][1].sig()[-160:]}] the record is added {bad[0][0]} time(s): a notification read from the kernel is {'lost before the buffer sees it (its partner half then waits out the delay alone)' if bad[0][0] == 0 else 'handed on more than once'}" or "",
            fi.loc,
        )


def run(ctx) -> None:
    P = ctx.P
    RRD = ctx.rule("C08/reader-hands-every-record-on", "on every path of the per-record loop of Inotify.read_events that goes on to the next record, the record just decoded is added to the returned list exactly once (overflow records excepted), also where a failed add-watch is absorbed", floor=4)
    reader_hands_every_record_on(ctx, RRD, P)
    RP = ctx.rule("C08/placed-exactly-once", "on every path of the grouping loop the current record is placed in the output exactly once: alone, or as second half of a pair whose first half is replaced in place at its index or pulled out of the delay queue", floor=4)
    RQ = ctx.rule("C08/put-exactly-once", "every grouped element reaches exactly one put on the delay queue, except watch-removed markers; the delay flag is true exactly for a non-tuple MOVED_FROM", floor=4)
    RM = ctx.rule("C08/partner-predicate", "the predicate handed to the queue search accepts exactly a non-tuple MOVED_FROM whose cookie equals the current record's (the in-batch search is decided per path under placed-exactly-once)", floor=1)
    RV = ctx.rule("C08/partner-removal-is-final", "an element pulled out of the delay queue by remove() is never also returned by get(): get() re-validates the head by identity under the lock before popping; remove() deletes under the lock, in the critical section in which it found the element in the live deque (instances shared with C17)", floor=2)
    RO = ctx.rule("C08/order", "grouping and hand-over iterate their inputs in order and append at the end", floor=2)

    cfg = BufCfg(P, follow_attrs=False, no_inline={"read_events", "put", "remove", "should_keep_running", "_group_events", "debug"})
    gf = P.find_method("InotifyBuffer", "_group_events")
    rf = P.find_method("InotifyBuffer", "run")
    if gf is None or rf is None:
        raise AnalysisError("anchor vanished: InotifyBuffer._group_events / run")
    from ..model import returned_name

    IN = [a.arg for a in gf.node.args.args][1] if len(gf.node.args.args) > 1 else None
    OUT = returned_name(gf.node)
    if IN is None or OUT is None:
        raise AnalysisError("_group_events: input parameter / returned list not identified")
    cfg.IN, cfg.OUT = IN, OUT
    gpaths = Enumerator(cfg).run(gf, selfcls="InotifyBuffer")
    loops = find_loops(gpaths, lambda e: e.text == IN)
    if len(loops) != 1:
        raise AnalysisError("anchor vanished: loop over event_list in _group_events")
    body = loops[0].extra["paths"]
    ctx.count("group_paths", len(body))
    # the function returns the list it filled
    ctx.check(all(p.outcome[0] == "return" and ast.unparse(p.outcome[1]) == OUT for p in gpaths), RO, "_group_events returns the grouped list", "does not return the list it filled", gf.loc)
    # ---------------------------------------------------------------- the predicate handed to the queue search
    # Whatever callable remove() receives -- a closure of _group_events, a lambda, possibly delegating to a helper method -- is
    # enumerated as a function of its own (helpers inlined, `return E` branched on E) and decided as a truth table over the
    # three atoms; the cookie it compares with must be the current record's.
    from ..flow import origins
    from ..model import FuncInfo, boolified

    closures = {n.name: n for n in ast.walk(gf.node) if isinstance(n, ast.FunctionDef) and n is not gf.node}
    rec_names = {n.target.id for n in ast.walk(gf.node) if isinstance(n, ast.For) and isinstance(n.target, ast.Name) and ast.unparse(n.iter) == IN}
    rec_cookie = {f"{r}.cookie" for r in rec_names} | {"REC.cookie"}

    def is_rec_cookie(txt: str) -> bool:
        if txt in rec_cookie:
            return True
        if txt.isidentifier():
            return all(b in rec_cookie and not w for b, w in origins(gf.node, ast.Name(txt, ast.Load())))
        return False


    def predicate_ok(node, label, where):
        """Truth table of a one-argument callable (FunctionDef): accepts exactly a non-tuple MOVED_FROM with the record's cookie."""
        params = [a.arg for a in node.args.args]
        if len(params) != 1:
            ctx.viol(RM, f"partner predicate takes the queued element ({label})", f"predicate takes {params}", where)
            return False
        q = params[0]
        fi_ = boolified(FuncInfo(node.name, f"{gf.qualname}.<locals>.{node.name}", node, gf.module, None))
        ok, why, ntrue = True, "", 0
        for p in Enumerator(HelperCfg(P, follow_attrs=False)).run(fi_, selfcls="InotifyBuffer"):
            if p.outcome[0] != "return" or not isinstance(p.outcome[1], ast.Constant):
                ok, why = False, f"does not return a truth value on [{p.sig()[:60]}]"
                continue
            c = p.conds()
            tup = c.get(f"isinstance({q}, tuple)")
            mf = c.get(f"{q}.is_moved_from")
            ck, other = None, None
            for a, v in c.items():
                m = re.fullmatch(rf"{re.escape(q)}\.cookie == (.+)|(.+) == {re.escape(q)}\.cookie", a)
                if m:
                    ck, other = v, (m.group(1) or m.group(2))
            extra = [a for a in c if a not in (f"isinstance({q}, tuple)", f"{q}.is_moved_from") and not (other and other in a and ".cookie" in a)]
            res = bool(p.outcome[1].value)
            if res:
                ntrue += 1
                if not (tup is False and mf is True and ck is True and is_rec_cookie(other or "")):
                    ok, why = False, f"accepts an element with tuple={tup}, is_moved_from={mf}, cookie-equal={ck} (compared with `{other}`)"
            else:
                if not (tup is True or mf is False or ck is False or any(c.get(a) is not None for a in extra)):
                    ok, why = False, "rejects an element although it is a non-tuple MOVED_FROM with the record's cookie"
                if tup is False and mf is True and ck is True:
                    ok, why = False, "rejects the partner itself"
        ctx.check(ok and ntrue >= 1, RM, f"partner predicate {label}", why or "the predicate never accepts anything", where)
        return ok and ntrue >= 1

    def as_funcdef(arg):
        """FunctionDef for a closure name, a lambda, or functools.partial(f, bound...) over a helper whose remaining parameter is the element."""
        if isinstance(arg, ast.Name) and arg.id in closures:
            return closures[arg.id]
        if isinstance(arg, ast.Lambda):
            node = ast.FunctionDef(name="_partner_predicate", args=arg.args, body=[ast.Return(arg.body)], decorator_list=[], returns=None, type_comment=None, type_params=[])
            ast.copy_location(node, arg)
            return ast.fix_missing_locations(node)
        if isinstance(arg, ast.Call) and ast.unparse(arg.func) in ("functools.partial", "partial") and arg.args:
            # partial(f, a1, ..) == lambda x: f(a1, .., x)
            call = ast.Call(arg.args[0], list(arg.args[1:]) + [ast.Name("queued__", ast.Load())], list(arg.keywords))
            node = ast.FunctionDef(name="_partner_predicate", args=ast.arguments(posonlyargs=[], args=[ast.arg("queued__")], kwonlyargs=[], kw_defaults=[], defaults=[]), body=[ast.Return(call)], decorator_list=[], returns=None, type_comment=None, type_params=[])
            ast.copy_location(node, arg)
            return ast.fix_missing_locations(node)
        if isinstance(arg, ast.Name):
            # a local bound once to one of the forms above
            vals = [a.value for a in ast.walk(gf.node) if isinstance(a, ast.Assign) and len(a.targets) == 1 and isinstance(a.targets[0], ast.Name) and a.targets[0].id == arg.id]
            if len(vals) == 1 and not isinstance(vals[0], ast.Name):
                return as_funcdef(vals[0])
        return None
    pred_terms = []
    for p in body:
        c = p.conds()
        placements = []
        removes = [e for e in p.evs if e.kind == "call" and e.extra.get("func") == "self._queue.remove"]
        for e in p.evs:
            if e.kind == "call" and e.extra.get("func") == f"{OUT}.append":
                t = e.extra.get("term").args[0]
                placements.append(("append", t, e))
            elif e.kind == "setitem" and e.extra.get("container") == OUT:
                placements.append(("replace", e.extra.get("term"), e))
            elif e.kind == "call" and re.fullmatch(rf"{re.escape(OUT)}\.(insert|extend|appendleft)", e.extra.get("func", "")):
                placements.append(("other", None, e))
        # final iteration of the inner search (break) carries the in-place replacement
        desc = f"[{p.sig()[:110]}]"
        loc = f"{gf.module.relpath}:{(placements[0][2].line if placements else gf.node.lineno)}"
        ok, msg = True, ""
        if len(placements) != 1:
            ok, msg = False, f"the record is placed {len(placements)} times on this path (lost if 0, duplicated if >1)"
        else:
            how, t, e = placements[0]
            if how == "other":
                ok, msg = False, "record placed with an order-changing list operation"
            elif isinstance(t, ast.Tuple):
                if len(t.elts) != 2 or render(t.elts[1]) != "REC":
                    ok, msg = False, f"pair built as {render(t)}: the current record must be the second half"
                else:
                    first = render(t.elts[0])
                    if how == "replace":
                        pos = {"isinstance(OLD, tuple)": False, "OLD.is_moved_from": True, "OLD.cookie == REC.cookie": True}
                        bad = [a for a, want in pos.items() if c.get(a) is not want and c.get(a.replace("OLD.cookie == REC.cookie", "REC.cookie == OLD.cookie")) is not want]
                        if bad:
                            ok, msg = False, f"the in-batch element paired with the record does not satisfy the partner predicate on this path ({bad} not established): an unrelated event is swallowed into a pair"
                        key = e.extra.get("key") or ""
                        # the search may also be spelled  idx = next((i for i, x in enumerate(OUT) if PRED(x)), None)  /  if idx is not None: OUT[idx] = (OUT[idx], rec)
                        nm = re.fullmatch(rf"next\(\((\w+) for \1, (\w+) in enumerate\({re.escape(OUT)}\) if (.+)\), None\)", key)
                        if nm and first == f"{OUT}[{key}]" and c.get(f"{key} is None") is False:
                            try:
                                cond = ast.parse(nm.group(3), mode="eval").body
                            except SyntaxError:
                                cond = None
                            fnode = None
                            if isinstance(cond, ast.Call) and len(cond.args) == 1 and isinstance(cond.args[0], ast.Name) and cond.args[0].id == nm.group(2) and not cond.keywords:
                                fnode = as_funcdef(cond.func) if isinstance(cond.func, (ast.Name, ast.Lambda, ast.Call)) else None
                                if fnode is None and isinstance(cond.func, ast.Attribute):
                                    fnode = as_funcdef(ast.Lambda(ast.arguments(posonlyargs=[], args=[ast.arg("x__")], kwonlyargs=[], kw_defaults=[], defaults=[]), ast.Call(cond.func, [ast.Name("x__", ast.Load())], [])))
                            elif cond is not None:
                                fnode = as_funcdef(ast.Lambda(ast.arguments(posonlyargs=[], args=[ast.arg(nm.group(2))], kwonlyargs=[], kw_defaults=[], defaults=[]), cond))
                            good = fnode is not None and predicate_ok(fnode, f"of the in-batch search `{nm.group(3)[:50]}`", loc)
                            if good:
                                bad, ok, msg = [], True, ""
                            else:
                                ok, msg = False, "the in-batch search `next(... if P(x))` uses a predicate that is not the partner predicate"
                        elif first == f"{OUT}[{key}]" and any(t is True and a.endswith(f"({OUT}[{key}])") for a, t in c.items()):
                            # an index found by any other search (e.g. a counting while loop): what matters is that, on this path,
                            # the element at that index was tested positive with the partner predicate and is replaced at that index
                            atom = next(a for a, t in c.items() if t is True and a.endswith(f"({OUT}[{key}])"))
                            ftxt = atom[: -len(f"({OUT}[{key}])")]
                            try:
                                fexpr = ast.parse(ftxt, mode="eval").body
                            except SyntaxError:
                                fexpr = None
                            fnode = as_funcdef(fexpr) if fexpr is not None else None
                            if fnode is None and isinstance(fexpr, ast.Attribute):
                                fnode = as_funcdef(ast.Lambda(ast.arguments(posonlyargs=[], args=[ast.arg("x__")], kwonlyargs=[], kw_defaults=[], defaults=[]), ast.Call(fexpr, [ast.Name("x__", ast.Load())], [])))
                            if fnode is not None and predicate_ok(fnode, f"of the in-batch search `{ftxt[:50]}`", loc):
                                bad, ok, msg = [], True, ""
                            else:
                                ok, msg = False, f"the element replaced at `{key}` was tested with `{ftxt[:60]}`, which is not the partner predicate"
                        elif first == f"{OUT}[{key}]" and (key == "0" or re.fullmatch(r"\w+@(after)?L\d+", key)) and c.get(f"isinstance({first}, tuple)") is False and c.get(f"{first}.is_moved_from") is True and (c.get(f"{first}.cookie == REC.cookie") is True or c.get(f"REC.cookie == {first}.cookie") is True):
                            # the element at the index a forward search stopped at (a loop-carried counter, or 0 when the first element matched) was
                            # tested, on this path, with the (inlined) partner predicate
                            bad, ok, msg = [], True, ""
                        elif not (first == "OLD" and key == "IDX"):
                            ok, msg = False, f"in-batch partner {first} is not replaced in place at its own index ({e.extra.get('key')}): it would also be delivered alone"
                    else:
                        if not first.startswith("self._queue.remove("):
                            ok, msg = False, f"pair's first half `{first}` was not removed from where it was (it will be delivered again alone)"
                if c.get("REC.is_moved_to") is not True:
                    ok, msg = False, "a pair is built for a record that is not a MOVED_TO"
            else:
                if render(t) != "REC":
                    ok, msg = False, f"`{render(t)}` placed instead of the current record"
                if how == "replace":
                    ok, msg = False, "a non-pair overwrites an earlier element"
        if ok and removes and not any(how == "append" and isinstance(t, ast.Tuple) for how, t, e in placements):
            # a partner was pulled out of the queue only on the path that pairs it (a None result pulls nothing)
            res_none = any(t for a, t in c.items() if a.startswith("self._queue.remove(") and a.endswith(" is None"))
            if not res_none:
                ok, msg = False, "a partner is pulled out of the delay queue but not placed (lost)"
        ctx.check(ok, RP, f"_group_events {desc}", msg, loc)
        ctx.sample({"path": p.sig()[:100], "placement": [(h, render(t) if t is not None else None) for h, t, _ in placements]})
    rcalls = [n for n in ast.walk(gf.node) if isinstance(n, ast.Call) and ast.unparse(n.func) == "self._queue.remove"]
    if not rcalls:
        raise AnalysisError("anchor vanished: self._queue.remove(...) in _group_events")
    npred = 0
    for rc in rcalls:
        arg = rc.args[0] if rc.args else None
        where = f"{gf.module.relpath}:{rc.lineno}"
        node = as_funcdef(arg) if arg is not None else None
        if node is None:
            ctx.viol(RM, "remove() receives the partner predicate", f"self._queue.remove({ast.unparse(arg) if arg is not None else ''}) is not given a closure of _group_events, a lambda or a partial: what it searches for is not decidable here", where)
            continue
        npred += 1
        predicate_ok(node, f"handed to remove() `{ast.unparse(arg)[:60]}`", where)
    if npred == 0 and not any((not i.ok) and i.rule == RM for i in ctx.instances):
        raise AnalysisError("anchor vanished: partner predicate handed to DelayedQueue.remove")

    # ---------------------------------------------------------------- hand-over loop
    rpaths = Enumerator(cfg).run(rf, selfcls="InotifyBuffer")
    hl = find_loops(rpaths, lambda e: "_group_events(" in e.text)
    if not hl:
        raise AnalysisError("anchor vanished: hand-over loop in InotifyBuffer.run")
    H = hl[0]
    ctx.check(not re.match(r"(reversed|sorted)\(", H.text), RO, "hand-over iterates the grouped list in order", f"iterates `{H.text}`", rf.loc)
    hb = H.extra["paths"]
    ctx.count("handover_paths", len(hb))
    # every element of the batch is visited: no iteration leaves the loop (an `any(...)` over a generator of hand-overs leaves at the
    # first true result; so does a break after the root's marker)
    leaving = [p for p in hb if p.outcome == ("break",) or p.outcome[0] == "return"]
    ctx.check(
        not leaving,
        RQ,
        "hand-over visits every element of the batch",
        f"an iteration of the hand-over loop leaves it ({leaving[0].outcome[0] if leaving else ''} on [{leaving[0].sig()[:90] if leaving else ''}]): the grouped events after that element in the same read batch are never handed over (lost)",
        rf.loc,
    )
    for p in hb:
        c = p.conds()
        puts = [e for e in p.evs if e.kind == "call" and e.extra.get("func") == "self._queue.put"]
        is_tuple = c.get("isinstance(G, tuple)")
        ignored = c.get("G.is_ignored") is True and is_tuple is False
        desc = f"[{p.sig()[:110]}]"
        if ignored:
            ctx.check(len(puts) == 0, RQ, f"run marker {desc}", "a watch-removed marker is handed to the emitter", rf.loc, nontrivial=False)
            continue
        ok, msg = len(puts) == 1, f"{len(puts)} puts for one grouped element (lost if 0, duplicated if >1)"
        if ok:
            e = puts[0]
            if (e.extra.get("args") or [""])[0] != "G":
                ok, msg = False, f"`{(e.extra.get('args') or [''])[0]}` is enqueued instead of the grouped element"
            term = e.extra.get("term")
            d = next((k.value for k in term.keywords if k.arg == "delay"), None)
            if d is None and len(term.args) > 1:
                d = term.args[1]
            if d is None:
                # default delay=False: wrong only if this path is a non-tuple MOVED_FROM
                if is_tuple is False:
                    ok, msg = False, "no delay argument: an unmatched MOVED_FROM is delivered at once and can never be paired across batches"
            else:
                ats = sorted(set(atoms_of(d)))
                known = {"isinstance(G, tuple)", "G.is_moved_from"}
                if not set(ats) <= known:
                    ok, msg = False, f"delay depends on {ats}"
                else:
                    for vals in itertools.product([False, True], repeat=2):
                        env = {"isinstance(G, tuple)": vals[0], "G.is_moved_from": vals[1]}
                        if is_tuple is not None and env["isinstance(G, tuple)"] != is_tuple:
                            continue
                        try:
                            got = eval_bool(d, env)
                        except KeyError:
                            got = None
                        if got != ((not vals[0]) and vals[1]):
                            ok, msg = False, f"delay is `{render(d)}`: it must be true exactly for a non-tuple MOVED_FROM (a delayed non-move stalls the stream; an undelayed MOVED_FROM cannot be paired)"
        ctx.check(ok, RQ, f"run {desc}", msg, f"{rf.module.relpath}:{puts[0].line if puts else rf.node.lineno}")
    from .c17 import delay_elapsed, get_paths, revalidate_head

    qpaths, qci = get_paths(P)
    revalidate_head(ctx, RV, qpaths, qci)
    RDL = ctx.rule(
        "C08/first-half-waits-the-full-delay",
        "an unpaired MOVED_FROM is handed out by the delay queue only after a test, made after the last blocking operation, that its "
        "delay has elapsed (shared with C17): until then a MOVED_TO of a later read batch can still pull it out and pair it",
        floor=1,
    )
    delay_elapsed(ctx, RDL, P, qpaths, qci)
    RPS = ctx.rule(
        "C08/partner-search-is-exhaustive",
        "the partner search (DelayedQueue.remove) returns 'no partner' only after scanning every queued element, or on the strength of a "
        "counter that every critical section keeps in step with the deque's population",
        floor=1,
    )
    from .c17 import remove_is_exhaustive

    remove_is_exhaustive(ctx, RPS, P, qci, accept_shadow_counter=True)
    rm = qci.methods.get("remove")
    if rm is None:
        raise AnalysisError("anchor vanished: DelayedQueue.remove")
    from ..pse import walk_with_locks
    from ..threads import lock_aliases
    from .c17 import QCfg

    al = lock_aliases(P, "DelayedQueue")
    okl = True
    ndel = 0
    for e, held, p in walk_with_locks(Enumerator(QCfg(P)).run(rm), lambda t: al.get(t, t)):
        if (e.kind == "del" and e.extra.get("container") == "self._queue") or (e.kind == "call" and e.extra.get("func") == "self._queue.remove"):
            ndel += 1
            if held.get("self._lock", 0) <= 0:
                okl = False
    ctx.check(okl and ndel > 0, RV, "DelayedQueue.remove deletes under the lock", "remove() does not delete the partner under the queue lock", rm.loc)
    # ... and in the critical section in which it was found in the live deque: between a search and a later deletion get() may
    # hand the first half out alone, and the pair built from remove()'s result delivers it a second time
    from .c17 import deque_unbounded, search_and_delete_atomic

    okb, whyb, locb = deque_unbounded(P)
    ctx.check(okb, RQ, "the delay queue holds every element until it is handed out (unbounded deque)", whyb, locb)

    en17 = Enumerator(QCfg(P))
    search_and_delete_atomic(ctx, RV, {m: en17.run(fi, selfcls="DelayedQueue") for m, fi in qci.methods.items() if m != "__init__"}, qci)
    ctx.assumptions += ["tuples are only built by _group_events (checked: C08/placed-exactly-once)", "DelayedQueue semantics: C17"]


IB = "observers/inotify_buffer.py"
VARIANTS = [
    dict(name="B partner searched in a snapshot taken in an earlier critical section", expect="fire", rule="C08/partner-removal-is-final", edits=[("utils/delayed_queue.py", "        with self._lock:\n            for i, (elem, *_) in enumerate(self._queue):\n                if predicate(elem):\n                    del self._queue[i]\n                    return elem\n        return None", "        with self._lock:\n            entries = list(self._queue)\n        for entry in entries:\n            if predicate(entry[0]):\n                with self._lock:\n                    if entry in self._queue:\n                        self._queue.remove(entry)\n                return entry[0]\n        return None")]),
    dict(name="B partner search skipped on a counter that drifts (decremented before the head test)", expect="fire", rule="C08/partner-search-is-exhaustive", edits=[("utils/delayed_queue.py", "        self._closed = False\n", "        self._closed = False\n        self._delayed = 0\n"), ("utils/delayed_queue.py", "        self._queue.append((element, time.time(), delay))\n", "        self._queue.append((element, time.time(), delay))\n        self._delayed += delay\n"), ("utils/delayed_queue.py", "        with self._lock:\n            for i, (elem, *_) in enumerate(self._queue):\n                if predicate(elem):\n                    del self._queue[i]\n", "        with self._lock:\n            if not self._delayed:\n                return None\n            for i, (elem, _t, delayed) in enumerate(self._queue):\n                if predicate(elem):\n                    del self._queue[i]\n                    self._delayed -= delayed\n"), ("utils/delayed_queue.py", "            with self._lock:\n                if len(self._queue) > 0 and self._queue[0][0] is head:", "            with self._lock:\n                self._delayed -= delay\n                if len(self._queue) > 0 and self._queue[0][0] is head:")]),
    dict(name="E partner search skipped on a coherent counter", expect="silent", edits=[("utils/delayed_queue.py", "        self._closed = False\n", "        self._closed = False\n        self._delayed = 0\n"), ("utils/delayed_queue.py", "        self._queue.append((element, time.time(), delay))\n", "        self._queue.append((element, time.time(), delay))\n        self._delayed += delay\n"), ("utils/delayed_queue.py", "        with self._lock:\n            for i, (elem, *_) in enumerate(self._queue):\n                if predicate(elem):\n                    del self._queue[i]\n", "        with self._lock:\n            if not self._delayed:\n                return None\n            for i, (elem, _t, delayed) in enumerate(self._queue):\n                if predicate(elem):\n                    del self._queue[i]\n                    self._delayed -= delayed\n"), ("utils/delayed_queue.py", "                if len(self._queue) > 0 and self._queue[0][0] is head:\n                    self._queue.popleft()\n", "                if len(self._queue) > 0 and self._queue[0][0] is head:\n                    self._queue.popleft()\n                    self._delayed -= delay\n")]),
    dict(name="B single timed wait instead of the sleep loop", expect="fire", rule="C08/first-half-waits-the-full-delay", edits=[("utils/delayed_queue.py", "                while time_left > 0:\n                    time.sleep(time_left)\n                    time_left = insert_time + self.delay_sec - time.time()\n", "                if time_left > 0:\n                    time.sleep(time_left)\n")]),
    dict(name="B unmatched MOVED_TO dropped", expect="fire", rule="C08/placed-exactly-once", edits=[(IB, "                        logger.debug(\"could not find matching move_from event\")\n                        grouped.append(inotify_event)", "                        logger.debug(\"could not find matching move_from event\")")]),
    dict(name="B delay everything", expect="fire", rule="C08/put-exactly-once", edits=[(IB, "self._queue.put(inotify_event, delay=delay)", "self._queue.put(inotify_event, delay=True)")]),
    dict(name="B delay nothing", expect="fire", rule="C08/put-exactly-once", edits=[(IB, "self._queue.put(inotify_event, delay=delay)", "self._queue.put(inotify_event)")]),
    dict(name="E partner predicate as a static helper, queue search through a lambda", expect="silent", edits=[(IB, "            def matching_from_event(event: InotifyEvent | tuple[InotifyEvent, InotifyEvent]) -> bool:\n                return not isinstance(event, tuple) and event.is_moved_from and event.cookie == inotify_event.cookie\n\n", ""), (IB, "                    if matching_from_event(event):", "                    if self._is_from_half(event, inotify_event.cookie):"), (IB, "from_event = self._queue.remove(matching_from_event)", "cookie = inotify_event.cookie\n                    from_event = self._queue.remove(lambda queued: self._is_from_half(queued, cookie))"), (IB, "    def _group_events(self, event_list", "    @staticmethod\n    def _is_from_half(event, cookie) -> bool:\n        return not isinstance(event, tuple) and event.is_moved_from and event.cookie == cookie\n\n    def _group_events(self, event_list")]),
    dict(name="B queue search through a lambda that forgets the cookie", expect="fire", rule="C08/partner-predicate", edits=[(IB, "from_event = self._queue.remove(matching_from_event)", "from_event = self._queue.remove(lambda queued: not isinstance(queued, tuple) and queued.is_moved_from)")]),
    dict(name="B partner predicate without cookie", expect="fire", rule="C08/partner-predicate", edits=[(IB, "return not isinstance(event, tuple) and event.is_moved_from and event.cookie == inotify_event.cookie", "return not isinstance(event, tuple) and event.is_moved_from")]),
    dict(name="B partner predicate accepts tuples", expect="fire", rule="C08/partner-predicate", edits=[(IB, "return not isinstance(event, tuple) and event.is_moved_from and event.cookie == inotify_event.cookie", "return getattr(event, 'is_moved_from', False) and event.cookie == inotify_event.cookie")]),
    dict(name="B pairs with the first non-matching element", expect="fire", rule="C08/placed-exactly-once", edits=[(IB, "                    if matching_from_event(event):\n                        grouped[index]", "                    if not matching_from_event(event):\n                        grouped[index]")]),
    dict(name="B put twice", expect="fire", rule="C08/put-exactly-once", edits=[(IB, "                self._queue.put(inotify_event, delay=delay)\n", "                self._queue.put(inotify_event, delay=delay)\n                if delay:\n                    self._queue.put(inotify_event, delay=delay)\n")]),
    dict(name="B in-batch partner appended instead of replaced", expect="fire", rule="C08/placed-exactly-once", edits=[(IB, "                        grouped[index] = (event, inotify_event)  # type: ignore[assignment]", "                        grouped.append((event, inotify_event))  # type: ignore[arg-type]")]),
    dict(name="B pair halves swapped", expect="fire", rule="C08/placed-exactly-once", edits=[(IB, "grouped.append((from_event, inotify_event))", "grouped.append((inotify_event, from_event))")]),
    dict(name="B tuples delayed", expect="fire", rule="C08/put-exactly-once", edits=[(IB, "delay = not isinstance(inotify_event, tuple) and inotify_event.is_moved_from", "delay = isinstance(inotify_event, tuple) or inotify_event.is_moved_from")]),
    dict(name="E flatten nested if", expect="silent", edits=[(IB, "                    if from_event is not None:\n                        grouped.append((from_event, inotify_event))  # type: ignore[arg-type]\n                    else:\n                        logger.debug(\"could not find matching move_from event\")\n                        grouped.append(inotify_event)", "                    if from_event is None:\n                        logger.debug(\"could not find matching move_from event\")\n                        grouped.append(inotify_event)\n                        continue\n                    grouped.append((from_event, inotify_event))  # type: ignore[arg-type]")]),
    dict(name="E delay inlined", expect="silent", edits=[(IB, "                delay = not isinstance(inotify_event, tuple) and inotify_event.is_moved_from\n                self._queue.put(inotify_event, delay=delay)", "                self._queue.put(inotify_event, delay=not isinstance(inotify_event, tuple) and inotify_event.is_moved_from)")]),
]


def thorough(ctx):
    from ..selftest import thorough as st

    return st(ctx, VARIANTS)
