"""C15 — handlers call exactly the callbacks the event type and match rules dictate.

Decided: event-type <-> on_* exhaustiveness for every event class; dispatch shape of the base handler and the logging
overrides; routing of the matching handlers' options into the matcher; ignore-before-include; filter_paths structure.
Not decided: agreement with pathlib's matching, case folding of arbitrary strings.
"""

from __future__ import annotations

import ast
import re

from ..model import AnalysisError, dotted
from ..pse import NORMAL, Cfg, Enumerator

LEVEL_TEXT = (
    "Static analysis. Exhaustiveness: for each of the event classes read from events.py the event_type is resolved through the "
    "MRO and the constant table and matched against the on_* methods of FileSystemEventHandler (both directions); path enumeration "
    "of the three dispatch() methods, of filter_paths/_match_path/match_any_paths and of the regex handler's constructor for the "
    "routing and ordering rules."
)


def resolve_event_type(P, cname):
    got = P.class_attr(cname, "event_type")
    if not got:
        return None
    owner, e = got
    oc = P.classes[owner]
    v = P.fold(e, oc.module, oc)
    if v is None and isinstance(e, ast.Call):  # field(default="", init=False)
        for k in e.keywords:
            if k.arg == "default":
                v = P.fold(k.value, oc.module, oc)
    return v


def collected_items(evs, plist: str) -> list[str]:
    """What the list `plist` holds at the end of the path: the elements of the display it was bound to, then what was appended
    (the list may be started as `[x] if cond else []`, filled by append / extend / +=, in the handler or in a helper inlined into it)."""
    items: list[str] = []
    for e in evs:
        if e.kind == "assign" and e.extra.get("name") == plist:
            t = e.extra.get("term")
            if isinstance(t, (ast.List, ast.Tuple)):
                items = [ast.unparse(x) for x in t.elts]
            elif isinstance(t, ast.BinOp) and isinstance(t.op, ast.Add) and isinstance(t.right, (ast.List, ast.Tuple)) and ast.unparse(t.left) == plist:
                items = items + [ast.unparse(x) for x in t.right.elts]
        elif e.kind == "call" and e.extra.get("func") == f"{plist}.append":
            items.append((e.extra.get("args") or [""])[0])
        elif e.kind == "call" and e.extra.get("func") == f"{plist}.extend":
            t = e.extra.get("term")
            a0 = t.args[0] if isinstance(t, ast.Call) and t.args else None
            items += [ast.unparse(x) for x in a0.elts] if isinstance(a0, (ast.List, ast.Tuple)) else ["<extend>"]
        elif e.kind == "call" and e.extra.get("func") in (f"{plist}.insert", f"{plist}.pop", f"{plist}.remove", f"{plist}.clear"):
            items.append(f"<{e.extra.get('func')}>")
    return items


def collected_paths_problems(got, has_dest, has_src) -> list[str]:
    """Both event paths are collected for matching: dest under its presence test, src when non-empty, each once."""
    out = []
    apps = got
    for which, decided in (("dest", has_dest), ("src", has_src)):
        present = any(f"event.{which}_path" in g for g in got)
        if decided is None and not present:
            out.append(f"the event's {which}_path is never collected for matching")
        elif decided is not None and present != bool(decided):
            out.append(f"the event's {which}_path is collected on the wrong branch of its presence test")
    if len(apps) > 2:
        out.append(f"{len(apps)} paths collected for one event")
    for g in got:
        if not re.fullmatch(r"os\.fsdecode\(event\.(src|dest)_path\)", g):
            out.append(f"collected path `{g}` is not fsdecode of an event path")
    return out


def exists_predicates(P, module) -> dict[str, tuple[int, int]]:
    """Module-level functions f(A, B) that return true iff some element of A `.match`es some element of B: name -> (index of the
    regex-list parameter, index of the path-list parameter).  Decided on the function's own paths: every truthy return follows a
    positive `<elem of A>.match(<elem of B>)` test inside loops over the two parameters, every falsy return follows none."""
    out = {}
    for name, fi in module.functions.items():
        params = [a.arg for a in fi.node.args.args]
        if len(params) != 2 or not name.startswith("_"):
            continue
        rets = [n for n in ast.walk(fi.node) if isinstance(n, ast.Return)]
        if len(rets) == 1 and isinstance(rets[0].value, ast.Call) and ast.unparse(rets[0].value.func) == "any" and len(fi.node.body) <= 2:
            g = rets[0].value.args[0] if rets[0].value.args else None
            if isinstance(g, (ast.GeneratorExp, ast.ListComp)) and len(g.generators) == 2 and isinstance(g.elt, ast.Call) and isinstance(g.elt.func, ast.Attribute) and g.elt.func.attr == "match":
                its = [ast.unparse(x.iter) for x in g.generators]
                tg = [ast.unparse(x.target) for x in g.generators]
                if set(its) == set(params) and ast.unparse(g.elt.func.value) in tg and len(g.elt.args) == 1 and ast.unparse(g.elt.args[0]) in tg and not any(x.ifs for x in g.generators):
                    ri = params.index(its[tg.index(ast.unparse(g.elt.func.value))])
                    out[name] = (ri, 1 - ri)
            continue
        try:
            paths = Enumerator(Cfg(P)).run(fi)
        except AnalysisError:
            continue
        ok, roles, ntrue, nfalse = True, None, 0, 0
        for p in paths:
            if p.outcome[0] != "return" or not isinstance(p.outcome[1], ast.Constant) or not isinstance(p.outcome[1].value, bool):
                ok = False
                break
            pos = [e for e in p.flat() if e.kind == "cond" and e.extra.get("truth") is True and ".match(" in e.text]
            other = [e for e in p.flat() if e.kind == "cond" and ".match(" not in e.text]
            if other:
                ok = False
                break
            if p.outcome[1].value:
                ntrue += 1
                # the last decision on the path: <$elem(..A..)>.match(<$elem(..B..)>) is true
                top = [e for e in p.evs if e.kind == "cond"]
                last = top[-1] if top else None
                m = re.fullmatch(r"\$elem\((\w+)\)\.match\(\$elem\((\w+)\)\)", last.text) if last is not None and last.extra.get("truth") is True else None
                if not m or {m.group(1), m.group(2)} != set(params):
                    ok = False
                    break
                r = (params.index(m.group(1)), params.index(m.group(2)))
                if roles not in (None, r):
                    ok = False
                    break
                roles = r
            else:
                nfalse += 1
                if [e for e in p.evs if e.kind == "cond" and e.extra.get("truth") is True]:
                    ok = False
                    break
        if ok and roles and ntrue and nfalse:
            out[name] = roles
    return out


def run(ctx) -> None:
    P = ctx.P
    RT = ctx.rule("C15/type-exhaustive", "every concrete event class has a non-empty event_type for which FileSystemEventHandler defines on_<type>; every on_* callback corresponds to a class", floor=15)
    RD = ctx.rule("C15/dispatch-shape", "dispatch calls on_any_event(event) and then exactly one callback selected by event.event_type; logging overrides call the same-named super() method first", floor=8)
    RO = ctx.rule("C15/option-routing", "ignore-directories test first; both paths collected; constructor options reach the matcher's parameters unswapped; ignore before include; defaults only for None; conflict check precedes matching", floor=10)

    evm = P.module("watchdog.events")
    H = evm.classes.get("FileSystemEventHandler")
    if H is None:
        raise AnalysisError("anchor vanished: FileSystemEventHandler")
    callbacks = {m[3:] for m in H.methods if m.startswith("on_") and m != "on_any_event"}
    classes = [c for c in evm.classes if "." not in c and "FileSystemEvent" in P.mro(c)]
    concrete = [c for c in classes if not P.subclasses(c, strict=True)]
    abstract = [c for c in classes if c not in concrete]
    types_seen = set()
    for c in concrete:
        t = resolve_event_type(P, c)
        types_seen.add(t)
        ctx.check(isinstance(t, str) and t != "" and t in callbacks, RT, f"{c}.event_type={t!r}", f"{c} has event_type {t!r} but FileSystemEventHandler has no on_{t}: dispatch raises AttributeError in the dispatcher thread", evm.classes[c].loc)
        # is_directory flavour agrees with the name
        got = P.class_attr(c, "is_directory")
        isd = None
        if got:
            oc = P.classes[got[0]]
            isd = P.fold(got[1], oc.module, oc)
            if isd is None and isinstance(got[1], ast.Call):
                for k in got[1].keywords:
                    if k.arg == "default":
                        isd = P.fold(k.value, oc.module, oc)
        ctx.check(bool(isd) == c.startswith("Dir"), RT, f"{c}.is_directory={isd}", f"{c} has is_directory={isd}", evm.classes[c].loc)
    for cb in sorted(callbacks):
        ctx.check(cb in types_seen, RT, f"on_{cb} has a class", f"callback on_{cb} corresponds to no event class", H.loc)
    for a in abstract:
        ctx.tabled(f"C15/type-exhaustive {a}", "abstract base: never instantiated by the library (checked: no constructor call in src/watchdog)")
        n = 0
        for m in P.modules.values():
            for x in ast.walk(m.tree):
                if isinstance(x, ast.Call) and isinstance(x.func, ast.Name) and x.func.id == a:
                    n += 1
        ctx.check(n == 0, RT, f"{a} never instantiated", f"{n} constructor call(s) of abstract {a}", evm.classes[a].loc, nontrivial=False)

    evmod = P.module("watchdog.events")
    exists_preds = exists_predicates(P, evmod)
    ctx.extra["exists_predicates"] = {k: list(v) for k, v in exists_preds.items()}

    class HCfg(Cfg):
        """Module-level private helpers of watchdog.events are inlined, except the ones recognised as 'some regex of A matches
        some path of B' predicates: those stay opaque atoms `helper(A, B)` (their definition is checked once, below)."""

        def inline(self, call, func_text, recv_cls, st):
            if isinstance(call.func, ast.Name) and call.func.id.startswith("_") and call.func.id in evmod.functions and call.func.id not in exists_preds:
                return (evmod.functions[call.func.id], st.selfcls, None)
            # ... and, inside watchdog.utils.patterns, that module's own private helpers (case folding, the any-match test)
            if isinstance(call.func, ast.Name) and call.func.id.startswith("_") and st.module is not None and st.module.name == "watchdog.utils.patterns" and call.func.id in st.module.functions and call.func.id != "_match_path":
                return (st.module.functions[call.func.id], st.selfcls, None)
            # ... and private methods of the handler itself (the decision moved into `self._should_dispatch(event)`)
            if isinstance(call.func, ast.Attribute) and isinstance(call.func.value, ast.Name) and call.func.value.id == "self" and call.func.attr.startswith("_") and not call.func.attr.startswith("__") and st.selfcls:
                mfi = P.find_method(st.selfcls, call.func.attr)
                if mfi is not None and not any(isinstance(d_, ast.Name) and d_.id in ("property", "staticmethod", "classmethod") for d_ in mfi.node.decorator_list):
                    return (mfi, st.selfcls, None)
            return None

    en = Enumerator(HCfg(P))
    # ---- base dispatch
    d = H.methods.get("dispatch")
    if d is None:
        raise AnalysisError("anchor vanished: FileSystemEventHandler.dispatch")
    paths = en.run(d)
    ctx.count("paths", len(paths))
    ok, msg = len(paths) >= 1, ""
    for p in paths:
        calls = [e for e in p.evs if e.kind == "call" and not e.extra.get("func", "").startswith(("getattr", "isinstance", "hasattr")) or (e.kind == "call" and e.extra.get("func", "").startswith("getattr(") )]
        seq = []
        for e in p.evs:
            if e.kind != "call":
                continue
            f = e.extra.get("func", "")
            args = e.extra.get("args") or []
            if f == "self.on_any_event":
                seq.append(("any", args))
            elif f.startswith("getattr(self,") or re.fullmatch(r"self\.on_\w+", f) or "[event.event_type]" in f or "on_" in f and "event_type" in f:
                if f != "getattr":
                    seq.append(("typed", args, f))
        if [s[0] for s in seq] != ["any", "typed"]:
            ok, msg = False, f"dispatch path calls {[s[0] for s in seq]}; expected on_any_event then exactly one typed callback"
            break
        if seq[0][1] != ["event"] or seq[1][1] != ["event"]:
            ok, msg = False, "callbacks are not called with the event"
        if "event.event_type" not in seq[1][2] or "on_" not in seq[1][2]:
            ok, msg = False, f"typed callback `{seq[1][2]}` is not selected by 'on_' + event.event_type"
    ctx.check(ok, RD, "FileSystemEventHandler.dispatch", msg, d.loc)
    # logging overrides
    L = evm.classes.get("LoggingEventHandler")
    if L:
        for m, fi in L.methods.items():
            if not m.startswith("on_"):
                continue
            ps = en.run(fi)
            good = all(any(e.kind == "call" and e.extra.get("func") == f"super().{m}" and e.extra.get("args") == ["event"] for e in p.evs) for p in ps)
            first = all(next((e.extra.get("func") for e in p.evs if e.kind == "call" and e.extra.get("func") != "super"), None) == f"super().{m}" for p in ps)
            ctx.check(good and first, RD, f"LoggingEventHandler.{m}", f"{m} does not call super().{m}(event) first", fi.loc)

    # ---- pattern handler
    PH = evm.classes.get("PatternMatchingEventHandler")
    RHc = evm.classes.get("RegexMatchingEventHandler")
    if PH is None or RHc is None:
        raise AnalysisError("anchor vanished: matching handlers")

    def backing(ci, prop):
        fi = ci.methods.get(prop)
        if fi is None:
            return None
        for n in ast.walk(fi.node):
            if isinstance(n, ast.Return) and isinstance(n.value, ast.Attribute):
                return n.value.attr
        return None

    def ctor_source(ci, field):
        init = ci.methods.get("__init__")
        for n in ast.walk(init.node):
            if isinstance(n, ast.Assign) and len(n.targets) == 1 and dotted(n.targets[0]) == f"self.{field}":
                return ast.unparse(n.value)
        return None

    for prop, param in (("patterns", "patterns"), ("ignore_patterns", "ignore_patterns"), ("case_sensitive", "case_sensitive"), ("ignore_directories", "ignore_directories")):
        b = backing(PH, prop)
        src = ctor_source(PH, b) if b else None
        ctx.check(src == param, RO, f"PatternMatchingEventHandler.{prop} <- ctor {param}", f"property {prop} returns self.{b} which the constructor sets from `{src}`", PH.loc)
    pd = PH.methods["dispatch"]
    ps = en.run(pd)
    ctx.count("paths", len(ps))
    okd = True
    msgs = []
    for p in ps:
        c = p.conds()
        calls = [e for e in p.evs if e.kind == "call"]
        mcall = [e for e in calls if e.extra.get("func", "").split(".")[-1] == "match_any_paths"]
        sup = [e for e in calls if e.extra.get("func") in ("super().dispatch", "FileSystemEventHandler.dispatch")]
        ign = c.get("self.ignore_directories") is True and c.get("event.is_directory") is True
        if ign:
            if mcall or sup:
                okd = False
                msgs.append("an ignored directory event is still matched/dispatched")
            continue
        if len(mcall) != 1:
            okd = False
            msgs.append(f"{len(mcall)} match_any_paths calls on a non-ignored path")
            continue
        kw = mcall[0].extra.get("kwargs", {})
        want = {"included_patterns": "self.patterns", "excluded_patterns": "self.ignore_patterns", "case_sensitive": "self.case_sensitive"}
        for k, v in want.items():
            if kw.get(k) != v:
                okd = False
                msgs.append(f"match_any_paths({k}={kw.get(k)}), expected {v}")
        matched = [v for a, v in c.items() if a.startswith("match_any_paths(")]
        if matched and matched[0] and len(sup) != 1:
            okd = False
            msgs.append("matching event not dispatched exactly once")
        if matched and not matched[0] and sup:
            okd = False
            msgs.append("non-matching event dispatched")
        if not matched and sup:
            okd = False
            msgs.append("dispatch not conditional on the match result")
        # both paths collected
        plist = (mcall[0].extra.get("args") or ["paths"])[0]
        has_dest = c.get("hasattr(event, 'dest_path')")
        has_src = c.get("event.src_path")
        for m_ in collected_paths_problems(collected_items(p.evs, plist), has_dest, has_src):
            okd = False
            msgs.append(m_)
    ctx.check(okd, RO, "PatternMatchingEventHandler.dispatch", "; ".join(sorted(set(msgs))), pd.loc)

    # ---- regex handler
    rd = RHc.methods["dispatch"]
    ps = en.run(rd)
    ctx.count("paths", len(ps))
    okr, msgs = True, []
    for p in ps:
        c = p.conds()
        sup = [e for e in p.evs if e.kind == "call" and e.extra.get("func") in ("super().dispatch", "FileSystemEventHandler.dispatch")]
        ign_dir = c.get("self.ignore_directories") is True and c.get("event.is_directory") is True
        # whole-list tests only: a test about one element of a loop (`$elem(..)`) belongs to the search loop recognised below
        anys = [(a, v) for a, v in c.items() if (a.startswith("any(") or a.split("(")[0] in exists_preds) and "$elem(" not in a]
        # the same search written out as nested loops that leave at the first match:
        #     for r in self.<regexes>: for p in paths: if r.match(p): <leave>
        # on a path it has found a match iff its last iteration is spliced in (final_iter) and ends in a positive .match() test
        inline_plist = None
        for i_, e_ in enumerate(p.evs):
            if e_.kind == "loop" and e_.text in ("self.ignore_regexes", "self.regexes", "self._ignore_regexes", "self._regexes"):
                inner_ok = all(any(x.kind == "loop" for x in b.evs) for b in e_.extra["paths"]) and bool(e_.extra["paths"])
                inner = next((x for b in e_.extra["paths"] for x in b.evs if x.kind == "loop"), None)
                if not inner_ok or inner is None:
                    continue
                bodies = inner.extra["paths"]
                # every iteration tests exactly <regex elem>.match(<path elem>) and leaves iff it is true
                shape = all(
                    [(x.text, x.extra.get("truth")) for x in b.evs if x.kind == "cond"] in ([(f"$elem({e_.text}).match($elem({inner.text}))", True)], [(f"$elem({e_.text}).match($elem({inner.text}))", False)])
                    and ((b.outcome is NORMAL or b.outcome == ("continue",)) == ([x.extra.get("truth") for x in b.evs if x.kind == "cond"] == [False]))
                    for b in bodies
                )
                if not shape:
                    continue
                later = p.evs[i_ + 1 :]
                fin = [k for k, x in enumerate(later) if x.kind == "final_iter" and x.text == e_.text]
                matched = bool(fin) and any(x.kind == "cond" and ".match(" in x.text and x.extra.get("truth") is True for x in later[fin[0] :])
                anys.append((f"any(<search loop over {e_.text.replace('self._', 'self.')} x {inner.text}>)", matched))
                inline_plist = inner.text
        # ... or as a loop over the paths that asks, per path, whether some regex of one list matches it, and leaves at the first yes
        # (what `any(helper(regexes, path) for path in paths)` abbreviates once the one-path helper is inlined)
        for i_, e_ in enumerate(p.evs):
            if e_.kind != "loop" or e_.extra.get("kind") != "for" or not e_.extra["paths"]:
                continue
            pat = re.compile(r"any\(\((\w+)\.match\(\$elem\(" + re.escape(e_.text) + r"\)\) for \1 in (self\._?(?:ignore_)?regexes)\)\)")
            per = []
            for b in e_.extra["paths"]:
                cs = [(x.text, x.extra.get("truth")) for x in b.evs if x.kind == "cond"]
                m_ = pat.fullmatch(cs[0][0]) if len(cs) == 1 else None
                leaves = b.outcome == ("break",) or b.outcome[0] == "return"
                per.append(m_.group(2) if m_ and (leaves == bool(cs[0][1])) else None)
            if not per or None in per or len(set(per)) != 1:
                continue
            later = p.evs[i_ + 1 :]
            # the spliced last iteration follows its own loop event directly (two searches may iterate the same list)
            fin = later[:1] and later[0].kind == "final_iter" and later[0].text == e_.text
            nxt = next((k for k, x in enumerate(later) if x.kind == "loop"), len(later))
            matched = bool(fin) and any(x.kind == "cond" and pat.fullmatch(x.text) and x.extra.get("truth") is True for x in later[:nxt])
            anys.append((f"any(<search loop over {per[0].replace('self._', 'self.')} x {e_.text}>)", matched))
            inline_plist = e_.text
        if not ign_dir:
            rcalls = [e for e in p.evs if e.kind == "call"]
            # the list the regexes are matched against: the iterable named in the any(...) tests / the helper's path argument
            m_ = re.search(r" for \w+ in (\w+)\)+$", anys[0][0]) if anys else None
            plist = m_.group(1) if m_ else (inline_plist or "paths")
            if anys and anys[0][0].split("(")[0] in exists_preds:
                try:
                    _c = ast.parse(anys[0][0], mode="eval").body
                    plist = ast.unparse(_c.args[exists_preds[anys[0][0].split("(")[0]][1]])
                except (SyntaxError, IndexError):
                    pass
            for prob in collected_paths_problems(collected_items(p.evs, plist), c.get("hasattr(event, 'dest_path')"), c.get("event.src_path")):
                okr = False
                msgs.append(prob)
        ign_atom = [(a, v) for a, v in anys if "self.ignore_regexes" in a]
        inc_atom = [(a, v) for a, v in anys if "self.regexes" in a]
        # an opaque helper atom must carry the regex list in the helper's regex position
        for a, _v in anys:
            h = a.split("(")[0]
            if h in exists_preds:
                try:
                    _c = ast.parse(a, mode="eval").body
                    if "regexes" not in ast.unparse(_c.args[exists_preds[h][0]]):
                        okr = False
                        msgs.append(f"`{a[:60]}`: the regex list is not in the helper's regex position")
                except (SyntaxError, IndexError):
                    okr = False
        if ign_dir:
            if sup or anys:
                okr = False
                msgs.append("ignored directory event still matched/dispatched")
            continue
        if not ign_atom:
            okr = False
            msgs.append("ignore regexes not tested")
            continue
        order = [a for a, _ in anys]
        if inc_atom and order.index(ign_atom[0][0]) > order.index(inc_atom[0][0]):
            okr = False
            msgs.append("include regexes tested before ignore regexes")
        if ign_atom[0][1]:
            if sup:
                okr = False
                msgs.append("event matching an ignore regex is dispatched")
            continue
        if not inc_atom:
            okr = False
            msgs.append("include regexes not tested")
            continue
        if inc_atom[0][1] != (len(sup) == 1):
            okr = False
            msgs.append("dispatch is not exactly 'some path matches an include regex'")
    ctx.check(okr, RO, "RegexMatchingEventHandler.dispatch", "; ".join(sorted(set(msgs))), rd.loc)
    ri = RHc.methods["__init__"]
    ps = en.run(ri)
    okc, msgs = True, []
    for p in ps:
        c = p.conds()
        st = {e.extra.get("attr"): e.extra.get("value", "") for e in p.evs if e.kind == "store"}
        cs = c.get("case_sensitive")
        for fld in ("_regexes", "_ignore_regexes"):
            v = st.get(fld, "")
            if cs is True and "IGNORECASE" in v:
                okc = False
                msgs.append("case-sensitive handler compiles with IGNORECASE")
            if cs is False and "IGNORECASE" not in v:
                okc = False
                msgs.append("case-insensitive handler compiles without IGNORECASE")
        asg = [e.text for e in p.evs if e.kind == "assign" and e.extra.get("name") == "regexes"]
        if c.get("regexes is None") is True and not any("'.*'" in a for a in asg):
            okc = False
            msgs.append("default include regex is not '.*'")
        if c.get("regexes is None") is False and any("'.*'" in a for a in asg):
            okc = False
            msgs.append("given regexes replaced by the default")
        iasg = [e.text for e in p.evs if e.kind == "assign" and e.extra.get("name") == "ignore_regexes"]
        if c.get("ignore_regexes is None") is True and not any(a.endswith("= []") or a.endswith("= ()") for a in iasg):
            okc = False
            msgs.append("ignore_regexes=None is not replaced by an empty list: the constructor iterates None (TypeError for every handler built with defaults)")
        if c.get("ignore_regexes is None") is False and iasg:
            okc = False
            msgs.append("given ignore regexes replaced by the default")
        if c.get("ignore_regexes is None") is None and not re.search(r"\bignore_regexes or (\[\]|\(\))", st.get("_ignore_regexes", "")):
            okc = False
            msgs.append("ignore_regexes is not tested against None (nor replaced by `ignore_regexes or []` where it is iterated)")
        if "regexes" not in st.get("_regexes", "").replace("ignore_regexes", ""):
            okc = False
            msgs.append("include regexes not routed")
        if "ignore_regexes" not in st.get("_ignore_regexes", "") and "[]" not in st.get("_ignore_regexes", ""):
            okc = False
            msgs.append("ignore regexes not routed")
        if "ignore_regexes" in st.get("_regexes", "").replace("_ignore_regexes", ""):
            okc = False
            msgs.append("ignore regexes routed into the include list")
    ctx.check(okc, RO, "RegexMatchingEventHandler.__init__", "; ".join(sorted(set(msgs))), ri.loc)

    # ---- patterns.py
    pm = P.module("watchdog.utils.patterns")
    fp = pm.functions.get("filter_paths")
    mp = pm.functions.get("_match_path")
    ma = pm.functions.get("match_any_paths")
    if not (fp and mp and ma):
        raise AnalysisError("anchor vanished: patterns.py functions")
    ps = en.run(fp)
    okf, msgs = True, []
    for p in ps:
        loops = [e for e in p.evs if e.kind == "loop"]
        # the functional spelling:  yield from filter(partial(_match_path, included_patterns=I, excluded_patterns=E, case_sensitive=C), paths)
        yf = [e for e in p.evs if e.kind == "yield_from"]
        functional = None
        if not loops and len(yf) == 1:
            t = yf[0].extra.get("term")
            t = t.value if isinstance(t, ast.YieldFrom) else t
            good = False
            if isinstance(t, ast.Call) and ast.unparse(t.func) == "filter" and len(t.args) == 2 and ast.unparse(t.args[1]) == "paths":
                f0 = t.args[0]
                if isinstance(f0, ast.Call) and ast.unparse(f0.func) in ("partial", "functools.partial") and f0.args and ast.unparse(f0.args[0]) == "_match_path":
                    kw = {k.arg: k.value for k in f0.keywords}
                    rest = [ast.unparse(a) for a in f0.args[1:]]
                    if not rest and set(kw) == {"included_patterns", "excluded_patterns", "case_sensitive"} and ast.unparse(kw["case_sensitive"]) == "case_sensitive":
                        good = True
                        functional = (kw["included_patterns"], kw["excluded_patterns"])
            if not good:
                okf = False
                msgs.append(f"filter_paths yields from `{yf[0].text[:80]}`: not filter(partial(_match_path, <the three options>), paths)")
                continue
            loops = []
        elif len(loops) != 1 or loops[0].text != "paths":
            okf = False
            msgs.append("filter_paths does not iterate its input exactly once, in order")
            continue
        for b in (loops[0].extra["paths"] if loops else []):
            ys = [e for e in b.evs if e.kind == "yield"]
            m = [v for a, v in b.conds().items() if a.startswith("_match_path(")]
            if any(y.text != "$elem(paths)" for y in ys):
                okf = False
                msgs.append("filter_paths yields something that is not an element of its input")
            if m and m[0] != (len(ys) == 1):
                okf = False
                msgs.append("filter_paths does not yield exactly the matching elements")
        c = p.conds()
        asg = {e.extra.get("name"): e.text for e in p.evs if e.kind == "assign"}
        inc = c.get("included_patterns is None")
        exc = c.get("excluded_patterns is None")
        # the include / exclude sets are whatever is handed to _match_path as 2nd / 3rd argument
        mcalls = [e for L2 in loops for b in L2.extra["paths"] for e in b.evs if e.kind == "call" and e.extra.get("func") == "_match_path"]
        inc_name = exc_name = None
        if mcalls and isinstance(mcalls[0].node, ast.Call) and len(mcalls[0].node.args) >= 3:
            a1, a2 = mcalls[0].node.args[1], mcalls[0].node.args[2]
            inc_name = a1.id if isinstance(a1, ast.Name) else None
            exc_name = a2.id if isinstance(a2, ast.Name) else None
        elif not loops:
            # functional spelling: the raw keyword arguments of the partial (the locals that hold the include / exclude sets)
            for n in ast.walk(fp.node):
                if isinstance(n, ast.Call) and ast.unparse(n.func) in ("partial", "functools.partial"):
                    kw0 = {k.arg: k.value for k in n.keywords}
                    a1, a2 = kw0.get("included_patterns"), kw0.get("excluded_patterns")
                    inc_name = a1.id if isinstance(a1, ast.Name) else None
                    exc_name = a2.id if isinstance(a2, ast.Name) else None
        it = asg.get(inc_name, "") or "="
        et = asg.get(exc_name, "") or "="
        # ... read through locals and helpers: the substituted terms of that call's arguments on this path
        sub_args = (mcalls[0].extra.get("args") or []) if mcalls else []
        if len(sub_args) >= 3:
            vals: dict[str, str] = {}
            for e_ in p.evs:
                if e_.kind == "assign" and " = " in e_.text:
                    n_, v_ = e_.text.split(" = ", 1)
                    if v_.strip() != n_.strip():
                        vals[n_.strip()] = v_  # (a set / list display bound to a local stays a name in the terms: read its binding)
            it, et = ("= " + vals.get(a_, a_) for a_ in sub_args[1:3])
        if not loops and functional is not None:
            # ... or the option expressions themselves, written in place (decided per path: the `is None` tests fork)
            if not isinstance(functional[0], ast.Name):
                it = "included_patterns= " + ast.unparse(functional[0])
            if not isinstance(functional[1], ast.Name):
                et = "excluded_patterns= " + ast.unparse(functional[1])
        # module-level constants holding the defaults read as their values
        for cn_, cv_ in fp.module.consts.items():
            if isinstance(cv_, (ast.Tuple, ast.List, ast.Set, ast.Constant)) or (isinstance(cv_, ast.Call) and ast.unparse(cv_.func) in ("frozenset", "set", "tuple", "list")):
                it = re.sub(rf"\b{re.escape(cn_)}\b", ast.unparse(cv_), it)
                et = re.sub(rf"\b{re.escape(cn_)}\b", ast.unparse(cv_), et)
        et = re.sub(r"set\((\(\)|\[\]|frozenset\(\)|set\(\)|tuple\(\))\)", "set()", et)
        if inc is None or exc is None:
            okf = False
            msgs.append("defaults are not applied exactly when the argument is None (no `is None` test on this path)")
        if inc is True and "'*'" not in it:
            okf = False
            msgs.append("default include pattern is not ['*']")
        if inc is False and "included_patterns" not in it.split("=", 1)[1]:
            okf = False
            msgs.append("given include patterns not used")
        if exc is True and ("set([])" not in et and "set()" not in et):
            okf = False
            msgs.append("default exclude is not empty")
        if exc is False and "excluded_patterns" not in et.split("=", 1)[1]:
            okf = False
            msgs.append("given exclude patterns not used")
    ctx.check(okf, RO, "patterns.filter_paths", "; ".join(sorted(set(msgs))), fp.loc)
    from ..model import boolified

    ps = en.run(boolified(mp))
    okm, msgs = True, []
    for p in ps:
        c = p.conds()
        common = [v for a, v in c.items() if "&" in a or "common" in a]
        common += [not v for a, v in c.items() if ".isdisjoint(" in a]  # `not A.isdisjoint(B)` is `A & B` non-empty
        asg0 = {e.extra.get("name"): e.text for e in p.evs if e.kind == "assign"}

        def iterates(a: str, param: str) -> bool:
            """the any(...) atom ranges over the given parameter, directly or through a local set built from it"""
            if param in a:
                return True
            return any(param in asg0.get(n, "").split("=", 1)[-1] for n in re.findall(r" for \w+ in (\w+)\)", a))

        inc = next((v for a, v in c.items() if a.startswith("any(") and iterates(a, "included_patterns") and ".match(" in a), None)
        exc = next((v for a, v in c.items() if a.startswith("any(") and iterates(a, "excluded_patterns") and ".match(" in a), None)
        if common and common[0]:
            if p.outcome[0] != "raise" or "ValueError" not in str(p.outcome[1]):
                okm = False
                msgs.append("a pattern both included and excluded is not rejected with ValueError")
        else:
            if p.outcome[0] != "return" or not isinstance(p.outcome[1], ast.Constant):
                okm = False
                msgs.append("_match_path does not return a truth value on the non-conflicting path")
                continue
            if not common:
                okm = False
                msgs.append("a result is returned before the included/excluded conflict has been checked")
            res = bool(p.outcome[1].value)
            # the result is  include-any and not exclude-any  (either operand may stay undecided when the other settles it)
            want = None
            if inc is False or exc is True:
                want = False
            elif inc is True and exc is False:
                want = True
            if want is None or res != want:
                okm = False
                msgs.append(f"match rule returns {res} with include-any={inc}, exclude-any={exc}; expected include-any and not exclude-any")
        cs = c.get("case_sensitive")
        # what the patterns are matched against, and with which folding: read from the decided any(...) atoms themselves
        anyt = " ".join(a for a in c if a.startswith("any(") and ".match(" in a)
        if anyt:
            # the sets the atoms iterate are containers (kept by name): their folding is read from the assignments on the path
            setnames = set(re.findall(r" for \w+ in (\w+)\)", anyt))
            asg = {e.extra.get("name"): e.text for e in p.evs if e.kind == "assign"}
            folded = [n for n in setnames if ".lower()" in asg.get(n, "")]
            anyt = anyt + "".join(" .lower()" for _ in folded)
            if cs is True and ("PurePosixPath(raw_path)" not in anyt or ".lower()" in anyt):
                okm = False
                msgs.append("case-sensitive matching does not use PurePosixPath on the patterns as given")
            if cs is False and ("PureWindowsPath(raw_path)" not in anyt or anyt.count(".lower()") < (1 if exc is None else 2)):
                okm = False
                msgs.append("case-insensitive matching does not fold patterns / use PureWindowsPath")
            if cs is None:
                okm = False
                msgs.append("case_sensitive is not consulted")
    if not any(p.outcome[0] == "raise" and "ValueError" in str(p.outcome[1]) for p in ps):
        okm = False
        msgs.append("no path rejects a pattern that is both included and excluded (ValueError)")
    ctx.check(okm, RO, "patterns._match_path", "; ".join(sorted(set(msgs))), mp.loc)
    ps = en.run(ma)
    oka = True

    def direct_search(p) -> bool:
        """match_any_paths written as its own search: one loop over `paths`, in order, that returns True exactly at the first element for
        which _match_path(element, <include set>, <exclude set>, case_sensitive=case_sensitive) holds and that is non-empty, and False
        after the loop; the sets follow the same defaults as in filter_paths"""
        loops_ = [e for e in p.evs if e.kind == "loop"]
        if len(loops_) != 1 or loops_[0].text != "paths":
            return False
        if not (p.outcome[0] == "return" and ast.unparse(p.outcome[1]) in ("False", "True")):
            return False
        mc = [e for b in loops_[0].extra["paths"] for e in b.evs if e.kind == "call" and e.extra.get("func") == "_match_path"]
        if not mc:
            return False
        for b in loops_[0].extra["paths"]:
            c_ = b.conds()
            m_ = [v for a, v in c_.items() if a.startswith("_match_path(")]
            nonempty = c_.get("$elem(paths)")
            found = bool(m_) and m_[0] is True and nonempty is True
            returns_true = b.outcome[0] == "return" and ast.unparse(b.outcome[1]) == "True"
            if found != returns_true or (b.outcome[0] == "return" and not returns_true) or b.outcome[0] in ("break", "raise"):
                return False
        sub = mc[0].extra.get("args") or []
        kw_ = mc[0].extra.get("kwargs") or {}
        if len(sub) < 3 or sub[0] != "$elem(paths)" or kw_.get("case_sensitive", sub[3] if len(sub) > 3 else None) != "case_sensitive":
            return False
        vals: dict[str, str] = {}
        for e_ in p.evs:
            if e_.kind == "assign" and " = " in e_.text:
                n_, v_ = e_.text.split(" = ", 1)
                if v_.strip() != n_.strip():
                    vals[n_.strip()] = v_
        it_, et_ = (vals.get(a_, a_) for a_ in sub[1:3])
        c0 = p.conds()
        inc_, exc_ = c0.get("included_patterns is None"), c0.get("excluded_patterns is None")
        if inc_ is None or exc_ is None:
            return False
        if (inc_ is True and "'*'" not in it_) or (inc_ is False and "included_patterns" not in it_):
            return False
        if (exc_ is True and it_ is not None and "set()" not in et_ and "set([])" not in et_) or (exc_ is False and "excluded_patterns" not in et_):
            return False
        # the loop's normal completion must end in `return False`
        return ast.unparse(p.outcome[1]) == "False" or any(b.outcome[0] == "return" for b in loops_[0].extra["paths"])

    if ps and all(direct_search(p) for p in ps if p.outcome[0] != "raise") and any(ast.unparse(p.outcome[1]) == "False" for p in ps if p.outcome[0] == "return"):
        ps = []  # decided: the search form
    for p in ps:
        calls = [e for e in p.evs if e.kind == "call" and e.extra.get("func") == "filter_paths"]
        if len(calls) != 1:
            oka = False
            continue
        kw = calls[0].extra.get("kwargs", {})
        if kw != {"included_patterns": "included_patterns", "excluded_patterns": "excluded_patterns", "case_sensitive": "case_sensitive"} or calls[0].extra.get("args") != ["paths"]:
            oka = False
        if p.outcome[0] != "return" or not ast.unparse(p.outcome[1]).startswith("any(filter_paths("):
            oka = False
    ctx.check(oka, RO, "patterns.match_any_paths", "match_any_paths is not any(filter_paths(paths, <same options>))", ma.loc)
    ctx.assumptions += ["pathlib.PurePath.match implements the pattern language", "getattr(self, name) finds the method named name"]


EV = "events.py"
PT = "utils/patterns.py"
VARIANTS = [
    dict(name="B rename one on_* method", expect="fire", rule="C15/type-exhaustive", edits=[(EV, "    def on_closed_no_write(self, event: FileClosedNoWriteEvent) -> None:\n        \"\"\"Called when a file opened for reading is closed.", "    def on_closed_nowrite(self, event: FileClosedNoWriteEvent) -> None:\n        \"\"\"Called when a file opened for reading is closed.")]),
    dict(name="B new event type without callback", expect="fire", rule="C15/type-exhaustive", edits=[(EV, "class FileOpenedEvent(FileSystemEvent):", "class FileAccessedEvent(FileSystemEvent):\n    event_type = \"accessed\"\n\n\nclass FileOpenedEvent(FileSystemEvent):")]),
    dict(name="B swap patterns/ignore_patterns routing", expect="fire", rule="C15/option-routing", edits=[(EV, "            included_patterns=self.patterns,\n            excluded_patterns=self.ignore_patterns,", "            included_patterns=self.ignore_patterns,\n            excluded_patterns=self.patterns,")]),
    dict(name="B drop on_any_event call", expect="fire", rule="C15/dispatch-shape", edits=[(EV, "        self.on_any_event(event)\n        getattr(self, f\"on_{event.event_type}\")(event)", "        getattr(self, f\"on_{event.event_type}\")(event)")]),
    dict(name="B typed callback before on_any_event", expect="fire", rule="C15/dispatch-shape", edits=[(EV, "        self.on_any_event(event)\n        getattr(self, f\"on_{event.event_type}\")(event)", "        getattr(self, f\"on_{event.event_type}\")(event)\n        self.on_any_event(event)")]),
    dict(name="B include before ignore in regex handler", expect="fire", rule="C15/option-routing", edits=[(EV, "        if any(r.match(p) for r in self.ignore_regexes for p in paths):\n            return\n\n        if any(r.match(p) for r in self.regexes for p in paths):\n            super().dispatch(event)", "        if any(r.match(p) for r in self.regexes for p in paths):\n            super().dispatch(event)\n            return\n\n        if any(r.match(p) for r in self.ignore_regexes for p in paths):\n            return")]),
    dict(name="B ignore_patterns property returns patterns", expect="fire", rule="C15/option-routing", edits=[(EV, "        return self._ignore_patterns", "        return self._patterns")]),
    dict(name="B regex handler: ignore default dropped", expect="fire", rule="C15/option-routing", edits=[("events.py", "        if ignore_regexes is None:\n            ignore_regexes = []\n", "        if ignore_regexes is None:\n            pass\n")]),
    dict(name="B default include only when empty list", expect="fire", rule="C15/option-routing", edits=[(PT, 'included = set(["*"] if included_patterns is None else included_patterns)', 'included = set(included_patterns or ["*"])')]),
    dict(name="B conflict check dropped", expect="fire", rule="C15/option-routing", edits=[(PT, "    if common_patterns:\n        error = f\"conflicting patterns `{common_patterns}` included and excluded\"\n        raise ValueError(error)\n", "")]),
    dict(name="B src path not collected", expect="fire", rule="C15/option-routing", edits=[(EV, "        if event.src_path:\n            paths.append(os.fsdecode(event.src_path))\n\n        if match_any_paths(", "        if match_any_paths(")]),
    dict(name="B regex handler does not collect the source path", expect="fire", rule="C15/option-routing", edits=[(EV, "        if event.src_path:\n            paths.append(os.fsdecode(event.src_path))\n\n        if any(r.match(p) for r in self.ignore_regexes for p in paths):", "        if any(r.match(p) for r in self.ignore_regexes for p in paths):")]),
    dict(name="B regex handler collects dest only when absent", expect="fire", rule="C15/option-routing", edits=[(EV, "        if hasattr(event, \"dest_path\"):\n            paths.append(os.fsdecode(event.dest_path))\n        if event.src_path:\n            paths.append(os.fsdecode(event.src_path))\n\n        if any(r.match(p) for r in self.ignore_regexes", "        if not hasattr(event, \"dest_path\"):\n            paths.append(os.fsdecode(event.dest_path))\n        if event.src_path:\n            paths.append(os.fsdecode(event.src_path))\n\n        if any(r.match(p) for r in self.ignore_regexes")]),
    dict(name="B case flag inverted in regex ctor", expect="fire", rule="C15/option-routing", edits=[(EV, "        if case_sensitive:\n            self._regexes = [re.compile(r) for r in regexes]", "        if not case_sensitive:\n            self._regexes = [re.compile(r) for r in regexes]")]),
    dict(name="B logging override skips super", expect="fire", rule="C15/dispatch-shape", edits=[(EV, "        super().on_closed(event)\n\n        self.logger.info(\"Closed modified file: %s\", event.src_path)", "        self.logger.info(\"Closed modified file: %s\", event.src_path)")]),
    dict(name="E f-string -> concatenation", expect="silent", edits=[(EV, 'getattr(self, f"on_{event.event_type}")(event)', 'getattr(self, "on_" + event.event_type)(event)')]),
    dict(name="E early return instead of nested if in pattern dispatch", expect="silent", edits=[(EV, "            case_sensitive=self.case_sensitive,\n        ):\n            super().dispatch(event)", "            case_sensitive=self.case_sensitive,\n        ):\n            FileSystemEventHandler.dispatch(self, event)") ]),
]


def thorough(ctx):
    from ..selftest import thorough as st

    return st(ctx, VARIANTS)
