"""C20 — Windows and macOS translation layers meet the same contract on well-formed input.

Static analysis can do here what no test on this machine can: *read* the code (neither module can be imported on Linux).
Decided: per-action emission contract of WindowsApiEmitter.queue_events; per-flag-combination invariants of
FSEventsEmitter.queue_events incl. the inode bookkeeping that suppresses spurious 'created' flags; the non-recursive
FSEvents filter cannot be bypassed; header-size constants of the inotify buffer decoder agree with its unpack format;
structure of the Windows buffer decoder.  Not decided: decoder round-trips for all record sequences; FSEvents coalescing.
"""

from __future__ import annotations

import ast
import re

from ..emit import EmitterCfg, emissions_of
from ..model import AnalysisError, dotted
from ..pse import NORMAL, Cfg, Enumerator
from ..reader import find_loops

LEVEL_TEXT = (
    "Static analysis of code that cannot be imported here. All paths of the two translators are enumerated (helpers inlined) and "
    "checked against per-native-kind emission contracts / invariants (classes, flavour source, order, path roles, sub-event "
    "generators, root handling, inode bookkeeping); who-may-call rule for the base queue_event in FSEventsEmitter; constant folding "
    "of the inotify record header size against struct.calcsize of the unpack format; structural rules on the Windows buffer walk."
    " Also: the three FSEvents predicates (_is_recursive_event, _is_historic_created_event, _is_meta_mod) are decided as truth tables over their own paths; modified events and the rename partner's flags are part of the invariants; the wiring to the native layer (callback columns, registration before the read loop, Windows handle life cycle, the records actually iterated) is checked structurally."
)

WIN_FLAGS = ["is_renamed_old", "is_renamed_new", "is_modified", "is_added", "is_removed", "is_removed_self"]


class WinCfg(EmitterCfg):
    def loop_elem(self, node, iter_term, st):
        if "read_events" in ast.unparse(iter_term) or ast.unparse(iter_term) in ("winapi_events",):
            return ast.Name("W", ast.Load())
        return None


class FsCfg(EmitterCfg):
    deny = EmitterCfg.deny | {"_is_historic_created_event", "_is_meta_mod"}
    max_paths = 200000

    def inline(self, call, func_text, recv_cls, st):
        if func_text.startswith("self.") and func_text[5:] in FS_SINKS:
            return None  # a filtered hand-over to the queue: an emission point like queue_event itself
        return super().inline(call, func_text, recv_cls, st)


FS_SINKS: set[str] = set()  # filled by run(): methods of FSEventsEmitter that forward their event to the base queue_event iff the non-recursive filter lets it pass


def filtered_sinks(P, cls: str = "FSEventsEmitter") -> set[str]:
    """Methods m(event) of the emitter that are a filtered hand-over: on every path the base queue_event is called at most once, with
    exactly m's event parameter, and it is called iff (watch is recursive or not _is_recursive_event(event)).  queue_event's override
    is one; a helper it delegates to (possibly returning whether it forwarded) is one as well."""
    from ..threads import ThreadCfg

    F = P.cls(cls)
    out: set[str] = set()
    for m, fi in F.methods.items():
        params = [a.arg for a in fi.node.args.args if a.arg != "self"]
        if len(params) != 1 or m in ("queue_events",):
            continue
        evp = params[0]
        ok, nbase = True, 0
        try:
            paths = Enumerator(ThreadCfg(P, follow_attrs=False, no_inline={"_is_recursive_event", "queue_event"})).run(fi, selfcls=cls)
        except AnalysisError:
            continue
        for p in paths:
            calls = [e for e in p.evs if e.kind == "call" and e.extra.get("func") in ("EventEmitter.queue_event", "super().queue_event")]
            nbase += len(calls)
            c = p.conds()
            rec = c.get("self._watch.is_recursive", c.get("self.watch.is_recursive"))
            isrec = c.get(f"self._is_recursive_event({evp})")
            allowed = rec is True or isrec is False
            if len(calls) > 1 or (calls and not allowed) or (not calls and allowed and p.outcome[0] != "raise"):
                ok = False
            for e in calls:
                args = e.extra.get("args") or []
                want = ["self", evp] if e.extra.get("func") == "EventEmitter.queue_event" else [evp]
                if args != want:
                    ok = False
            if rec is None and isrec is None:
                ok = False
        if ok and nbase:
            out.add(m)
    return out

    def canon_atom(self, text, st):
        return fs_alias(text)


BATCH = ["events"]  # name of the batch parameter of FSEventsEmitter.queue_events (set from the source in run())


def fs_alias(text: str) -> str:
    b = re.escape(BATCH[0])
    text = re.sub(rf"\b{b}\.pop\(0\)", "ev", text)
    # the partner: the first record of the batch that is a rename with the same inode (next over a generator, with or without iter())
    text, n = re.subn(rf"next\((?:iter\()?\((\w+) for \1 in {b} if \1\.is_renamed and (?:\1\.inode == ev\.inode|ev\.inode == \1\.inode)\)\)?, None\)", "dst", text)
    if n:
        NEXT_FORM[0] = True
    # the same partner found by a search loop over the batch that leaves at the first match: the matching element itself
    text = text.replace(f"$elem({BATCH[0]})", "dst")
    return text


NEXT_FORM = [False]  # the partner is selected by next(iter(<genexpr with the is_renamed / same-inode test>)): the test is part of the term


def _literal(t):
    """True / False for a literal truthy / falsy return term, None otherwise."""
    if t is None:
        return False
    if isinstance(t, ast.Constant):
        return bool(t.value)
    return None


def fsevents_predicates(ctx, P, F) -> None:
    """The three predicates the FSEvents translation is parameterised with are decided as truth tables over their paths."""
    from ..pse import Cfg

    RP = ctx.rule(
        "C20/fsevents-predicates",
        "_is_recursive_event lets an event through (falsy) only when the item's directory (the directory itself for a directory event) is the "
        "watched root, or the destination's directory is for a moved event, and blocks it otherwise; _is_historic_created_event is "
        "'inode already known' or 'same inode at that path in the start-up snapshot' (a missing entry counts as not historic); "
        "_is_meta_mod is the disjunction of the three metadata flags",
        floor=5,
    )
    # ---- _is_recursive_event
    rf = F.methods.get("_is_recursive_event")
    if rf is None:
        raise AnalysisError("anchor vanished: FSEventsEmitter._is_recursive_event")
    ev = ([a.arg for a in rf.node.args.args if a.arg != "self"] or ["event"])[0]
    ROOT = "self._absolute_watch_path"

    def eq(c, term):
        for a, t in c.items():
            if a in (f"{term} == {ROOT}", f"{ROOT} == {term}"):
                return t
            if a in (f"{term} != {ROOT}", f"{ROOT} != {term}"):
                return not t
        return None

    npass = nblock = 0
    from ..model import boolified

    for p in Enumerator(Cfg(P)).run(boolified(rf), selfcls="FSEventsEmitter"):
        if p.outcome[0] != "return":
            continue
        lit = _literal(p.outcome[1])
        c = p.conds()
        isdir = c.get(f"{ev}.is_directory")
        moved = None
        for a, t in c.items():
            m = re.fullmatch(rf"isinstance\({re.escape(ev)}, \((\w+), (\w+)\)\)", a)
            if m:
                moved = t if {m.group(1), m.group(2)} == {"FileMovedEvent", "DirMovedEvent"} else "wrong-classes"
        src_own, src_parent, dst_parent = eq(c, f"{ev}.src_path"), eq(c, f"os.path.dirname({ev}.src_path)"), eq(c, f"os.path.dirname({ev}.dest_path)")
        where = f"{rf.module.relpath}:{rf.node.lineno}"
        if lit is None:
            ctx.viol(RP, "_is_recursive_event returns a literal", f"returns `{ast.unparse(p.outcome[1])}`", where)
            continue
        if moved == "wrong-classes":
            ctx.viol(RP, "_is_recursive_event moved classes", "the destination test is not made for exactly (FileMovedEvent, DirMovedEvent): moves of one flavour into the root are dropped", where)
            continue
        at_root = (isdir is True and src_own is True) or (isdir is False and src_parent is True)
        dst_at_root = moved is True and dst_parent is True
        if lit is False:
            npass += 1
            ctx.check(
                at_root or dst_at_root,
                RP,
                f"_is_recursive_event lets through [{p.sig()[:70]}]",
                "an event is let through although neither its own directory nor (for a move) its destination's directory was found equal to the watched root: a non-recursive watch reports items below the root's direct children (or the wrong side of the is_directory split is compared)",
                where,
            )
        else:
            nblock += 1
            src_decided_no = (isdir is True and src_own is False) or (isdir is False and src_parent is False)
            dst_no = moved is False or (moved is True and dst_parent is False)
            ctx.check(
                src_decided_no and dst_no,
                RP,
                f"_is_recursive_event blocks [{p.sig()[:70]}]",
                "an event is blocked although it was not established that it lies outside the root's direct children (direct children of a non-recursive watch would go unreported)",
                where,
            )
    if not npass or not nblock:
        raise AnalysisError("_is_recursive_event: both outcomes must exist")
    # ---- ... and the root those tests compare with is the canonical spelling of the watch path: FSEvents reports symlink-free
    # paths whatever spelling the stream was opened with, so an unresolved root (/tmp/x for /private/tmp/x) equals no parent
    ini = P.find_method("FSEventsEmitter", "__init__")
    if ini is None:
        raise AnalysisError("anchor vanished: FSEventsEmitter.__init__")
    stored = {}
    for p in Enumerator(Cfg(P)).run(ini, selfcls="FSEventsEmitter"):
        if p.outcome[0] == "raise":
            continue
        for e in p.evs:
            if e.kind == "store" and e.extra.get("recv") == "self" and "self." + e.extra.get("attr", "") == ROOT:
                stored.setdefault(e.extra.get("value") or "", e.line)
    if not stored:
        raise AnalysisError(f"FSEventsEmitter.__init__ does not store {ROOT}")
    for v, line in sorted(stored.items()):
        try:
            t = ast.parse(v, mode="eval").body
        except SyntaxError:
            t = None
        chain, leaf = [], t
        while isinstance(leaf, ast.Call) and len(leaf.args) == 1 and not leaf.keywords:
            chain.append(dotted(leaf.func) or ast.unparse(leaf.func))
            leaf = leaf.args[0]
        ctx.check(
            "os.path.realpath" in chain and leaf is not None and ast.unparse(leaf) in ("self.watch.path", "self._watch.path"),
            RP,
            f"the root the non-recursive test compares with is realpath(watch path) [{v[:60]}]",
            f"on a path of FSEventsEmitter.__init__ the root is stored as `{v[:100]}`, not resolved through os.path.realpath: FSEvents reports canonical paths, so for a root reached through a symbolic link no event's directory equals the stored root and a non-recursive watch drops every event",
            f"{ini.module.relpath}:{line}",
        )

    # ---- _is_historic_created_event
    hf = F.methods.get("_is_historic_created_event")
    if hf is None:
        raise AnalysisError("anchor vanished: FSEventsEmitter._is_historic_created_event")
    hev = ([a.arg for a in hf.node.args.args if a.arg != "self"] or ["event"])[0]
    KNOWN = f"{hev}.inode in self._fs_view"
    SAME = {f"self._starting_state.inode({hev}.path)[0] == {hev}.inode", f"{hev}.inode == self._starting_state.inode({hev}.path)[0]"}

    class HCfg(Cfg):
        def raises(self, kind, text, node, st):
            if kind == "call" and (st.last_func or "").endswith("_starting_state.inode"):
                return ["KeyError"]
            return ()

    nh = 0
    for p in Enumerator(HCfg(P)).run(hf, selfcls="FSEventsEmitter"):
        where = f"{hf.module.relpath}:{hf.node.lineno}"
        if p.outcome[0] == "raise":
            ctx.viol(RP, "_is_historic_created_event absorbs a missing snapshot entry", f"{p.outcome[1]} escapes: an item that did not exist at start-up kills the emitter thread", where)
            continue
        if p.outcome[0] != "return":
            continue
        nh += 1
        c = p.conds()
        state = c.get("self._starting_state")
        missing = any(e.kind == "caught" and e.text.startswith("KeyError") for e in p.evs)
        t = p.outcome[1]
        lit = _literal(t)
        known = c.get(KNOWN)
        same = next((v for a, v in c.items() if a in SAME), None)
        snapshot_applies = state is True and not missing
        if lit is not None:
            if lit:
                ok = known is True or (snapshot_applies and same is True)
            else:
                ok = known is False and ((not snapshot_applies and (state is False or missing)) or same is False)
            got = str(lit)
        else:
            parts = [ast.unparse(x) for x in (t.values if isinstance(t, ast.BoolOp) and isinstance(t.op, ast.Or) else [t])]
            parts = [x for x in parts if x != "False"]
            need = set()
            if known is not False:
                need.add(KNOWN)
            ok = all(x == KNOWN or (snapshot_applies and x in SAME) for x in parts) and need <= set(parts) and (not snapshot_applies or same is False or any(x in SAME for x in parts)) and not (isinstance(t, ast.BoolOp) and isinstance(t.op, ast.And))
            got = " or ".join(parts) or "False"
        ctx.check(
            ok,
            RP,
            f"_is_historic_created_event [snapshot={'yes' if snapshot_applies else 'missing entry' if missing else 'none'} {p.sig()[:50]}]",
            f"returns `{got}` here; expected `{KNOWN}`" + (" or `same inode at that path in the start-up snapshot`" if snapshot_applies else " (no snapshot information: not historic)") + ": a genuinely new item's created event is suppressed, or a pre-existing item is reported created",
            where,
        )
    if nh < 3:
        raise AnalysisError("_is_historic_created_event: expected the three cases (snapshot entry, missing entry, no snapshot)")

    # ---- _is_meta_mod
    mf = F.methods.get("_is_meta_mod")
    if mf is None:
        raise AnalysisError("anchor vanished: FSEventsEmitter._is_meta_mod")
    rets = [n.value for n in ast.walk(mf.node) if isinstance(n, ast.Return) and n.value is not None]
    mev = ([a.arg for a in mf.node.args.args if a.arg != "self"] or ["event"])[0]
    okm = len(rets) == 1 and isinstance(rets[0], ast.BoolOp) and isinstance(rets[0].op, ast.Or) and {ast.unparse(v) for v in rets[0].values} == {f"{mev}.is_inode_meta_mod", f"{mev}.is_xattr_mod", f"{mev}.is_owner_change"}
    ctx.check(okm, RP, "_is_meta_mod is the disjunction of the three metadata flags", f"returns `{ast.unparse(rets[0]) if rets else None}`: a chmod / chown / xattr change would go unreported (or everything counts as one)", mf.loc)


def native_wiring(ctx, P) -> None:
    """The translators above are only as good as their wiring to the native layer: the records must get there, whole and in
    order, and the handle they come from must be the watched directory's."""
    from ..flow import origins
    from ..pse import Cfg

    RWI = ctx.rule(
        "C20/native-wiring",
        "FSEvents: run() registers the watch with the callback and enters the native read loop; the callback builds one native event per "
        "(path, inode, flags, id) column-wise in parameter order and hands the list to queue_events under the lock; _encode_path follows "
        "the watch path's type. Windows: the handle is opened on watch.path at thread start and closed at thread stop; _read_events reads "
        "that handle for watch.path with the watch's recursive flag and queue_events translates exactly what it returns",
        floor=8,
    )
    F = P.cls("FSEventsEmitter")
    rn = F.methods.get("run")
    cb = F.methods.get("events_callback")
    if rn is None or cb is None:
        raise AnalysisError("anchor vanished: FSEventsEmitter.run / events_callback")
    calls = [(dotted(n.func), [ast.unparse(a) for a in n.args]) for n in ast.walk(rn.node) if isinstance(n, ast.Call)]
    aw = [a for f, a in calls if f == "_fsevents.add_watch"]
    re_ = [a for f, a in calls if f == "_fsevents.read_events"]
    pn = [n for n in ast.walk(rn.node) if isinstance(n, ast.Assign) and any(ast.unparse(t) == "self.pathnames" for t in n.targets)]
    ctx.check(len(aw) == 1 and aw[0] == ["self", "self.watch", "self.events_callback", "self.pathnames"], RWI, "FSEvents run registers (emitter, watch, callback, pathnames)", f"add_watch called with {aw}", rn.loc)
    ctx.check(len(re_) == 1 and re_[0] == ["self"], RWI, "FSEvents run enters the native read loop", f"read_events called with {re_}", rn.loc)
    ctx.check(len(pn) == 1 and ast.unparse(pn[0].value) == "[self.watch.path]", RWI, "FSEvents watches exactly the watch path", f"pathnames = {[ast.unparse(x.value) for x in pn]}", rn.loc)
    order_ok = [i for i, (f, _) in enumerate(calls) if f == "_fsevents.add_watch"] < [i for i, (f, _) in enumerate(calls) if f == "_fsevents.read_events"]
    ctx.check(order_ok, RWI, "FSEvents registers before reading", "the read loop is entered before the watch is registered", rn.loc)
    cparams = [a.arg for a in cb.node.args.args if a.arg != "self"]
    comp = [n for n in ast.walk(cb.node) if isinstance(n, ast.ListComp)]
    okc, why = False, "no list comprehension building the native events"
    if comp and len(comp[0].generators) == 1:
        g = comp[0].generators[0]
        zi = g.iter
        elt = comp[0].elt
        if isinstance(zi, ast.Call) and dotted(zi.func) == "zip" and isinstance(g.target, ast.Tuple) and isinstance(elt, ast.Call):
            cols = [ast.unparse(a) for a in zi.args]
            tg = [ast.unparse(a) for a in g.target.elts]
            ea = [ast.unparse(a) for a in elt.args]
            ctor = origins(cb.node, elt.func)
            okc = cols == cparams[:4] and tg == ea and len(tg) == 4 and not g.ifs and all(b == "_fsevents.NativeEvent" and not w for b, w in ctor)
            why = f"columns {cols} (parameters {cparams}), targets {tg}, constructor {sorted(b for b, _ in ctor)}{ea}, filter {bool(g.ifs)}"
    ctx.check(okc, RWI, "FSEvents callback builds NativeEvent(path, inode, flags, id) column-wise", why, cb.loc)
    okq = False
    for p in Enumerator(Cfg(P)).run(cb, selfcls="FSEventsEmitter"):
        for e, held, _p in __import__("sa.pse", fromlist=["walk_with_locks"]).walk_with_locks([p], lambda t: t):
            if e.kind == "call" and e.extra.get("func") == "self.queue_events":
                a = e.extra.get("args") or []
                built = len(a) == 2 and (a[1].startswith("[") or (a[1].isidentifier() and all(b.startswith("expr:[") and not w for b, w in origins(cb.node, ast.Name(a[1], ast.Load())))))
                okq = len(a) == 2 and a[0] == "self.timeout" and built and held.get("self._lock", 0) > 0
    ctx.check(okq, RWI, "FSEvents callback hands the list to queue_events under the lock", "queue_events is not called with (timeout, the built list) under the emitter lock", cb.loc)
    ep = F.methods.get("_encode_path")
    if ep is None:
        raise AnalysisError("anchor vanished: FSEventsEmitter._encode_path")
    par = ([a.arg for a in ep.node.args.args if a.arg != "self"] or ["path"])[0]
    oke, seen = True, set()
    for p in Enumerator(Cfg(P)).run(ep, selfcls="FSEventsEmitter"):
        if p.outcome[0] != "return":
            continue
        isb = p.conds().get("isinstance(self.watch.path, bytes)")
        rt = ast.unparse(p.outcome[1]) if p.outcome[1] is not None else "None"
        seen.add(isb)
        if isb is True and rt != f"os.fsencode({par})":
            oke = False
        if isb is False and rt != par:
            oke = False
        if isb is None:
            oke = False
    ctx.check(oke and seen == {True, False}, RWI, "FSEvents _encode_path follows the watch path type", "_encode_path is not `os.fsencode(path)` for a bytes watch and the identity otherwise (C19 for this emitter)", ep.loc)

    # ---- Windows
    Wc = P.cls("WindowsApiEmitter")
    ts, tp, rd, qe = (Wc.methods.get(m) for m in ("on_thread_start", "on_thread_stop", "_read_events", "queue_events"))
    if None in (ts, tp, rd, qe):
        raise AnalysisError("anchor vanished: WindowsApiEmitter thread hooks / _read_events / queue_events")
    st = [n for n in ast.walk(ts.node) if isinstance(n, ast.Assign) and any(ast.unparse(t) == "self._whandle" for t in n.targets)]
    ctx.check(len(st) == 1 and ast.unparse(st[0].value) == "get_directory_handle(self.watch.path)", RWI, "Windows opens the handle on watch.path", f"_whandle = {[ast.unparse(x.value) for x in st]}", ts.loc)
    okstop = False
    for p in Enumerator(Cfg(P)).run(tp, selfcls="WindowsApiEmitter"):
        h = p.conds().get("self._whandle")
        closes = [e for e in p.evs if e.kind == "call" and e.extra.get("func") == "close_directory_handle" and (e.extra.get("args") or [""])[0] == "self._whandle"]
        if h is True and len(closes) != 1:
            okstop = None
        if h is False and closes:
            okstop = None
        if okstop is False and h is True and len(closes) == 1:
            okstop = True
    ctx.check(okstop is True, RWI, "Windows closes the handle at thread stop iff it has one", "on_thread_stop does not close exactly the open handle", tp.loc)
    okr, seenr = True, set()
    for p in Enumerator(Cfg(P)).run(rd, selfcls="WindowsApiEmitter"):
        if p.outcome[0] != "return":
            continue
        h = p.conds().get("self._whandle")
        rt = ast.unparse(p.outcome[1]) if p.outcome[1] is not None else "None"
        seenr.add(h)
        if h is True and rt != "read_events(self._whandle, self.watch.path, recursive=self.watch.is_recursive)":
            okr = False
        if h is False and rt != "[]":
            okr = False
        if h is None:
            okr = False
    ctx.check(okr and seenr == {True, False}, RWI, "Windows _read_events reads the handle for watch.path with the recursive flag", "_read_events does not return read_events(handle, watch.path, recursive=watch.is_recursive) when it has a handle and [] otherwise", rd.loc)
    # attributes read by the translators exist (the FSEvents callback swallows every exception: a missing attribute silences the emitter)
    from ..flow import check_attrs_initialised

    check_attrs_initialised(ctx, RWI, P, ["FSEventsEmitter", "FSEventsObserver", "WindowsApiEmitter", "WindowsApiObserver"], "in the FSEvents callback it is caught and logged, so every batch is dropped; in the Windows emitter it kills the emitter thread")
    # start-up snapshot: taken of the watch path as str, iff history is to be suppressed (it is what makes 'created' mean 'new')
    os_ = F.methods.get("on_thread_start")
    if os_ is None:
        raise AnalysisError("anchor vanished: FSEventsEmitter.on_thread_start")
    oksn, seensn = True, set()
    for p in Enumerator(Cfg(P)).run(os_, selfcls="FSEventsEmitter"):
        sup = p.conds().get("self.suppress_history")
        isb = p.conds().get("isinstance(self.watch.path, bytes)")
        st_ = [e for e in p.evs if e.kind == "store" and e.extra.get("attr") == "_starting_state"]
        seensn.add(sup)
        if sup is True:
            want = "DirectorySnapshot(os.fsdecode(self.watch.path))" if isb is True else "DirectorySnapshot(self.watch.path)" if isb is False else None
            if len(st_) != 1 or st_[0].extra.get("value") != want:
                oksn = False
        elif sup is False:
            if st_:
                oksn = False
        else:
            oksn = False
    ctx.check(oksn and seensn == {True, False}, RWI, "FSEvents start-up snapshot iff history is suppressed, of the str form of the watch path", "on_thread_start does not store DirectorySnapshot(watch path as str) exactly when suppress_history is set: pre-existing items are reported created (or genuinely new ones suppressed), or the snapshot is keyed by bytes paths the native str paths never match", os_.loc)
    loops = [n for n in ast.walk(qe.node) if isinstance(n, ast.For)]
    okl = False
    if loops:
        o = origins(qe.node, loops[0].iter)
        okl = o == {("expr:self._read_events()", ())} or all(b.startswith("expr:self._read_events()") and not w for b, w in o)
    ctx.check(okl, RWI, "Windows queue_events translates exactly what _read_events returned", "the record loop does not iterate over the result of self._read_events()", qe.loc)


def struct_format_of(P, fi):
    """(format string, number of unpack targets, name of the 4th target, the unpack call) of the record decoder; the format is
    found through struct.unpack_from(fmt, ...) or <S>.unpack_from(...) with S = struct.Struct(fmt) bound at module or function level."""
    structs = {}
    for scope in (fi.module.tree, fi.node):
        for n in ast.walk(scope):
            if isinstance(n, ast.Assign) and isinstance(n.value, ast.Call) and dotted(n.value.func) == "struct.Struct" and n.value.args and len(n.targets) == 1 and isinstance(n.targets[0], ast.Name):
                f = P.fold(n.value.args[0], fi.module)
                if isinstance(f, str):
                    structs[n.targets[0].id] = f
    for n in ast.walk(fi.node):
        if isinstance(n, ast.Assign) and isinstance(n.value, ast.Call) and isinstance(n.value.func, ast.Attribute) and n.value.func.attr in ("unpack_from", "unpack"):
            recv = dotted(n.value.func.value)
            fmt = None
            if recv == "struct" and n.value.args:
                fmt = P.fold(n.value.args[0], fi.module)
            elif recv in structs:
                fmt = structs[recv]
            if isinstance(fmt, str):
                nt = len(n.targets[0].elts) if isinstance(n.targets[0], ast.Tuple) else None
                ln = n.targets[0].elts[3].id if nt == 4 and isinstance(n.targets[0].elts[3], ast.Name) else "length"
                return fmt, nt, ln, n, structs
    return None, None, "length", None, structs


def expand_format(fmt: str) -> str:
    """'4I' -> 'IIII'; byte-order prefix dropped."""
    out, num = "", ""
    for ch in fmt.lstrip("@=<>!"):
        if ch.isdigit():
            num += ch
        elif ch.isspace():
            continue
        else:
            out += ch * (int(num) if num else 1)
            num = ""
    return out


def inotify_header(ctx, RH, P) -> None:
    import struct

    pf = P.find_method("Inotify", "_parse_event_buffer")
    if pf is None:
        raise AnalysisError("anchor vanished: Inotify._parse_event_buffer")
    fmt, ntargets, len_name, call, structs = struct_format_of(P, pf)
    if not isinstance(fmt, str):
        raise AnalysisError("_parse_event_buffer: unpack format not found")
    size = struct.calcsize(fmt)
    codes = expand_format(fmt)
    ctx.check(ntargets == len(codes), RH, f"unpack format {fmt!r} has as many fields as targets", f"format {fmt!r} vs {ntargets} targets", pf.loc)
    ctx.check(
        codes == "iIII",
        RH,
        "unpack format is the kernel's record head (s32 wd, u32 mask, u32 cookie, u32 len)",
        f"the format {fmt!r} decodes the head as `{codes}`; struct inotify_event is `iIII`: the descriptor is signed (the queue-overflow record carries wd = -1 and is filtered by that value; "
        "decoded unsigned it passes the filter and the wd->path lookup raises KeyError in the reader thread), mask / cookie / len are unsigned 32-bit",
        f"{pf.module.relpath}:{call.lineno}",
    )
    # one iteration of the decoding loop, symbolically: with c the cursor on entry, H = calcsize(format), n = the record's len
    # field:  the guard is  c + H <= len(buffer),  the head is unpacked at c,  the name is  buffer[c+H : c+H+n],  the next cursor is
    # c + H + n.  Decided as linear forms over {c, n} on the enumerated path of the loop body, so that literals, named constants,
    # Struct.size and intermediate variables are all the same to the rule.
    from ..pse import Cfg

    local = {}
    for n in ast.walk(pf.node):
        if isinstance(n, ast.Assign) and len(n.targets) == 1 and isinstance(n.targets[0], ast.Name):
            local.setdefault(n.targets[0].id, []).append(n.value)

    def const(e):
        if isinstance(e, ast.Constant) and isinstance(e.value, int) and not isinstance(e.value, bool):
            return e.value
        if isinstance(e, ast.Attribute) and e.attr == "size" and dotted(e.value) in structs:
            return struct.calcsize(structs[dotted(e.value)])
        if isinstance(e, ast.Attribute) and e.attr == "size" and isinstance(e.value, ast.Call) and dotted(e.value.func) == "struct.Struct" and e.value.args:
            f = P.fold(e.value.args[0], pf.module)
            return struct.calcsize(f) if isinstance(f, str) else None
        if isinstance(e, ast.Call) and dotted(e.func) == "struct.calcsize" and e.args:
            f = P.fold(e.args[0], pf.module)
            return struct.calcsize(f) if isinstance(f, str) else None
        if isinstance(e, (ast.Name, ast.Attribute)):
            v = P.fold(e, pf.module)
            return v if isinstance(v, int) and not isinstance(v, bool) else None
        return None

    def lin(e):
        """{'c': k, 'n': k, '1': k} or None."""
        if isinstance(e, ast.BinOp) and isinstance(e.op, (ast.Add, ast.Sub)):
            a, b = lin(e.left), lin(e.right)
            if a is None or b is None:
                return None
            sg = 1 if isinstance(e.op, ast.Add) else -1
            out = dict(a)
            for k, v in b.items():
                out[k] = out.get(k, 0) + sg * v
            return {k: v for k, v in out.items() if v}
        if isinstance(e, ast.Name) and re.fullmatch(r"\w+@L\d+", e.id):
            return {"c": 1}
        if isinstance(e, ast.Subscript) and isinstance(e.value, ast.Call) and isinstance(e.value.func, ast.Attribute) and e.value.func.attr in ("unpack_from", "unpack") and isinstance(e.slice, ast.Constant) and e.slice.value == 3:
            return {"n": 1}
        v = const(e)
        return None if v is None else ({"1": v} if v else {})

    paths = Enumerator(Cfg(P)).run(pf)
    loops = [e for p in paths for e in p.evs if e.kind == "loop" and e.extra.get("kind") == "while"]
    if not loops:
        raise AnalysisError("anchor vanished: decoding loop of Inotify._parse_event_buffer")
    bodies = [b for b in loops[0].extra["paths"] if b.outcome is NORMAL or b.outcome == ("continue",)]
    if not bodies:
        raise AnalysisError("decoding loop: no iteration path")
    where = f"{pf.module.relpath}:{loops[0].line}"
    H = {"1": size} if size else {}
    for b in bodies:
        guard = next((e for e in b.evs if e.kind == "cond" and e.extra.get("truth") is True and isinstance(e.extra.get("term"), ast.Compare) and "len(" in e.text), None)
        g_ok = False
        if guard is not None:
            t = guard.extra["term"]
            if isinstance(t.ops[0], ast.LtE) and ast.unparse(t.comparators[0]).startswith("len("):
                g_ok = lin(t.left) == {"c": 1, **H}
            elif isinstance(t.ops[0], ast.GtE) and ast.unparse(t.left).startswith("len("):
                g_ok = lin(t.comparators[0]) == {"c": 1, **H}
        ctx.check(g_ok, RH, "decoder: the loop guard is cursor + header size <= len(buffer)", f"the guard `{guard.text if guard is not None else None}` is not `cursor + {size} <= len(buffer)`: a truncated head is unpacked (struct.error in the reader thread) or a complete last record is dropped", where)
        un = [e for e in b.evs if e.kind == "call" and isinstance(e.extra.get("term"), ast.Call) and isinstance(e.extra["term"].func, ast.Attribute) and e.extra["term"].func.attr in ("unpack_from", "unpack")]
        off_ok = False
        if un:
            a = un[0].extra["term"].args
            off = a[-1] if a else None
            off_ok = off is not None and lin(off) == {"c": 1}
        ctx.check(off_ok, RH, "decoder: the head is unpacked at the cursor", f"unpack call `{un[0].text[:80] if un else None}` does not read at the cursor", where)
        ys = [e for e in b.evs if e.kind == "yield"]
        nm_ok, got = False, None
        if ys and isinstance(ys[0].extra.get("term"), ast.Tuple) and len(ys[0].extra["term"].elts) == 4:
            nm = ys[0].extra["term"].elts[3]
            sl = next((x for x in ast.walk(nm) if isinstance(x, ast.Subscript) and isinstance(x.slice, ast.Slice)), None)
            if sl is not None and sl.slice.lower is not None and sl.slice.upper is not None:
                got = (lin(sl.slice.lower), lin(sl.slice.upper))
                nm_ok = got == ({"c": 1, **H}, {"c": 1, "n": 1, **H})
        ctx.check(nm_ok, RH, "decoder: the name is buffer[cursor + header size : cursor + header size + len]", f"the name slice has bounds {got}; expected cursor+{size} : cursor+{size}+len", where)
        cur_names = {x.id.split("@")[0] for e in b.evs if isinstance(e.extra.get("term"), ast.AST) for x in ast.walk(e.extra["term"]) if isinstance(x, ast.Name) and re.fullmatch(r"\w+@L\d+", x.id)}
        adv = [e for e in b.evs if e.kind == "assign" and e.extra.get("name") in cur_names]
        adv_ok = bool(adv) and lin(adv[-1].extra.get("term")) == {"c": 1, "n": 1, **H}
        ctx.check(adv_ok, RH, "decoder: the cursor advances by header size + len", f"the cursor becomes `{adv[-1].text[:80] if adv else None}`; expected cursor + {size} + len: records after the first are mis-aligned", where)


def ctypes_layout(P, module, clsname: str) -> dict:
    """{"size": sizeof, "offsets": {field: offset}} of a ctypes.Structure of the module, computed from its _fields_ with natural
    alignment (no _pack_): the sizes are those of the Windows ABI the structure is declared for."""
    SIZES = {"DWORD": 4, "ULONG": 4, "LONG": 4, "UINT": 4, "INT": 4, "BOOL": 4, "c_uint32": 4, "c_int32": 4, "c_int": 4, "c_uint": 4, "c_long": 4, "c_ulong": 4,
             "WORD": 2, "USHORT": 2, "SHORT": 2, "WCHAR": 2, "c_wchar": 2, "c_uint16": 2, "c_int16": 2, "c_short": 2, "c_ushort": 2,
             "BYTE": 1, "CHAR": 1, "c_char": 1, "c_byte": 1, "c_ubyte": 1, "c_uint8": 1, "c_int8": 1, "BOOLEAN": 1,
             "c_uint64": 8, "c_int64": 8, "c_longlong": 8, "c_ulonglong": 8, "c_void_p": 8, "HANDLE": 8, "LPVOID": 8, "LPCWSTR": 8, "LPWSTR": 8, "c_size_t": 8, "c_double": 8}
    ci = module.classes.get(clsname)
    if ci is None or "_fields_" not in ci.attrs or "_pack_" in ci.attrs:
        raise AnalysisError(f"ctypes layout of {clsname}: _fields_ not found (or packed)")
    fields = ci.attrs["_fields_"]
    if not isinstance(fields, (ast.Tuple, ast.List)):
        raise AnalysisError(f"ctypes layout of {clsname}: _fields_ is not a display")

    def size_align(t):
        if isinstance(t, ast.BinOp) and isinstance(t.op, ast.Mult):
            n = P.fold(t.right, module)
            s_, a_ = size_align(t.left)
            if not isinstance(n, int):
                raise AnalysisError(f"ctypes layout of {clsname}: array length does not fold")
            return s_ * n, a_
        nm = (dotted(t) or "").split(".")[-1]
        if nm not in SIZES:
            raise AnalysisError(f"ctypes layout of {clsname}: unknown field type {ast.unparse(t)}")
        return SIZES[nm], SIZES[nm]

    off, maxal, offsets = 0, 1, {}
    for f_ in fields.elts:
        if not (isinstance(f_, ast.Tuple) and len(f_.elts) == 2 and isinstance(f_.elts[0], ast.Constant)):
            raise AnalysisError(f"ctypes layout of {clsname}: field entry not understood")
        sz, al = size_align(f_.elts[1])
        off = (off + al - 1) // al * al
        offsets[f_.elts[0].value] = off
        off += sz
        maxal = max(maxal, al)
    return {"size": (off + maxal - 1) // maxal * maxal, "offsets": offsets}


def run(ctx) -> None:
    P = ctx.P
    RWn = ctx.rule("C20/windows-emission-contract", "per ReadDirectoryChangesW action: ADDED -> created of the entry's kind (+ sub-created for a directory under a recursive watch); REMOVED -> deleted of the entry's kind; MODIFIED -> modified of the entry's kind; RENAMED_OLD then RENAMED_NEW -> one moved(source, destination) of the entry's kind (+ sub-moved for a directory under a recursive watch); REMOVED_SELF -> DirDeletedEvent(root) and stop", floor=8)
    RF = ctx.rule("C20/fsevents-emission-invariants", "per flag combination: flavour from the native item; renamed with partner -> one moved(source,destination) + both parents + sub-moved; renamed without partner and existing -> created + parent + sub-created; not existing -> deleted + parent; removed -> deleted + parent; created only if not historic; root changed -> DirDeletedEvent(root) and stop", floor=20)
    RV = ctx.rule("C20/fsevents-inode-bookkeeping", "on every path an item reported deleted has its inode discarded from the view of known inodes afterwards, and an item that still exists has it recorded (otherwise a re-used inode suppresses a genuine created event)", floor=10)
    RN = ctx.rule("C20/nonrecursive-filter-unbypassable", "in FSEventsEmitter the base queue_event is called only from the override, under is_recursive or not _is_recursive_event(event)", floor=2)
    RH = ctx.rule("C20/header-constants-agree", "in Inotify._parse_event_buffer the literal header size used in the bound, the slice and the advance equals struct.calcsize of the unpack format, and the advance adds the record's own length", floor=4)
    RD = ctx.rule("C20/windows-buffer-walk", "winapi._parse_event_buffer advances by NextEntryOffset, stops when it is not positive, and decodes FileNameLength bytes at the FileName offset as UTF-16", floor=3)

    # ================================================================ Windows
    wf = P.find_method("WindowsApiEmitter", "queue_events")
    if wf is None:
        raise AnalysisError("anchor vanished: WindowsApiEmitter.queue_events")
    cfg = WinCfg(P, {})
    cfg.exclusive.append({f"W.{k}" for k in WIN_FLAGS})
    wpaths = Enumerator(cfg).run(wf, selfcls="WindowsApiEmitter")
    loops = find_loops(wpaths, lambda e: e.extra.get("kind") == "for" and any(x.kind == "cond" and x.text.startswith("W.") for b in e.extra["paths"] for x in b.evs))
    if not loops:
        raise AnalysisError("anchor vanished: per-record loop of WindowsApiEmitter.queue_events")
    body = loops[0].extra["paths"]
    ctx.count("windows_paths", len(body))
    # exclusivity read from the source: the properties compare self.action with distinct constants
    wm = P.module("watchdog.observers.winapi")
    ne = wm.classes.get("WinAPINativeEvent")
    consts = {}
    if ne:
        for m, fi in ne.methods.items():
            for n in ast.walk(fi.node):
                if isinstance(n, ast.Return) and isinstance(n.value, ast.Compare) and ast.unparse(n.value.left) == "self.action":
                    consts[m] = P.fold(n.value.comparators[0], wm)
    ctx.check(len(set(consts.values())) == len(consts) == 6 and None not in consts.values(), RWn, "actions are distinct constants", f"action predicates are not pairwise exclusive: {consts}", ne.loc if ne else wf.loc)
    ENTRY = "os.path.join(self.watch.path, W.src_path)"
    # the local that remembers the rename source: the one assigned the entry path on the RENAMED_OLD path
    REM = None
    for b in body:
        if b.conds().get("W.is_renamed_old") is True:
            for e in b.evs:
                if e.kind == "assign" and e.text.endswith("= " + ENTRY):
                    REM = e.extra.get("name")
    if REM is None:
        raise AnalysisError("WindowsApiEmitter.queue_events: the variable that remembers the RENAMED_OLD path was not found")
    seen_kinds = set()
    for b in body:
        c = b.conds()
        pos = [k for k in WIN_FLAGS if c.get(f"W.{k}") is True]
        kind = pos[0] if len(pos) == 1 else "none"
        seen_kinds.add(kind)
        ems = emissions_of(b.evs, P, {})
        isdir = None
        for a, t in c.items():
            if a.startswith("os.path.isdir("):
                isdir = t
        rec = c.get("self.watch.is_recursive")
        loc = f"{wf.module.relpath}:{getattr(ems[0].node, 'lineno', wf.node.lineno) if ems else wf.node.lineno}"
        construct = f"action={kind} isdir={isdir} recursive={rec}"
        fl = "Dir" if isdir else "File"
        brief = " ; ".join(e.brief() for e in ems) or "(nothing)"
        if kind == "is_renamed_old":
            sets = [e for e in b.evs if e.kind == "assign" and e.extra.get("name") == REM and ENTRY in e.text]
            ctx.check(not ems and bool(sets), RWn, construct, f"RENAMED_OLD must only remember the source path; does: {brief}", loc)
        elif kind == "is_renamed_new":
            ok = bool(ems) and ems[0].kind == "E" and isdir is not None and ems[0].cls == f"{fl}MovedEvent" and len(ems[0].args) == 2 and ems[0].args[0].startswith(REM) and ems[0].args[1] == ENTRY
            want_sub = bool(isdir) and rec is True
            subs = [e for e in ems[1:] if e.kind == "G"]  # "G?": the generator is iterated but its elements are not all queued
            ok = ok and len(ems) == (2 if want_sub else 1) and (not want_sub or (subs and subs[0].cls == "generate_sub_moved_events" and subs[0].args[:1] and subs[0].args[0].startswith(REM) and subs[0].args[1] == ENTRY))
            if isdir and rec is None:
                ok = False
            ctx.check(ok, RWn, construct, f"RENAMED_NEW emits {brief}; expected one {fl}MovedEvent(remembered source, entry){' + sub-moved events' if want_sub else ''}", loc)
        elif kind == "is_modified":
            ok = len(ems) == 1 and isdir is not None and ems[0].cls == f"{fl}ModifiedEvent" and ems[0].args == [ENTRY]
            ctx.check(ok, RWn, construct, f"MODIFIED emits {brief}; expected {fl}ModifiedEvent(entry)", loc)
        elif kind == "is_added":
            want_sub = bool(isdir) and rec is True
            ok = bool(ems) and isdir is not None and ems[0].cls == f"{fl}CreatedEvent" and ems[0].args == [ENTRY] and len(ems) == (2 if want_sub else 1)
            if want_sub:
                ok = ok and ems[1].kind == "G" and ems[1].cls == "generate_sub_created_events" and ems[1].args == [ENTRY]
            if isdir and rec is None:
                ok = False
            ctx.check(ok, RWn, construct, f"ADDED emits {brief}; expected {fl}CreatedEvent(entry){' + sub-created events' if want_sub else ''}", loc)
        elif kind == "is_removed":
            # the API gives no kind for a vanished entry; the contract still asks for the entry's kind
            decided = isdir is not None
            one = len(ems) == 1 and ems[0].kind == "E" and ems[0].cls.endswith("DeletedEvent") and ems[0].args == [ENTRY]
            ctx.check(one, RWn, "action=is_removed emits one deleted(entry)", f"REMOVED emits {brief}; expected exactly one deleted event carrying the entry's path (a removal that is not reported leaves the entry in every replay)", loc)
            ok = (not one) or (decided and ems[0].cls == f"{fl}DeletedEvent")
            ctx.check(ok, RWn, "action=is_removed flavour", f"REMOVED emits {brief} whatever the entry was: a deleted directory is reported as FileDeletedEvent (a replay keeps a phantom directory; C03 flavour clause)", loc)
        elif kind == "is_removed_self":
            ok = len(ems) == 2 and ems[0].kind == "E" and ems[0].cls == "DirDeletedEvent" and ems[0].args == ["self.watch.path"] and ems[1].kind == "STOP"
            ctx.check(ok, RWn, construct, f"REMOVED_SELF emits {brief}; expected DirDeletedEvent(root) then stop", loc)
        else:
            ctx.check(not ems, RWn, construct, f"an unknown action emits {brief}", loc, nontrivial=False)
        ctx.sample({"windows": construct, "emits": brief[:160]})
    for k in WIN_FLAGS:
        ctx.check(k in seen_kinds, RWn, f"coverage action={k}", "no path handles this action", wf.loc)
    # rename state does not leak across batches: initialised per call, before the loop
    inits = [n for n in ast.walk(wf.node) if isinstance(n, ast.Assign) and any(isinstance(t, ast.Name) and t.id == REM for t in n.targets) and isinstance(n.value, ast.Constant)]
    ctx.check(bool(inits), RWn, "rename source is reset per batch", "the remembered rename source is not initialised at the start of each batch", wf.loc)

    # ================================================================ FSEvents
    ff = P.find_method("FSEventsEmitter", "queue_events")
    if ff is None:
        raise AnalysisError("anchor vanished: FSEventsEmitter.queue_events")
    fparams = [a.arg for a in ff.node.args.args]
    if len(fparams) < 3:
        raise AnalysisError("FSEventsEmitter.queue_events: batch parameter not found")
    BATCH[0] = fparams[2]
    from .. import emit as _emit

    FS_SINKS.clear()
    FS_SINKS.update(filtered_sinks(P) - {"queue_event"})
    _emit.EXTRA_SINKS.clear()
    _emit.EXTRA_SINKS.update(FS_SINKS)
    ctx.extra["fsevents_filtered_hand_overs"] = sorted(FS_SINKS | {"queue_event"})
    fpaths = Enumerator(FsCfg(P, {})).run(ff, selfcls="FSEventsEmitter")
    wl = find_loops(fpaths, lambda e: e.extra.get("kind") == "while" and e.text == BATCH[0])
    if not wl:
        raise AnalysisError("anchor vanished: `while events:` loop of FSEventsEmitter.queue_events")
    fbody = wl[0].extra["paths"]
    ctx.count("fsevents_paths", len(fbody))
    SRC = "self._encode_path(ev.path)"
    DST_RE = r"self\._encode_path\((self\._encode_path\()?dst\.path\)\)?"
    seen_f: dict[str, tuple] = {}
    seen_v: dict[str, tuple] = {}
    for b in fbody:
        c = {fs_alias(a): t for a, t in b.conds().items()}
        ems = emissions_of(b.evs, P, {})
        for e in ems:
            e.args = [fs_alias(a) for a in e.args]
        C, R, N = c.get("ev.is_created"), c.get("ev.is_removed"), c.get("ev.is_renamed")
        # a filtered hand-over that told its caller "not forwarded" (non-recursive watch, entry deeper than the root's children)
        rejected = any(t is False and a.startswith("self.") and a.split("(")[0][5:] in FS_SINKS for a, t in c.items())
        H = c.get("self._is_historic_created_event(ev)")
        D = c.get("dst")
        st_ok = None
        for a, t in c.items():
            if a.startswith("os.stat(") and "st_ino" not in a:
                st_ok = t
        ino = next((t for a, t in c.items() if "st_ino == ev.inode" in a), None)
        # "the item is still at its path": the stat succeeded and reports the event's inode.  The failed stat may show as a falsy
        # result (`stat = None` in the handler) or as the OSError absorbed at the call (a probe helper that returns False)
        stat_failed = any(e.kind == "caught" and str(e.text).startswith("OSError") for e in b.evs) and any(e.kind == "raised" and e.extra.get("at", "").startswith("os.stat(") for e in b.evs)
        X = (st_ok and ino) if st_ok is not None else (ino if ino is not None and not stat_failed else None)
        if st_ok is False or stat_failed:
            X = False
        elif st_ok is True and ino is False:
            X = False
        root = c.get("ev.is_root_changed")
        isdir = c.get("ev.is_directory")
        sig = f"created={C} removed={R} renamed={N} partner={D} exists={X} historic={H} root={root} isdir={isdir}"
        brief = " ; ".join(e.brief() for e in ems) or "(nothing)"
        prim = [e for e in ems if e.kind == "E" and e.args and e.args[0] == SRC]
        problems = []
        # flavour: every event about the item itself follows its is_directory
        for e in prim:
            if e.cls.startswith(("Dir", "File")) and isdir is not None and not e.cls.endswith("ModifiedEvent") or (e.cls.endswith("ModifiedEvent") and isdir is not None):
                if e.cls.startswith("Dir") != bool(isdir):
                    problems.append(f"{e.cls} emitted for an item whose is_directory is {isdir}")
        created = [e for e in prim if e.cls.endswith("CreatedEvent")]
        deleted = [e for e in prim if e.cls.endswith("DeletedEvent")]
        moved = [e for e in ems if e.kind == "E" and e.cls.endswith("MovedEvent")]
        if C is True and R is True:
            if H is False and len(created) != 1:
                problems.append("created∧removed, not historic: exactly one created event expected")
            if H is True and created:
                problems.append("a historic item is reported created")
            if len(deleted) != 1:
                problems.append("created∧removed: exactly one deleted event expected")
            if created and deleted and ems.index(created[0]) > ems.index(deleted[0]):
                problems.append("deleted before created")
            if moved:
                problems.append("a created∧removed item cannot be a rename")
        else:
            exp_created = (1 if (C is True and H is False) else 0) + (1 if (N is True and not D and X) else 0)
            if len(created) != exp_created:
                problems.append(f"{len(created)} created events, expected {exp_created}")
            exp_deleted = (1 if (N is True and not D and not X) else 0)
            if not (N is True and not D and not X):
                exp_deleted += 1 if R is True else 0
            if len(deleted) != exp_deleted:
                problems.append(f"{len(deleted)} deleted events, expected {exp_deleted}")
            if N is True and D:
                mv = [e for e in moved if len(e.args) == 2 and e.args[0] == SRC and re.fullmatch(DST_RE, e.args[1])]
                if len(mv) != 1 or len(moved) != 1:
                    problems.append(f"renamed with partner: expected exactly one moved(source, destination), found {[e.brief() for e in moved]}")
                gens = [e for e in ems if e.kind == "G" and e.cls == "generate_sub_moved_events"]
                if rejected and not gens:
                    pass  # the directory's own event did not pass the non-recursive filter: nothing below it would
                elif len(gens) != 1 or gens[0].args[:1] != [SRC]:
                    problems.append("renamed with partner: synthetic sub-moved events missing or from the wrong source")
                par = [e for e in ems if e.kind == "E" and e.cls == "DirModifiedEvent" and e.args and "os.path.dirname(" in e.args[0]]
                if len(par) < 2:
                    problems.append("renamed with partner: both parent directories must be reported modified")
            elif moved:
                problems.append("a moved event without a partner event")
            if N is True and not D and X:
                gens = [e for e in ems if e.kind == "G" and e.cls == "generate_sub_created_events"]
                if rejected and not gens:
                    pass
                elif len(gens) != 1 or gens[0].args != [SRC]:
                    problems.append("moved in: synthetic sub-created events missing")
        # content / metadata changes: exactly one modified event of the item's flavour per flagged record (also for the partner)
        M, MM = c.get("ev.is_modified"), c.get("self._is_meta_mod(ev)")
        mods = [e for e in prim if e.cls.endswith("ModifiedEvent")]
        if M is None or (M is False and MM is None):
            problems.append("the record's modified / metadata flags are not consulted on this path: content changes coalesced into this record go unreported")
        if M is True or MM is True:
            if len(mods) != 1:
                problems.append(f"modified / metadata flag set: exactly one modified event for the item expected, found {len(mods)}")
        elif M is False and MM is False and mods:
            problems.append("a modified event for an item whose record carries neither the modified nor a metadata flag")
        if D:
            DM, DMM = c.get("dst.is_modified"), c.get("self._is_meta_mod(dst)")
            dmods = [e for e in ems if e.kind == "E" and e.cls.endswith("ModifiedEvent") and e.args and re.fullmatch(DST_RE, e.args[0])]
            if DM is None or (DM is False and DMM is None):
                problems.append("the rename partner's modified / metadata flags are not consulted: a change coalesced into the destination record goes unreported")
            if (DM is True or DMM is True) and len(dmods) != 1:
                problems.append(f"the rename partner carries a modified / metadata flag: exactly one modified event under the new path expected, found {len(dmods)}")
            if DM is False and DMM is False and dmods:
                problems.append("a modified event for a rename partner without modified / metadata flag")
        if D and not NEXT_FORM[0] and not (c.get("dst.is_renamed") is True and (c.get("dst.inode == ev.inode") is True or c.get("ev.inode == dst.inode") is True)):
            problems.append("the rename partner is taken from the batch without the test `is_renamed and same inode`: an unrelated record is consumed as the destination")
        if D:
            DR = c.get("dst.is_removed")
            ddel = [e for e in ems if e.kind == "E" and e.cls.endswith("DeletedEvent") and e.args and re.fullmatch(DST_RE, e.args[0])]
            if DR is None:
                problems.append("the rename partner's removed flag is not consulted: an item renamed and then removed stays in every replay")
            elif DR is True and len(ddel) != 1:
                problems.append(f"the rename partner is also removed: exactly one deleted event under the new path expected, found {len(ddel)}")
            elif DR is False and ddel:
                problems.append("a deleted event under the new path although the partner record is not removed")
            taken = [x for x in b.evs if x.kind == "call" and x.extra.get("func") == f"{BATCH[0]}.remove" and fs_alias((x.extra.get("args") or [""])[0]) == "dst"]
            if len(taken) != 1:
                problems.append("the partner record is not taken out of the batch: it is translated a second time as an unpaired rename (a spurious created event)")
        if any(e.kind == "G?" for e in ems):
            problems.append("a synthetic-event generator is iterated but its elements are not all queued")
        for e in created + deleted:
            i = ems.index(e)
            nxt = ems[i + 1] if i + 1 < len(ems) else None
            if not (nxt is not None and nxt.kind == "E" and nxt.cls == "DirModifiedEvent" and nxt.args == [f"os.path.dirname({SRC})"]):
                problems.append(f"{e.cls} is not followed by the parent's DirModifiedEvent")
        if root is True and not (N is True and not D and not X):
            tail = ems[-2:]
            if not (len(tail) == 2 and tail[0].kind == "E" and tail[0].cls == "DirDeletedEvent" and tail[0].args == ["self.watch.path"] and tail[1].kind == "STOP"):
                problems.append("root changed: expected DirDeletedEvent(root) then stop at the end")
        key = sig
        if problems:
            if key not in seen_f or seen_f[key][0]:
                seen_f[key] = (False, "; ".join(sorted(set(problems))) + f" — emits: {brief[:200]}")
        else:
            seen_f.setdefault(key, (True, ""))
        # inode bookkeeping: the last thing the path does to the item's inode in the view must agree with the last thing it
        # reports about the item's existence (the partner of a rename is the same item: it was selected by inode equality)
        vops = [(i, x) for i, x in enumerate(b.evs) if x.kind == "call" and re.fullmatch(r"self\._fs_view\.(add|discard|remove|clear)", x.extra.get("func", ""))]
        vp = []
        life = []
        ptr = 0
        for em in ems:
            if em.kind != "E" or not em.args:
                continue
            about_item = em.args[0] == SRC or re.fullmatch(DST_RE, em.args[0]) or em.cls.endswith("MovedEvent")
            if not about_item or not em.cls.endswith(("CreatedEvent", "DeletedEvent", "MovedEvent")):
                continue
            j = next((k for k in range(ptr, len(b.evs)) if b.evs[k].node is em.node), None)
            if j is None:
                j = ptr
            ptr = j + 1
            life.append((j, "gone" if em.cls.endswith("DeletedEvent") else "exists", em.brief()))
        iops = []
        for i, x in vops:
            op = x.extra.get("func").rsplit(".", 1)[1]
            a0 = fs_alias((x.extra.get("args") or [""])[0])
            if op == "clear":
                iops.append((i, "clear"))
            elif a0 in ("ev.inode", "dst.inode"):
                iops.append((i, "add" if op == "add" else "discard"))
        final = life[-1][1] if life else "exists"
        last = iops[-1][1] if iops else None
        if last != "clear":
            if final == "gone" and last != "discard":
                vp.append(f"the item is last reported deleted ({life[-1][2][:60]}) but the last operation on its inode in the view of known inodes is `{last}`: when the file system re-uses the inode (or a hard link to it shows up), the new item's created event is suppressed as 'historic'")
            if final == "exists" and last != "add":
                vp.append(f"an item that still exists is not recorded in the view of known inodes (last operation: `{last}`): its spurious 'created' flag would be reported again")
        vkey = f"created={C} removed={R} renamed={N} partner={D} exists={X}"
        if vp:
            seen_v[vkey] = (False, "; ".join(vp))
        else:
            seen_v.setdefault(vkey, (True, ""))
    for k, (ok, msg) in sorted(seen_f.items()):
        ctx.check(ok, RF, k, msg, ff.loc)
    for k, (ok, msg) in sorted(seen_v.items()):
        ctx.check(ok, RV, k, msg, ff.loc)
    ctx.sample({"fsevents_valuation_classes": len(seen_f)})

    # ---------------------------------------------------------------- non-recursive filter
    F = P.cls("FSEventsEmitter")
    base_calls = []
    for m, fi in F.methods.items():
        for n in ast.walk(fi.node):
            if isinstance(n, ast.Call) and isinstance(n.func, ast.Attribute) and n.func.attr == "queue_event":
                recv = ast.unparse(n.func.value)
                if recv in ("EventEmitter", "super()"):
                    base_calls.append((m, n))
    sinks_all = filtered_sinks(P) | {"queue_event"}
    # a method that forwards to the base unconditionally is fine only as the second half of a filtered hand-over: every call of it,
    # anywhere in the class, must sit inside a filtered hand-over (which established the filter for the event it passes on)
    direct = {m for m, n in base_calls}
    bad_callers = []
    for r_ in sorted(direct - sinks_all):
        for m, fi in F.methods.items():
            for n in ast.walk(fi.node):
                if isinstance(n, ast.Call) and isinstance(n.func, ast.Attribute) and n.func.attr == r_ and ast.unparse(n.func.value) == "self" and m not in sinks_all:
                    bad_callers.append(f"{m} -> {r_}")
    ok = bool(base_calls) and not bad_callers and all(m in sinks_all or any(isinstance(n2, ast.Call) and isinstance(n2.func, ast.Attribute) and n2.func.attr == m for s_ in sinks_all if s_ in F.methods for n2 in ast.walk(F.methods[s_].node)) for m in direct)
    ctx.check(ok, RN, "base queue_event only called from the override", f"the base queue_event is called from {sorted(direct)} (unfiltered callers: {bad_callers}): events reach the queue without passing the non-recursive filter", F.loc)
    qf = F.methods.get("queue_event")
    if qf is None:
        ctx.viol(RN, "FSEventsEmitter overrides queue_event", "the filtering override is gone", F.loc)
    else:
        from ..pse import Cfg

        okg = True
        for p in Enumerator(Cfg(P)).run(qf, selfcls="FSEventsEmitter"):
            calls = [e for e in p.evs if e.kind == "call" and e.extra.get("func") in ("EventEmitter.queue_event", "super().queue_event")]
            c = p.conds()
            rec = c.get("self._watch.is_recursive", c.get("self.watch.is_recursive"))
            isrec = c.get("self._is_recursive_event(event)")
            allowed = rec is True or isrec is False
            if calls and not allowed:
                okg = False
            if not calls and allowed:
                okg = False
        ctx.check(okg, RN, "override forwards iff recursive watch or a direct child", "the override forwards events that lie deeper than the root's direct children for a non-recursive watch (or drops direct ones)", qf.loc)

        # the forwarded call hands over exactly (this emitter, the event)
        evp = ([a.arg for a in qf.node.args.args if a.arg != "self"] or ["event"])[0]
        for m, n in base_calls:
            if m not in sinks_all and not [a.arg for a in F.methods[m].node.args.args if a.arg != "self"]:
                continue
            evp = ([a.arg for a in F.methods[m].node.args.args if a.arg != "self"] or ["event"])[0]
            recv = ast.unparse(n.func.value)
            args = [ast.unparse(a) for a in n.args]
            want = ["self", evp] if recv == "EventEmitter" else [evp]
            ctx.check(args == want, RN, "override forwards (self, event)", f"the base queue_event is called with {args}, expected {want}", f"{F.module.relpath}:{n.lineno}")
    fsevents_predicates(ctx, P, F)

    # the sub-events both layers emit for a renamed / added directory come from the shared generators: their sources and destinations
    # decide whether a replay of the stream reproduces the tree below a renamed directory (the rules of C14, shared)
    RSYN = ctx.rule(
        "C20/sub-events-name-the-descendants",
        "every synthetic sub-event of a renamed or added directory carries join(walk root, name) and, for moves, the prefix-anchored rewrite of that path to the old directory as its source (instances shared with C14)",
        floor=8,
    )
    from .c14 import generators as _c14_generators

    _c14_generators(ctx, RSYN, RSYN, P)

    native_wiring(ctx, P)

    inotify_header(ctx, RH, P)

    # ---------------------------------------------------------------- Windows buffer walk
    bf = wm.functions.get("_parse_event_buffer")
    if bf is None:
        raise AnalysisError("anchor vanished: winapi._parse_event_buffer")
    # the walk is the while loop of _parse_event_buffer or of a module-level function it draws its records from; its body paths are
    # enumerated with the module's helper functions inlined, so every quantity is a term over the loop's own buffer / count
    class _WalkCfg(Cfg):
        def inline(self, call, ft, rc, st):
            if isinstance(call.func, ast.Name) and st.module is not None and call.func.id in st.module.functions and call.func.id not in st.env:
                fi_ = st.module.functions[call.func.id]
                if not any(isinstance(n, (ast.Yield, ast.YieldFrom)) for n in ast.walk(fi_.node)):
                    return fi_, st.selfcls, None
            return None

    cands, seen_f, todo = [], set(), ["_parse_event_buffer"]
    while todo:
        fn_ = todo.pop(0)
        if fn_ in seen_f or fn_ not in wm.functions:
            continue
        seen_f.add(fn_)
        if any(isinstance(n, ast.While) for n in ast.walk(wm.functions[fn_].node)):
            cands.append(wm.functions[fn_])
        todo += [n.func.id for n in ast.walk(wm.functions[fn_].node) if isinstance(n, ast.Call) and isinstance(n.func, ast.Name)]
    walks = []
    for cf in cands:
        for L in find_loops(Enumerator(_WalkCfg(P)).run(cf), lambda e: e.extra.get("kind") == "while"):
            if any(".NextEntryOffset" in x.text for b_ in L.extra["paths"] for x in b_.evs):
                walks.append((cf, L))
    if not walks:
        raise AnalysisError("anchor vanished: the while loop of winapi._parse_event_buffer that walks the records by NextEntryOffset")
    adv_ok = stop_ok = name_ok = True
    why_adv = why_stop = why_name = ""
    ncont = nleave = 0
    layout = ctypes_layout(P, wm, "FileNotifyInformation")
    min_record = layout["offsets"].get("FileName", 0) + 2  # the header and a name of one UTF-16 code unit
    ctx.extra["windows_record_layout"] = {"sizeof": layout["size"], "FileName.offset": layout["offsets"].get("FileName"), "shortest_record": min_record}
    NAMEOFF = "FileNotifyInformation.FileName.offset"
    for cf, L in walks:
        fparams = {a_.arg for a_ in cf.node.args.args}
        # what the loop's buffer was before the loop (a view limited to the returned byte count, or the whole buffer)
        pre = {}
        for n_ in ast.walk(cf.node):
            if isinstance(n_, ast.Assign) and len(n_.targets) == 1 and isinstance(n_.targets[0], ast.Name) and n_.lineno < L.node.lineno:
                pre.setdefault(n_.targets[0].id, ast.unparse(n_.value))
        for b_ in L.extra["paths"]:
            if b_.outcome[0] == "raise":
                continue
            # the record at the cursor: ctypes.cast(<buffer>, LPFNI)[0], or FileNotifyInformation.from_buffer[_copy](<buffer>[, <offset>])
            recs = {}
            for x in b_.evs:
                for m_ in re.finditer(r"ctypes\.cast\((\w+)@L\d+, LPFNI\)\[0\]", x.text):
                    recs[m_.group(0)] = ("cast", m_.group(1), True, None)
                for m_ in re.finditer(r"FileNotifyInformation\.from_buffer(?:_copy)?\((\w+)(@L\d+)?(?:, (\w+)@L\d+)?\)", x.text):
                    recs[m_.group(0)] = ("from_buffer", m_.group(1), bool(m_.group(2)), m_.group(3))
            if len(recs) != 1:
                raise AnalysisError(f"winapi buffer walk: the record at the cursor is read by an idiom this rule does not know ({sorted(recs)}); known: ctypes.cast(buffer, LPFNI)[0], FileNotifyInformation.from_buffer[_copy](buffer[, offset])")
            (REC, (style, buf, buf_carried, off)), = recs.items()
            NEO = f"{REC}.NextEntryOffset"
            c_ = b_.conds()
            positive = (
                any(c_.get(f"{NEO} {op}") is False for op in ("<= 0", "== 0", "< 1"))
                or any(c_.get(f"{NEO} {op}") is True for op in ("> 0", ">= 1"))
                or c_.get(NEO) is True
            )
            # the name: FileNameLength bytes at the FileName offset of this record, decoded as UTF-16
            wants = []
            if style == "cast":
                wants += [
                    f"ctypes.string_at(ctypes.addressof({REC}) + {NAMEOFF}, {REC}.FileNameLength).decode('utf-16')",
                    f"ctypes.string_at({NAMEOFF} + ctypes.addressof({REC}), {REC}.FileNameLength).decode('utf-16')",
                ]
            else:
                bref = re.search(rf"\(({buf}(?:@L\d+)?)[,)]", REC).group(1)
                oref = re.search(rf", ({off}@L\d+)\)", REC).group(1) if off else None
                for S in ([f"{oref} + {NAMEOFF}", f"{NAMEOFF} + {oref}"] if oref else [NAMEOFF]):
                    sl = f"{bref}[{S}:{S} + {REC}.FileNameLength]"
                    wants += [f"{sl}.decode('utf-16')", f"{sl}.tobytes().decode('utf-16')", f"bytes({sl}).decode('utf-16')"]
            outs = [x for x in b_.evs if x.kind == "yield" or (x.kind == "call" and x.extra.get("func", "").endswith(".append"))]
            if not outs or not all(any(w in x.text for w in wants) for x in outs):
                name_ok, why_name = False, "a record is handed on whose name is not the record's FileNameLength bytes at its FileName offset, decoded as UTF-16"
            # a structure read through from_buffer[_copy] needs sizeof(structure) bytes behind the cursor: the buffer must be the whole
            # read buffer, not a view cut to the returned byte count (the last record of a read is not padded)
            if style == "from_buffer":
                origin = pre.get(buf, buf if buf in fparams else "")
                whole = (buf in fparams and buf not in pre) or re.fullmatch(r"(?:memoryview|bytes|bytearray)\((\w+)\)", origin) is not None and re.fullmatch(r"(?:memoryview|bytes|bytearray)\((\w+)\)", origin).group(1) in fparams
                if not whole:
                    adv_ok, why_adv = False, (
                        f"the record header is read with from_buffer[_copy] from `{buf}` = `{origin[:60]}`, which is cut to the bytes returned: that read needs sizeof(FILE_NOTIFY_INFORMATION) = {layout['size']} bytes, "
                        f"but the last record of a read may be only {min_record} bytes long (FileName.offset {min_record - 2} + one UTF-16 unit) — under the loop test `{L.text}` it is dropped (or the read raises ValueError)"
                    )
            if b_.outcome is NORMAL or b_.outcome == ("continue",):
                ncont += 1
                asg = {x.extra.get("name"): x.text for x in b_.evs if x.kind == "assign"}
                test_var = None
                if off is not None:
                    # offset cursor over an unchanging buffer
                    adv = re.fullmatch(rf"{off} = (?:{off}@L\d+ \+ {re.escape(NEO)}|{re.escape(NEO)} \+ {off}@L\d+)", asg.get(off, "")) is not None and not buf_carried
                    mt = re.fullmatch(rf"{off} < (\w+)|(\w+) > {off}", L.text)
                    bound = (mt.group(1) or mt.group(2)) if mt else None
                    if not adv or bound is None or bound not in fparams or bound in asg:
                        adv_ok, why_adv = False, f"an iteration that goes on does not advance the offset `{off}` by `{NEO}` under a loop test `{off} < <returned byte count>` (test: `{L.text}`)"
                else:
                    adv_buf = re.fullmatch(rf"{buf} = {buf}@L\d+\[{re.escape(NEO)}:\]", asg.get(buf, "")) is not None
                    cnt = [n_ for n_, t_ in asg.items() if re.fullmatch(rf"{n_} = {n_}@L\d+ - {re.escape(NEO)}", t_)]
                    if not adv_buf or len(cnt) != 1 or cnt[0] not in L.text:
                        if adv_ok:
                            adv_ok, why_adv = False, f"an iteration that goes on does not advance the buffer by `{NEO}` and the remaining count (the loop's own test variable) by the same amount"
                    else:
                        test_var = cnt[0]
                        mt = re.fullmatch(rf"{test_var} (>|>=) (.+)|{test_var}", L.text)
                        if mt is None:
                            adv_ok, why_adv = False, f"the loop test `{L.text}` is not `<remaining count> > 0`"
                        elif mt.group(1):
                            def fold_bound(x, depth=0):
                                """an integer bound: a literal / module constant, sizeof(<the structure>), <the structure>.<field>.offset, sums of those"""
                                v = P.fold(x, wm)
                                if isinstance(v, int) or depth > 4:
                                    return v
                                if isinstance(x, ast.Call) and (dotted(x.func) or "").split(".")[-1] == "sizeof" and len(x.args) == 1 and (dotted(x.args[0]) or "") == "FileNotifyInformation":
                                    return layout["size"]
                                if isinstance(x, ast.Attribute) and x.attr == "offset" and isinstance(x.value, ast.Attribute) and (dotted(x.value.value) or "") == "FileNotifyInformation":
                                    return layout["offsets"].get(x.value.attr)
                                if isinstance(x, ast.Name) and x.id in wm.consts:
                                    return fold_bound(wm.consts[x.id], depth + 1)
                                if isinstance(x, ast.BinOp) and isinstance(x.op, (ast.Add, ast.Sub)):
                                    a_, b_ = fold_bound(x.left, depth + 1), fold_bound(x.right, depth + 1)
                                    if isinstance(a_, int) and isinstance(b_, int):
                                        return a_ + b_ if isinstance(x.op, ast.Add) else a_ - b_
                                return None

                            k = fold_bound(ast.parse(mt.group(2), mode="eval").body)
                            if not isinstance(k, int):
                                raise AnalysisError(f"winapi buffer walk: the bound in the loop test `{L.text}` does not fold to an integer")
                            least = k + (1 if mt.group(1) == ">" else 0)
                            if not (1 <= least <= min_record):
                                adv_ok, why_adv = False, f"the loop test `{L.text}` stops the walk while {least - 1} byte(s) remain: the last record of a read may be only {min_record} bytes long and is dropped"
                if not positive:
                    stop_ok, why_stop = False, "an iteration goes on without having established that NextEntryOffset is positive: the last record (NextEntryOffset == 0) is decoded again, forever"
            else:
                nleave += 1
    if ncont == 0:
        adv_ok, why_adv = False, "no iteration of the walk goes on to a next record"
    if nleave == 0:
        stop_ok, why_stop = False, "no iteration of the walk leaves the loop"
    ctx.check(adv_ok, RD, "advances by NextEntryOffset", why_adv or "the buffer walk does not advance (buffer and remaining count) by the record's NextEntryOffset", bf.loc)
    ctx.check(stop_ok, RD, "stops at the last record (NextEntryOffset == 0)", why_stop or "the walk does not stop when NextEntryOffset is 0: the last record is decoded forever / again", bf.loc)
    ctx.check(name_ok, RD, "name = FileNameLength bytes at FileName.offset, UTF-16", why_name or "the file name is not taken as FileNameLength bytes at the FileName offset decoded as UTF-16", bf.loc)
    ctx.assumptions += ["documented semantics of ReadDirectoryChangesW and FSEvents", "os.path.isdir reflects the entry's kind at translation time (Windows)"]


RD_ = "observers/read_directory_changes.py"
FS = "observers/fsevents.py"
IC = "observers/inotify_c.py"
VARIANTS = [
    dict(name="B Windows walk stops while a short last record remains", expect="fire", rule="C20/windows-buffer-walk", edits=[("observers/winapi.py", "    while n_bytes > 0:", "    while n_bytes >= ctypes.sizeof(FileNotifyInformation):")]),
    dict(name="E Windows walk bounded by the header size", expect="silent", edits=[("observers/winapi.py", "    while n_bytes > 0:", "    while n_bytes >= FileNotifyInformation.FileName.offset:")]),
    dict(name="B drop the sub-moved loop of the Windows translator", expect="fire", rule="C20/windows-emission-contract", edits=[(RD_, "                        if self.watch.is_recursive:\n                            for sub_moved_event in generate_sub_moved_events(src_path, dest_path):\n                                self.queue_event(sub_moved_event)\n", "")]),
    dict(name="B Windows moved src/dest swapped", expect="fire", rule="C20/windows-emission-contract", edits=[(RD_, "self.queue_event(FileMovedEvent(src_path, dest_path))", "self.queue_event(FileMovedEvent(dest_path, src_path))")]),
    dict(name="B Windows added dir under non-recursive watch gets sub events", expect="fire", rule="C20/windows-emission-contract", edits=[(RD_, "                    if isdir and self.watch.is_recursive:", "                    if isdir:")]),
    dict(name="B Windows removed-self does not stop", expect="fire", rule="C20/windows-emission-contract", edits=[(RD_, "                    self.queue_event(DirDeletedEvent(self.watch.path))\n                    self.stop()", "                    self.queue_event(DirDeletedEvent(self.watch.path))")]),
    dict(name="B FSEvents emitter calls the base queue_event directly", expect="fire", rule="C20/nonrecursive-filter-unbypassable", edits=[(FS, "        cls = DirModifiedEvent if event.is_directory else FileModifiedEvent\n        self.queue_event(cls(src_path))", "        cls = DirModifiedEvent if event.is_directory else FileModifiedEvent\n        EventEmitter.queue_event(self, cls(src_path))")]),
    dict(name="B header literal 16 -> 12 in the slice", expect="fire", rule="C20/header-constants-agree", edits=[(IC, "name = event_buffer[i + 16 : i + 16 + length].rstrip(b\"\\0\")", "name = event_buffer[i + 12 : i + 12 + length].rstrip(b\"\\0\")")]),
    dict(name="B advance forgets the name length", expect="fire", rule="C20/header-constants-agree", edits=[(IC, "            i += 16 + length", "            i += 16")]),
    dict(name="B FSEvents created+removed keeps the inode", expect="fire", rule="C20/fsevents-inode-bookkeeping", edits=[(FS, "                self._queue_deleted_event(event, src_path, src_dirname)\n                self._fs_view.discard(event.inode)\n\n            else:", "                self._queue_deleted_event(event, src_path, src_dirname)\n\n            else:")]),
    dict(name="B FSEvents inode recorded once, after the rename block (re-added after the partner's removal)", expect="fire", rule="C20/fsevents-inode-bookkeeping", edits=[(FS, "                    self._queue_created_event(event, src_path, src_dirname)\n\n                self._fs_view.add(event.inode)\n\n                if event.is_modified or self._is_meta_mod(event):\n                    self._queue_modified_event(event, src_path, src_dirname)\n\n                if event.is_renamed:", "                    self._queue_created_event(event, src_path, src_dirname)\n\n                if event.is_modified or self._is_meta_mod(event):\n                    self._queue_modified_event(event, src_path, src_dirname)\n\n                if event.is_renamed:"), (FS, "                if event.is_removed:\n                    # Won't occur together with renamed.", "                self._fs_view.add(event.inode)\n\n                if event.is_removed:\n                    # Won't occur together with renamed.")]),
    dict(name="E FSEvents redundant adds inside the rename block dropped", expect="silent", edits=[(FS, "                        self._queue_renamed_event(event, src_path, dst_path, src_dirname, dst_dirname)\n                        self._fs_view.add(event.inode)\n", "                        self._queue_renamed_event(event, src_path, dst_path, src_dirname, dst_dirname)\n"), (FS, "                        self._queue_created_event(event, src_path, src_dirname)\n                        self._fs_view.add(event.inode)\n", "                        self._queue_created_event(event, src_path, src_dirname)\n")]),
    dict(name="B FSEvents moved-out item not discarded", expect="fire", rule="C20/fsevents-inode-bookkeeping", edits=[(FS, "                        self._queue_deleted_event(event, src_path, src_dirname)\n                        self._fs_view.discard(event.inode)\n\n                        # Skip further coalesced processing.", "                        self._queue_deleted_event(event, src_path, src_dirname)\n\n                        # Skip further coalesced processing.")]),
    dict(name="B FSEvents historic filter dropped", expect="fire", rule="C20/fsevents-emission-invariants", edits=[(FS, "                if event.is_created and not self._is_historic_created_event(event):\n                    self._queue_created_event(event, src_path, src_dirname)", "                if event.is_created:\n                    self._queue_created_event(event, src_path, src_dirname)")]),
    dict(name="B FSEvents rename without sub-moved events", expect="fire", rule="C20/fsevents-emission-invariants", edits=[(FS, "                        for sub_moved_event in generate_sub_moved_events(src_path, dst_path):\n                            self.queue_event(sub_moved_event)\n", "")]),
    dict(name="B non-recursive predicate: root comparison negated", expect="fire", rule="C20/fsevents-predicates", edits=[(FS, "        if src_path == self._absolute_watch_path:\n            return False\n", "        if src_path != self._absolute_watch_path:\n            return False\n")]),
    dict(name="B non-recursive predicate: wrong side of the is_directory split", expect="fire", rule="C20/fsevents-predicates", edits=[(FS, "src_path = event.src_path if event.is_directory else os.path.dirname(event.src_path)", "src_path = event.src_path if not event.is_directory else os.path.dirname(event.src_path)")]),
    dict(name="B non-recursive predicate: everything passes", expect="fire", rule="C20/fsevents-predicates", edits=[(FS, "                return False\n\n        return True\n", "                return False\n\n        return False\n")]),
    dict(name="B non-recursive predicate: destination test dropped", expect="fire", rule="C20/fsevents-predicates", edits=[(FS, "            if dest_path == self._absolute_watch_path:\n                return False\n", "")]),
    dict(name="B non-recursive predicate: only file moves count", expect="fire", rule="C20/fsevents-predicates", edits=[(FS, "if isinstance(event, (FileMovedEvent, DirMovedEvent)):", "if isinstance(event, (FileMovedEvent, FileMovedEvent)):")]),
    dict(name="E non-recursive predicate as one expression", expect="silent", edits=[(FS, "        if src_path == self._absolute_watch_path:\n            return False\n\n        if isinstance(event, (FileMovedEvent, DirMovedEvent)):\n            # when moving something into the watch path we must always take the dirname,\n            # otherwise we miss out on `DirMovedEvent`s\n            dest_path = os.path.dirname(event.dest_path)\n            if dest_path == self._absolute_watch_path:\n                return False\n\n        return True\n", "        if src_path == self._absolute_watch_path:\n            return False\n        return not (isinstance(event, (FileMovedEvent, DirMovedEvent)) and os.path.dirname(event.dest_path) == self._absolute_watch_path)\n")]),
    dict(name="B historic predicate: and instead of or", expect="fire", rule="C20/fsevents-predicates", edits=[(FS, "        return in_history or before_start", "        return in_history and before_start")]),
    dict(name="B historic predicate: snapshot ignored", expect="fire", rule="C20/fsevents-predicates", edits=[(FS, "        return in_history or before_start", "        return in_history")]),
    dict(name="B historic predicate: inode comparison flipped", expect="fire", rule="C20/fsevents-predicates", edits=[(FS, "before_start = old_inode == event.inode", "before_start = old_inode != event.inode")]),
    dict(name="B historic predicate: a missing entry counts as historic", expect="fire", rule="C20/fsevents-predicates", edits=[(FS, "            except KeyError:\n                before_start = False", "            except KeyError:\n                before_start = True")]),
    dict(name="B historic predicate: KeyError escapes", expect="fire", rule="C20/fsevents-predicates", edits=[(FS, "            try:\n                old_inode = self._starting_state.inode(event.path)[0]\n                before_start = old_inode == event.inode\n            except KeyError:\n                before_start = False\n", "            old_inode = self._starting_state.inode(event.path)[0]\n            before_start = old_inode == event.inode\n")]),
    dict(name="E historic predicate with early returns", expect="silent", edits=[(FS, "        in_history = event.inode in self._fs_view\n\n        if self._starting_state:\n            try:\n                old_inode = self._starting_state.inode(event.path)[0]\n                before_start = old_inode == event.inode\n            except KeyError:\n                before_start = False\n        else:\n            before_start = False\n\n        return in_history or before_start", "        if event.inode in self._fs_view:\n            return True\n        if self._starting_state:\n            try:\n                return self._starting_state.inode(event.path)[0] == event.inode\n            except KeyError:\n                return False\n        return False")]),
    dict(name="B metadata predicate drops owner changes", expect="fire", rule="C20/fsevents-predicates", edits=[(FS, "return event.is_inode_meta_mod or event.is_xattr_mod or event.is_owner_change", "return event.is_inode_meta_mod or event.is_xattr_mod")]),
    dict(name="B FSEvents modified flag ignored", expect="fire", rule="C20/fsevents-emission-invariants", edits=[(FS, "                    self._queue_created_event(event, src_path, src_dirname)\n\n                self._fs_view.add(event.inode)\n\n                if event.is_modified or self._is_meta_mod(event):\n                    self._queue_modified_event(event, src_path, src_dirname)\n\n                if event.is_renamed:", "                    self._queue_created_event(event, src_path, src_dirname)\n\n                self._fs_view.add(event.inode)\n\n                if event.is_renamed:")]),
    dict(name="B FSEvents modified reported only without the flags", expect="fire", rule="C20/fsevents-emission-invariants", edits=[(FS, "                if event.is_modified or self._is_meta_mod(event):\n                    self._queue_modified_event(event, src_path, src_dirname)\n\n                if event.is_renamed:", "                if not (event.is_modified or self._is_meta_mod(event)):\n                    self._queue_modified_event(event, src_path, src_dirname)\n\n                if event.is_renamed:")]),
    dict(name="B FSEvents partner's modified flag ignored", expect="fire", rule="C20/fsevents-emission-invariants", edits=[(FS, "                        if dst_event.is_modified or self._is_meta_mod(dst_event):\n                            self._queue_modified_event(dst_event, dst_path, dst_dirname)\n", "")]),
    dict(name="B FSEvents sub-moved events generated but not queued", expect="fire", rule="C20/fsevents-emission-invariants", edits=[(FS, "                        for sub_moved_event in generate_sub_moved_events(src_path, dst_path):\n                            self.queue_event(sub_moved_event)", "                        for sub_moved_event in generate_sub_moved_events(src_path, dst_path):\n                            logger.debug(\"%s\", sub_moved_event)")]),
    dict(name="B Windows sub-moved events generated but not queued", expect="fire", rule="C20/windows-emission-contract", edits=[("observers/read_directory_changes.py", "                            for sub_moved_event in generate_sub_moved_events(src_path, dest_path):\n                                self.queue_event(sub_moved_event)", "                            for sub_moved_event in generate_sub_moved_events(src_path, dest_path):\n                                pass")]),
    dict(name="B Windows REMOVED not reported", expect="fire", rule="C20/windows-emission-contract", edits=[("observers/read_directory_changes.py", "                    self.queue_event(FileDeletedEvent(src_path))", "                    pass")]),
    dict(name="B FSEvents partner record left in the batch", expect="fire", rule="C20/fsevents-emission-invariants", edits=[(FS, "                        events.remove(dst_event)\n", "")]),
    dict(name="B FSEvents partner's removal reported when it is not removed", expect="fire", rule="C20/fsevents-emission-invariants", edits=[(FS, "                        if dst_event.is_removed:\n                            self._queue_deleted_event(dst_event", "                        if not dst_event.is_removed:\n                            self._queue_deleted_event(dst_event")]),
    dict(name="B FSEvents callback does not hand the events over", expect="fire", rule="C20/native-wiring", edits=[(FS, "                self.queue_events(self.timeout, events)\n", "                pass\n")]),
    dict(name="B FSEvents columns mixed up", expect="fire", rule="C20/native-wiring", edits=[(FS, "in zip(paths, inodes, flags, ids)", "in zip(paths, flags, inodes, ids)")]),
    dict(name="B FSEvents read loop never entered", expect="fire", rule="C20/native-wiring", edits=[(FS, "            _fsevents.read_events(self)\n", "            pass\n")]),
    dict(name="B FSEvents _encode_path inverted", expect="fire", rule="C20/native-wiring", edits=[(FS, "return os.fsencode(path) if isinstance(self.watch.path, bytes) else path", "return os.fsencode(path) if not isinstance(self.watch.path, bytes) else path")]),
    dict(name="B Windows handle never opened", expect="fire", rule="C20/native-wiring", edits=[("observers/read_directory_changes.py", "        self._whandle = get_directory_handle(self.watch.path)\n", "        pass\n")]),
    dict(name="B Windows reads only without a handle", expect="fire", rule="C20/native-wiring", edits=[("observers/read_directory_changes.py", "        if not self._whandle:\n            return []", "        if self._whandle:\n            return []")]),
    dict(name="B Windows records never fetched", expect="fire", rule="C20/", edits=[("observers/read_directory_changes.py", "        winapi_events = self._read_events()\n", "        winapi_events = []\n")]),
    dict(name="E Windows records iterated directly", expect="silent", edits=[("observers/read_directory_changes.py", "        winapi_events = self._read_events()\n        with self._lock:\n            last_renamed_src_path = \"\"\n            for winapi_event in winapi_events:", "        with self._lock:\n            last_renamed_src_path = \"\"\n            for winapi_event in self._read_events():")]),
    dict(name="B FSEvents root resolved only for symlink-following watches", expect="fire", rule="C20/fsevents-predicates", edits=[(FS, "        self._absolute_watch_path = os.path.realpath(os.path.abspath(os.path.expanduser(self.watch.path)))\n", "        watch_path = os.path.abspath(os.path.expanduser(self.watch.path))\n        self._absolute_watch_path = os.path.realpath(watch_path) if self.watch.follow_symlink else watch_path\n")]),
    dict(name="E FSEvents root computed through a local", expect="silent", edits=[(FS, "        self._absolute_watch_path = os.path.realpath(os.path.abspath(os.path.expanduser(self.watch.path)))\n", "        expanded = os.path.expanduser(self.watch.path)\n        self._absolute_watch_path = os.path.realpath(os.path.abspath(expanded))\n")]),
    dict(name="B FSEvents absolute watch path never computed", expect="fire", rule="C20/native-wiring", edits=[(FS, "        self._absolute_watch_path = os.path.realpath(os.path.abspath(os.path.expanduser(self.watch.path)))\n", "")]),
    dict(name="B FSEvents start-up snapshot only when history is wanted", expect="fire", rule="C20/native-wiring", edits=[(FS, "        if self.suppress_history:\n            watch_path", "        if not self.suppress_history:\n            watch_path")]),
    dict(name="B FSEvents start-up snapshot keyed by bytes", expect="fire", rule="C20/native-wiring", edits=[(FS, "watch_path = os.fsdecode(self.watch.path) if isinstance(self.watch.path, bytes) else self.watch.path", "watch_path = os.fsdecode(self.watch.path) if not isinstance(self.watch.path, bytes) else self.watch.path")]),
    dict(name="B FSEvents override forwards (event, self)", expect="fire", rule="C20/nonrecursive-filter-unbypassable", edits=[(FS, "EventEmitter.queue_event(self, event)", "EventEmitter.queue_event(event, self)")]),
    dict(name="B FSEvents non-recursive filter inverted", expect="fire", rule="C20/nonrecursive-filter-unbypassable", edits=[(FS, "if self._watch.is_recursive or not self._is_recursive_event(event):", "if self._watch.is_recursive or self._is_recursive_event(event):")]),
    dict(name="B Windows walk never stops", expect="fire", rule="C20/windows-buffer-walk", edits=[("observers/winapi.py", "        if num_to_skip <= 0:\n            break\n", "")]),
    dict(name="E helper extraction in the FSEvents translator", expect="silent", edits=[(FS, "                    self._queue_deleted_event(event, src_path, src_dirname)\n                    self._fs_view.discard(event.inode)\n\n            if event.is_root_changed:", "                    self._forget(event, src_path, src_dirname)\n\n            if event.is_root_changed:"), (FS, "    def events_callback(self, paths", "    def _forget(self, event, src_path, src_dirname) -> None:\n        self._queue_deleted_event(event, src_path, src_dirname)\n        self._fs_view.discard(event.inode)\n\n    def events_callback(self, paths")]),
    dict(name="B record head decoded as four unsigned words", expect="fire", rule="C20/header-constants-agree", edits=[(IC, 'struct.unpack_from("iIII", event_buffer, i)', 'struct.unpack_from("4I", event_buffer, i)')]),
    dict(name="E record head through a struct.Struct object and a named size", expect="silent", edits=[(IC, "        i = 0\n        while i + 16 <= len(event_buffer):\n            wd, mask, cookie, length = struct.unpack_from(\"iIII\", event_buffer, i)\n            name = event_buffer[i + 16 : i + 16 + length].rstrip(b\"\\0\")\n            i += 16 + length", "        head = struct.Struct(\"iIII\")\n        hs = head.size\n        i = 0\n        while i + hs <= len(event_buffer):\n            wd, mask, cookie, length = head.unpack_from(event_buffer, i)\n            name = event_buffer[i + hs : i + hs + length].rstrip(b\"\\0\")\n            i += hs + length")]),
    dict(name="E header size named in a local", expect="silent", edits=[(IC, "        i = 0\n        while i + 16 <= len(event_buffer):", "        i = 0\n        while i + 16 <= len(event_buffer):  # header"), ]),
]


def thorough(ctx):
    from ..selftest import thorough as st

    return st(ctx, VARIANTS)
