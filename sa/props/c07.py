"""C07 — monitoring never silently dies while the observer runs and the root exists.

Decided: exception flow of the library thread bodies that process filesystem input (no kind of the fallible-operation
table escapes); the root-deletion branches (inotify and polling); absorbed failures keep the record that triggered them.
Not decided: that the fallible table is complete; behaviour after a kernel queue overflow.
"""

from __future__ import annotations

import ast
import re

from ..contract_inotify import classify
from ..emit import inotify_emitter_table
from ..model import AnalysisError
from ..pse import NORMAL, Cfg, Enumerator
from ..reader import MAPS, ReaderCfg, find_loops, flag_kind, record_paths
from ..threads import ThreadCfg

LEVEL_TEXT = (
    "Static analysis. Exception flow over every enumerated path of the reader's per-record loop (incl. the inlined helpers and "
    "the simulated-create closure): each subscript / del / pop without default on the shared watch maps forks a KeyError edge "
    "unless a dominating guard of the enumerated kinds holds on that path; each add-watch forks an OSError edge; an edge that "
    "reaches the function boundary reaches the thread's run() (no handler above it: checked). Root-deletion rows are compared on "
    "the emitter, buffer and polling code."
    " Also: value-origin tracing of the root from watch.path to the reader's root field, its map entries and the emitter's root comparison (only copies and os.fsencode/fsdecode on the way); a field that a stop hook clears from the stopping thread is read once into a local in the thread body; read_events returns a list on every normal exit."
)


READER_LIST = ["event_list"]


REGISTRY = ("self._handlers", "self._emitter_for_watch")


class DispatcherCfg(ThreadCfg):
    """The dispatcher thread's body with lookups on the registry maps made fallible: a subscript load on a registry map that is not
    a defaultdict raises KeyError unless, since the last callback into user code, the same key was found in the map."""

    def __init__(self, P, total_maps: set[str]):
        super().__init__(P, follow_attrs=False, no_inline={"dispatch", "join", "start", "queue_events"})
        self.total_maps = total_maps

    def raises(self, kind, text, node, st):
        if kind != "subscript" or not st.evs or st.evs[-1].kind != "subscript":
            return ()
        c, k = st.evs[-1].extra.get("container"), st.evs[-1].extra.get("key")
        if c not in REGISTRY or c in self.total_maps:
            return ()
        last_cb = max([i for i, e in enumerate(st.evs) if e.kind == "call" and re.search(r"\.(dispatch|on_\w+)$", e.extra.get("func", ""))], default=-1)
        for e in st.evs[last_cb + 1 :]:
            if e.kind == "cond" and e.extra.get("truth") is True and e.text == f"{k} in {c}":
                return ()
            if e.kind in ("setitem", "subscript") and e.extra.get("container") == c and e.extra.get("key") == k and e is not st.evs[-1]:
                return ()  # an earlier successful access of the same key, no callback since
        return ["KeyError"]


def dispatcher_exception_flow(ctx, RDX, P) -> None:
    init = P.find_method("BaseObserver", "__init__")
    runf = P.find_method("BaseObserver", "run")
    if init is None or runf is None:
        raise AnalysisError("anchor vanished: BaseObserver.__init__ / run")
    total = set()
    for p in Enumerator(ThreadCfg(P, follow_attrs=False)).run(init, selfcls="BaseObserver"):
        for e in p.evs:
            if e.kind == "store" and e.extra.get("target") in REGISTRY and re.match(r"(collections\.)?defaultdict\(\w", e.extra.get("value", "")):
                total.add(e.extra["target"])
    ctx.extra["registry_maps_that_cannot_raise_on_lookup"] = sorted(total)
    paths = Enumerator(DispatcherCfg(P, total)).run(runf, selfcls="BaseObserver")
    ctx.count("dispatcher_paths", len(paths))
    nsub = 0
    seen = set()

    def walk(ps):
        nonlocal nsub
        for p in ps:
            for e in p.evs:
                if e.kind == "subscript" and e.extra.get("container") in REGISTRY:
                    nsub += 1
                if e.kind == "loop":
                    walk(e.extra["paths"])
            if p.outcome[0] == "raise" and str(p.outcome[1]).startswith("KeyError"):
                r = [e for e in p.evs if e.kind == "raised"]
                if r and id(r[-1].node) not in seen:
                    seen.add(id(r[-1].node))
                    ctx.viol(
                        RDX,
                        f"BaseObserver dispatcher: {r[-1].extra.get('at', '')[:60]}",
                        f"KeyError can escape the dispatcher thread: `{r[-1].extra.get('at', '')}` looks a key up in a plain dict with no membership test since the last callback "
                        "(a handler that unschedules the watch from inside its callback removes the key): the observer thread dies and every watch of the observer goes silent",
                        f"{runf.module.relpath}:{r[-1].line}",
                    )

    walk(paths)
    if not seen:
        ctx.ok(RDX, f"BaseObserver dispatcher: {nsub} registry lookups, none can raise", runf.loc, nontrivial=nsub > 0)


def run(ctx) -> None:
    P = ctx.P
    from ..model import returned_name as _rn

    _rf = P.find_method("Inotify", "read_events")
    if _rf is None or _rn(_rf.node) is None:
        raise AnalysisError("read_events: returned list not identified")
    READER_LIST[0] = _rn(_rf.node)
    RX = ctx.rule(
        "C07/thread-body-exception-flow",
        "no KeyError from a lookup on the history-controlled watch maps and no OSError from add-watch escapes Inotify.read_events "
        "(and hence InotifyBuffer.run); every such site is guarded (membership test, .get, pop with default, key from a copy, "
        "earlier successful access) or tabled with a reason",
        floor=8,
    )
    RH = ctx.rule("C07/no-handler-above", "the thread bodies have no catch-all above the translation code that would hide a dead loop, and nothing below swallows silently (so rule 1 is the whole story)", floor=2)
    RR = ctx.rule(
        "C07/root-deletion",
        "DELETE_SELF on the root emits exactly one DirDeletedEvent(root) then stops (inotify); a failing fresh snapshot emits exactly one "
        "DirDeletedEvent(watch.path), stops and returns before any diff (polling); the reader loop terminates on root DELETE_SELF and root IGNORED",
        floor=4,
    )
    RDX = ctx.rule(
        "C07/dispatcher-exception-flow",
        "no KeyError from a lookup on the observer's registry maps escapes the dispatcher thread's body (EventDispatcher.run -> "
        "dispatch_events): a lookup on a map that is not a defaultdict is made under a membership test of the same key with no "
        "callback in between (a handler may unschedule its own watch from inside the callback), or through .get",
        floor=1,
    )
    dispatcher_exception_flow(ctx, RDX, P)
    RVE = ctx.rule(
        "C07/vanishing-entry-costs-only-itself",
        "a transient failure for one entry (a sub-directory that vanishes between its listing and its add-watch) is absorbed inside that "
        "entry's iteration: the directories listed after it are still watched, in the contents walk of a new directory and in the "
        "installation of a directory that arrives by a move (instances shared with C02: otherwise later changes inside existing "
        "directories go unreported while every thread stays alive)",
        floor=2,
    )
    from .c02 import check_rows as _rows
    from .c02 import visits_every_entry as _vee

    RVW = ctx.rule("C07/walks-visit-every-entry", "no loop of the reader or of the initial installation grows or shrinks the list it is iterating (instances shared with C02): pruning a vanished directory while iterating skips its next sibling, which then stays unwatched while every thread stays alive", floor=1)
    _vee(ctx, RVW)

    _sink = ctx.rule("C07/_shared-not-owned", "(rows of the shared bookkeeping contract that C07 does not own)", floor=0)
    n0 = len(ctx.instances)
    RRK = ctx.rule(
        "C07/renames-keep-the-watch-records-right",
        "a rename inside the tree re-keys the renamed directory and exactly its watched descendants (prefix test with the separator) in both maps (instances shared with C02): a watch record left or put under a wrong path makes every add-watch below it fail quietly, so what is created there later is never watched and its changes go unreported while every thread stays alive",
        floor=3,
    )
    _rows(ctx, RVE, RRK, RVE, _sink, _sink, _sink)
    ctx.instances[n0:] = [i for i in ctx.instances[n0:] if i.rule != _sink]
    del ctx.rules[_sink], ctx.floors[_sink]
    RFS = ctx.rule(
        "C07/thread-fs-calls-tolerate-vanished-paths",
        "in the call closure of the inotify emitter thread's and reader thread's bodies, every filesystem call documented to raise for a missing path (os.fwalk for its top directory, os.scandir, os.listdir, os.stat, ...) is made inside a handler for OSError; os.walk with the default onerror is tolerant by itself (a path reported by the kernel may be gone again when the thread acts on it: an escaping OSError ends the thread and every later change goes unreported)",
        floor=2,
    )
    from ..oserr import check as _fs_check

    _fs_check(ctx, RFS, [("InotifyEmitter", "queue_events"), ("InotifyBuffer", "run")], "later changes in the tree are never reported although the root still exists")
    RS = ctx.rule("C07/swallow-is-local", "an absorbed add-watch failure keeps the record that triggered it (the record is appended on every path that absorbs a failure)", floor=1)

    # ---------------------------------------------------------------- (a) reader exception flow
    cfg = ReaderCfg(P, fault=True, key_errors=True)
    fi = P.find_method("Inotify", "read_events")
    if fi is None:
        raise AnalysisError("anchor vanished: Inotify.read_events")
    paths = Enumerator(cfg).run(fi)
    loops = find_loops(paths, lambda e: "_parse_event_buffer" in e.text)
    if not loops:
        raise AnalysisError("anchor vanished: per-record loop of Inotify.read_events")
    L = max(loops, key=lambda e: len(e.extra["paths"]))
    bp = L.extra["paths"]
    ctx.count("record_paths", len(bp))
    ctx.count("functions", 1)

    # enumerate the K-sites and O-sites syntactically (for the instance list), then judge them by the escaping paths
    def sites(node):
        out = []
        for n in ast.walk(node):
            if isinstance(n, ast.Subscript) and isinstance(n.ctx, (ast.Load, ast.Del)) and ast.unparse(n.value) in MAPS:
                out.append(("del" if isinstance(n.ctx, ast.Del) else "load", n))
            if isinstance(n, ast.Call) and isinstance(n.func, ast.Attribute) and n.func.attr == "pop" and ast.unparse(n.func.value) in MAPS and len(n.args) < 2:
                out.append(("pop", n))
        return out

    reach = [fi] + [P.find_method("Inotify", m) for m in ("remember_move_from_event", "source_for_move", "_add_watch", "_add_dir_watch")]
    ksites = []
    for f in reach:
        if f is None:
            continue
        for kind, n in sites(f.node):
            ksites.append((f, kind, n))
    escaping: dict[int, list] = {}
    caught_key = 0

    def collect(ps):
        nonlocal caught_key
        for p in ps:
            if p.outcome[0] == "raise":
                r = [e for e in p.evs if e.kind == "raised"]
                if r:
                    escaping.setdefault(id(r[-1].node), []).append((p, r[-1]))
            for e in p.evs:
                if e.kind == "loop":
                    collect(e.extra["paths"])

    collect(bp)
    collect(paths)
    for f, kind, n in ksites:
        txt = " ".join(ast.unparse(n).split())
        construct = f"{f.qualname} {kind} {txt}"
        loc = f"{f.module.relpath}:{n.lineno}"
        esc = escaping.get(id(n))
        if esc:
            p, r = esc[0]
            ctx.viol(
                RX,
                construct,
                f"{r.text} can escape: `{txt}` is reached on a path where the key is not known to be present ({p.sig()[:200]}); the exception "
                "propagates out of read_events into InotifyBuffer.run and kills the reader thread: every later change goes unreported",
                loc,
                {"path": p.sig()},
            )
        else:
            tabled = txt == "self._path_for_wd[wd]" and kind == "load"
            if tabled:
                ctx.tabled("C07 head lookup self._path_for_wd[wd]", "wd is stored by _add_watch before the kernel can report it and removed only on IN_IGNORED, after which inotify(7) reports nothing for it; wd == -1 is filtered just above (that filter is itself a rule instance)")
            ctx.ok(RX, construct, loc, nontrivial=not tabled)
    # the wd == -1 filter dominates the head lookup
    # (a head lookup through .get() whose None result drops the record needs no such filter: an overflow record is in no map)
    get_head = all(any(a == "self._path_for_wd.get(wd) is None" for a in p.conds()) and not any(e.kind == "subscript" and e.extra.get("container") == "self._path_for_wd" and e.extra.get("key") == "wd" for e in p.evs) for p in bp)
    head_ok = get_head or all(p.conds().get("wd == -1") is not None for p in bp)
    first_lookup_guarded = get_head or all(
        (p.conds().get("wd == -1") is True and not any(e.kind == "subscript" and e.extra.get("container") == "self._path_for_wd" for e in p.evs)) or p.conds().get("wd == -1") is False
        for p in bp
    )
    ctx.check(head_ok and first_lookup_guarded, RX, "overflow record filter (wd == -1) dominates the head lookup", "records with wd == -1 (queue overflow) reach the watch-map lookup", fi.loc)
    # O-sites: add-watch failures
    osites = 0
    for p in bp:
        if p.outcome[0] == "raise" and str(p.outcome[1]).startswith("OSError"):
            r = [e for e in p.evs if e.kind == "raised"]
            ctx.viol(RX, f"add-watch OSError escapes [{flag_kind(p)}]", f"an add-watch failure (the entry vanished) escapes read_events on the path {p.sig()[:200]}", f"{fi.module.relpath}:{r[-1].line if r else fi.node.lineno}")
        if any(e.kind == "caught" and e.text.startswith("OSError") for e in p.flat()):
            osites += 1
    ctx.check(osites > 0, RX, "add-watch failures are absorbed inside read_events", "no absorbed add-watch failure found (fault model not exercised)", fi.loc)
    ctx.extra["tabled_hits"] = sorted(set(cfg.tabled_hits))

    # the `wd == -1` filter in front of the wd->path lookup is the guard for the kernel's queue-overflow record; it only works
    # on a *signed* descriptor (shared with C20/header-constants-agree)
    from .c20 import expand_format, struct_format_of

    pfi = P.find_method("Inotify", "_parse_event_buffer")
    if pfi is None:
        raise AnalysisError("anchor vanished: Inotify._parse_event_buffer")
    fmt_, _nt, _ln, ucall, _ = struct_format_of(P, pfi)
    if not isinstance(fmt_, str):
        raise AnalysisError("_parse_event_buffer: unpack format not found")
    codes = expand_format(fmt_)
    ctx.check(
        codes[:1] in ("i", "l", "q", "h", "b"),
        RX,
        "overflow record (wd = -1) is recognisable: the decoder yields a signed descriptor",
        f"the record head is decoded with {fmt_!r}: the descriptor comes out unsigned, IN_Q_OVERFLOW's wd = -1 arrives as 4294967295, passes the `wd == -1` filter and `self._path_for_wd[wd]` raises KeyError in the reader thread (monitoring dies silently after a burst of > 16384 pending events)",
        f"{pfi.module.relpath}:{ucall.lineno}",
    )

    # an attribute that is read but assigned nowhere is an AttributeError in whichever library thread reads it first
    from ..flow import check_attrs_initialised

    check_attrs_initialised(ctx, RX, P, ["BaseThread", "EventEmitter", "EventDispatcher", "BaseObserver", "InotifyEmitter", "InotifyFullEmitter", "InotifyBuffer", "Inotify", "InotifyEvent", "PollingEmitter", "DelayedQueue"], "the emitter, reader or observer thread dies with an unhandled error and monitoring stops silently")

    # the buffer thread iterates whatever read_events returns: every normal exit must return a list
    nret = 0
    for p in paths:
        if p.outcome[0] == "return" or p.outcome is NORMAL:
            nret += 1
            t = p.outcome[1] if p.outcome[0] == "return" else None
            txt = ast.unparse(t) if t is not None else "None"
            is_list = isinstance(t, ast.List) or (isinstance(t, ast.Name) and t.id.rstrip("'") == READER_LIST[0]) or txt.startswith("[")
            if not is_list:
                ctx.viol(RX, f"Inotify.read_events returns `{txt}`", "read_events can return something that is not a list: InotifyBuffer.run passes it to _group_events, whose loop raises TypeError in the reader thread (it dies with an unhandled error, e.g. at shut-down)", fi.loc)
    if nret:
        ctx.ok(RX, f"Inotify.read_events returns a list on each of its {nret} normal exits", fi.loc) if not any((not i.ok) and i.construct.startswith("Inotify.read_events returns") for i in ctx.instances) else None

    # ---------------------------------------------------------------- no handler above / thread bodies
    for cls, meth in (("InotifyBuffer", "run"), ("EventEmitter", "run")):
        f = P.find_method(cls, meth)
        if f is None:
            raise AnalysisError(f"anchor vanished: {cls}.{meth}")
        tries = [n for n in ast.walk(f.node) if isinstance(n, (ast.Try, ast.With)) and (isinstance(n, ast.Try) or any("suppress" in ast.unparse(i.context_expr) for i in n.items))]
        ctx.check(not tries, RH, f"{cls}.{meth} has no exception handler", "a handler in the thread body changes what 'escapes' means; re-triage needed", f.loc, nontrivial=True)

    # ---------------------------------------------------------------- (b) root deletion
    rows, npaths, efi = inotify_emitter_table(P)
    n_root = 0
    for r in rows:
        info = classify(r)
        if info["kind"] == "is_delete_self" and info["root"] is True:
            n_root += 1
            em = r.emissions
            ok = len(em) == 2 and em[0].kind == "E" and em[0].cls == "DirDeletedEvent" and em[1].kind == "STOP" and "ev.src_path" in (em[0].args or [""])[0]
            ctx.check(ok, RR, f"inotify emitter root DELETE_SELF full={info['full']}", f"emits {r.brief()}; expected exactly DirDeletedEvent(root) then stop", efi.loc)
    if n_root == 0:
        ctx.viol(RR, "inotify emitter root DELETE_SELF", "no path handles DELETE_SELF on the watched root", efi.loc)

    # reader loop termination
    bf = P.find_method("InotifyBuffer", "run")
    bpaths = Enumerator(ThreadCfg(P, follow_attrs=False, no_inline={"read_events", "_group_events", "put", "should_keep_running"})).run(bf, selfcls="InotifyBuffer")
    wl = find_loops(bpaths, lambda e: e.extra.get("kind") == "while")
    if not wl:
        raise AnalysisError("anchor vanished: while loop of InotifyBuffer.run")
    W = wl[0]
    flagvars = set(re.findall(r"not (\w+)", W.raw))
    # a flag that makes the loop `break` once the batch has been handed over is a termination flag as well:
    #     for ...: ... flag = True ...        if flag: break
    for b in W.extra["paths"]:
        if b.outcome == ("break",):
            cs = [e for e in b.evs if e.kind == "cond"]
            if cs and cs[-1].extra.get("truth") is True:
                m_ = re.fullmatch(r"(\w+)(@after\w+)?", cs[-1].text)
                if m_:
                    flagvars.add(m_.group(1))
    # a flag that receives its value, after the hand-over loop, from another local set inside that loop (e.g. the result flag of an
    # `any([...])` over the hand-overs) makes that local a termination flag as well
    for _ in range(3):
        for b in W.extra["paths"]:
            for e in b.evs:
                if e.kind == "assign" and e.extra.get("name") in flagvars:
                    m_ = re.fullmatch(r"\w+ = (\w+)(@after\w+)?", e.text)
                    if m_ and m_.group(1) not in ("True", "False", "None"):
                        flagvars.add(m_.group(1))
    # the thread's own stop event is a termination flag too, when the loop condition consults it
    event_flag = "should_keep_running()" in W.raw or "_stopped_event.is_set()" in W.raw
    ctx.check(bool(flagvars) or event_flag, RR, "reader loop condition tests a termination flag", f"loop condition `{W.raw}` tests neither a negated local flag nor the thread's stop event", bf.loc)
    got = {"ignored": False, "delete_self": False}

    def flag_set_under(evs) -> list[str] | None:
        """None if no termination flag can become true on these events; otherwise the extra conditions under which it does:
        `flag = True` -> []; `flag = flag or E` / `flag = E or flag` / `flag = E` with E a test -> the conjuncts of E."""
        for e in evs:
            if e.kind != "assign" or e.extra.get("name") not in flagvars:
                continue
            if e.text.endswith("= True"):
                return []
            t = e.extra.get("term")
            parts = list(t.values) if isinstance(t, ast.BoolOp) and isinstance(t.op, ast.Or) else [t]
            rest = [x for x in parts if not (isinstance(x, ast.Name) and x.id.split("@")[0] in flagvars)]
            if len(rest) == 1 and isinstance(rest[0], (ast.Compare, ast.BoolOp, ast.Call)):
                r = rest[0]
                conj = list(r.values) if isinstance(r, ast.BoolOp) and isinstance(r.op, ast.And) else [r]
                return [ast.unparse(x) for x in conj]
        return None

    inner = find_loops(W.extra["paths"], lambda e: e.extra.get("kind") == "for")
    for IL in inner:
        for b in IL.extra["paths"]:
            c = b.conds()
            extra = flag_set_under(b.evs)
            if extra:
                c = {**c, **{a: True for a in extra}}
            sets_flag = extra is not None or (
                event_flag and any(e.kind == "call" and e.extra.get("func") in ("self._stopped_event.set", "self.stopped_event.set") for e in b.evs)
            )
            root_eq = any(t and "==" in a and "self._inotify.path" in a for a, t in c.items())
            if sets_flag and root_eq and any(t and a.endswith(".is_ignored") for a, t in c.items()):
                got["ignored"] = True
            if sets_flag and root_eq and any(t and a.endswith(".is_delete_self") for a, t in c.items()):
                got["delete_self"] = True
            if sets_flag and not root_eq:
                ctx.viol(RR, "reader loop stops only for the root", f"termination flag set on a path that does not compare the record's path with the root ({b.sig()[:120]})", bf.loc)
    # ... or the hand-over loop is left at the root's marker and the flag is set from that last iteration (spliced into the round's path)
    for b in W.extra["paths"]:
        fin = [i for i, e in enumerate(b.evs) if e.kind == "final_iter"]
        if not fin:
            continue
        tail = b.evs[fin[0] :]
        tc = {e.text: bool(e.extra.get("truth")) for e in tail if e.kind == "cond"}
        sets_flag = any(e.kind == "assign" and e.extra.get("name") in flagvars and e.text.endswith("= True") for e in tail)
        root_eq = any(t and "==" in a and "self._inotify.path" in a for a, t in tc.items())
        if sets_flag and root_eq and any(t and a.endswith(".is_ignored") for a, t in tc.items()):
            got["ignored"] = True
        if sets_flag and root_eq and any(t and a.endswith(".is_delete_self") for a, t in tc.items()):
            got["delete_self"] = True
    ctx.check(got["ignored"], RR, "reader loop terminates on root IN_IGNORED", "no path sets the termination flag for IN_IGNORED on the root", bf.loc)
    ctx.check(got["delete_self"], RR, "reader loop terminates on root IN_DELETE_SELF", "no path sets the termination flag for IN_DELETE_SELF on the root", bf.loc)

    # polling
    class PollCfg(ThreadCfg):
        def raises(self, kind, text, node, st):
            if kind == "call" and text.split("(")[0] in ("self._take_snapshot",):
                return ["OSError"]
            return ()

    pf = P.find_method("PollingEmitter", "queue_events")
    if pf is None:
        raise AnalysisError("anchor vanished: PollingEmitter.queue_events")
    ppaths = Enumerator(PollCfg(P, follow_attrs=False, no_inline={"queue_event", "stop", "should_keep_running", "_take_snapshot"})).run(pf, selfcls="PollingEmitter")
    ctx.count("polling_paths", len(ppaths))
    gone = [p for p in ppaths if any(e.kind == "raised" for e in p.evs)]
    ctx.check(bool(gone), RR, "polling: snapshot failure is modelled", "the fresh snapshot call was not found", pf.loc)
    for p in gone:
        caught = any(e.kind == "caught" for e in p.evs)
        after = p.evs[max(i for i, e in enumerate(p.evs) if e.kind == "raised") :]
        q = [e for e in after if e.kind == "call" and e.extra.get("func") == "self.queue_event"]
        stops = [e for e in after if e.kind == "call" and e.extra.get("func") == "self.stop"]
        diffs = [e for e in after if e.kind == "call" and "DirectorySnapshotDiff" in e.extra.get("func", "")]
        loops = [e for e in after if e.kind == "loop"]
        ok = caught and len(q) == 1 and (q[0].extra.get("args") or [""])[0] == "DirDeletedEvent(self.watch.path)" and len(stops) == 1 and not diffs and not loops and p.outcome[0] == "return"
        ctx.check(ok, RR, "polling: root gone -> one DirDeletedEvent(watch.path), stop, return", f"on a failing fresh snapshot the emitter does: queue {[(x.extra.get('args') or [''])[0] for x in q]}, stops={len(stops)}, diff computed={bool(diffs)}, outcome={p.outcome[0]}, caught={caught}", pf.loc)

    # ---------------------------------------------------------------- (b') the root keeps its spelling from the watch to the map
    RSP = ctx.rule(
        "C07/root-spelling-preserved",
        "the emitter recognises the deletion of the root by comparing the record's path with watch.path: on the way from watch.path "
        "to the reader's root field and map keys the root passes only through copies and the bijective codecs (os.fsencode / "
        "os.fsdecode / the emitter's decode helper), never through a normalising or resolving call",
        floor=8,
    )
    root_spelling(ctx, RSP, P)

    # ---------------------------------------------------------------- (b'') a field the stopping thread clears is read once
    RCF = ctx.rule(
        "C07/cleared-field-read-once",
        "a field of a library thread that its stop hook (run by the *stopping* thread) sets to None without a lock the thread body "
        "holds at the use must not be dereferenced as `self.<field>.x` in the thread body: the body takes one snapshot into a local and "
        "tests and uses that (otherwise the stop lands between the None-test and the use: AttributeError, unhandled, in the library thread)",
        floor=1,
    )
    cleared_field_read_once(ctx, RCF, P)

    # ---------------------------------------------------------------- (c) swallow is local
    n = 0
    for p in bp:
        evs = list(p.evs)
        for i, e in enumerate(evs):
            if e.kind == "caught" and e.text.startswith("OSError") and e.fn.endswith("read_events"):
                n += 1
                # the record must be appended somewhere on this path (before the handler leaves the iteration, or after an
                # absorbed failure that lets the iteration go on)
                appended = any(x.kind == "call" and x.extra.get("func") in (READER_LIST[0] + ".append", READER_LIST[0] + ".extend") and "InotifyEvent(" in (x.extra.get("args") or [""])[0] for x in evs)
                ctx.check(appended, RS, f"read_events absorbed add-watch failure [{flag_kind(p)}]", "the record is dropped when its add-watch fails: the event for a directory that vanished right after creation is lost", f"{fi.module.relpath}:{e.line}")
    if n == 0:
        ctx.viol(RS, "read_events absorbed add-watch failure", "no absorbed add-watch failure in read_events", fi.loc)
    ctx.assumptions += [
        "fallible-operation table: KeyError from [] / del / pop(k) on _wd_for_path, _path_for_wd, _moved_from_events; OSError from add-watch (via _raise_error); the snapshot constructor",
        "os.walk swallows listing errors (onerror=None)",
    ]


STOP_HOOKS = ("on_thread_stop", "stop", "close")


def cleared_field_read_once(ctx, RCF, P) -> None:
    from ..pse import walk_with_locks
    from ..threads import lock_aliases

    n = 0
    for cname in sorted(P.subclasses("BaseThread")):
        ci = P.cls(cname)
        if ci.module.relpath.endswith(("fsevents.py", "fsevents2.py", "read_directory_changes.py", "kqueue.py", "winapi.py")):
            continue
        al = lock_aliases(P, cname)
        canon = lambda t, al=al: al.get(t, t)  # noqa: E731
        cfg = ThreadCfg(P, follow_attrs=False, no_inline=set(ci.methods) | {"join", "start", "close", "stop"})
        cleared: dict[str, list] = {}
        for hook in STOP_HOOKS:
            hf = ci.methods.get(hook)
            if hf is None:
                continue
            for e, held, p in walk_with_locks(Enumerator(cfg).run(hf, selfcls=cname), canon):
                if e.kind == "store" and e.extra.get("recv") == "self" and e.extra.get("value") == "None":
                    cleared.setdefault(e.extra["attr"], []).append((hook, frozenset(k for k, v in held.items() if v > 0)))
        for fld, writes in sorted(cleared.items()):
            n += 1
            wlocks = frozenset.intersection(*[l for _, l in writes]) if writes else frozenset()
            bad = []
            for m, mf in ci.methods.items():
                if m in STOP_HOOKS or m in ("__init__", "on_thread_start"):
                    continue
                derefs = [x for x in ast.walk(mf.node) if isinstance(x, ast.Attribute) and isinstance(x.value, ast.Attribute) and ast.unparse(x.value) == f"self.{fld}"]
                if not derefs:
                    continue
                # locks held at the dereference (engine locksets: `with` and acquire/release forms alike)
                held_at = {}
                for e, held, p in walk_with_locks(Enumerator(cfg).run(mf, selfcls=cname), canon):
                    if f"self.{fld}." in (e.raw or ""):
                        hl = frozenset(k for k, v in held.items() if v > 0)
                        held_at[getattr(e.node, "lineno", 0)] = held_at.get(getattr(e.node, "lineno", 0), hl) & hl
                for x in derefs:
                    hl = held_at.get(x.lineno, frozenset())
                    if not (wlocks & hl):
                        bad.append((m, x))
            ctx.check(
                not bad,
                RCF,
                f"{cname}.{fld} (cleared by {'/'.join(sorted({h for h, _ in writes}))})",
                f"`self.{fld}` is set to None by {sorted({h for h, _ in writes})} (called by the stopping thread, holding {sorted(wlocks) or 'no lock'}) and dereferenced directly in "
                + ", ".join(f"{m}() line {x.lineno}: `{ast.unparse(x)}`" for m, x in bad)
                + ": a stop between the None-test and the use raises AttributeError in the library thread (it dies with an unhandled error while the observer keeps running)",
                f"{ci.module.relpath}:{bad[0][1].lineno if bad else ci.node.lineno}",
            )
    if n == 0:
        raise AnalysisError("no library thread clears a field in its stop hook (anchor vanished: InotifyEmitter.on_thread_stop)")


CODECS = {"os.fsencode", "os.fsdecode"}


def root_spelling(ctx, RSP, P) -> None:
    from ..flow import origins

    def first_param(fi):
        ps = [a.arg for a in fi.node.args.posonlyargs + fi.node.args.args if a.arg not in ("self", "cls")]
        if not ps:
            raise AnalysisError(f"anchor vanished: {fi.qualname} has no path parameter")
        return ps[0]

    def need(cls, meth):
        fi = P.find_method(cls, meth)
        if fi is None:
            raise AnalysisError(f"anchor vanished: {cls}.{meth}")
        return fi

    def judge(fi, expr, want, label, codecs=CODECS, line=None):
        got = origins(fi.node, expr)
        bad = sorted((b, w) for b, w in got if not want(b) or not set(w) <= codecs)
        ctx.check(
            not bad,
            RSP,
            label,
            "the root does not arrive here in the spelling the caller scheduled: "
            + "; ".join(f"`{ast.unparse(expr)}` can be {' <- '.join(reversed(w)) + ' of ' if w else ''}{b}" for b, w in bad)
            + " (only copies and os.fsencode/os.fsdecode preserve it; the emitter's `== watch.path` test then never recognises the root's "
            "deletion: no DirDeletedEvent for the root, the emitter never stops)",
            f"{fi.module.relpath}:{line or getattr(expr, 'lineno', fi.node.lineno)}",
            {"origins": sorted((b, list(w)) for b, w in got)},
        )

    def ctor_arg(fi, ctor, what):
        calls = [n for n in ast.walk(fi.node) if isinstance(n, ast.Call) and isinstance(n.func, ast.Name) and n.func.id == ctor]
        if not calls:
            raise AnalysisError(f"anchor vanished: {fi.qualname} does not construct {ctor}")
        c = calls[0]
        if c.args:
            return c.args[0]
        for k in c.keywords:
            if k.arg == "path":
                return k.value
        raise AnalysisError(f"anchor vanished: {what}: no path argument")

    # A. emitter -> buffer
    a = need("InotifyEmitter", "on_thread_start")
    judge(a, ctor_arg(a, "InotifyBuffer", "InotifyBuffer(...)"), lambda b: b == "self.watch.path", "InotifyEmitter.on_thread_start -> InotifyBuffer(path)")
    # B. buffer -> reader
    b_ = need("InotifyBuffer", "__init__")
    pb = first_param(b_)
    judge(b_, ctor_arg(b_, "Inotify", "Inotify(...)"), lambda b: b == f"param:{pb}", "InotifyBuffer.__init__ -> Inotify(path)")
    # C. reader: root field and initial install
    c_ = need("Inotify", "__init__")
    pc = first_param(c_)
    nfield = ninst = 0
    for n in ast.walk(c_.node):
        if isinstance(n, ast.Assign) and any(isinstance(t, ast.Attribute) and ast.unparse(t) == "self._path" for t in n.targets):
            nfield += 1
            judge(c_, n.value, lambda b: b == f"param:{pc}", "Inotify.__init__ root field", line=n.lineno)
        if isinstance(n, ast.Call) and ast.unparse(n.func) in ("self._add_dir_watch", "self._add_watch") and n.args:
            ninst += 1
            judge(c_, n.args[0], lambda b: b == f"param:{pc}", f"Inotify.__init__ -> {ast.unparse(n.func)}(path)", line=n.lineno)
    if not nfield or not ninst:
        raise AnalysisError("anchor vanished: Inotify.__init__ root field / initial install")
    # D. _add_dir_watch watches its own argument
    d_ = need("Inotify", "_add_dir_watch")
    pd = first_param(d_)
    own = [n for n in ast.walk(d_.node) if isinstance(n, ast.Call) and ast.unparse(n.func) == "self._add_watch" and n.args and origins(d_.node, n.args[0]) == {(f"param:{pd}", ())}]
    ctx.check(bool(own), RSP, "Inotify._add_dir_watch watches its argument unchanged", "no _add_watch call receives the path parameter itself", d_.loc)
    # E. _add_watch keys both maps by its argument (decided on the enumerated paths, helpers inlined)
    e_ = need("Inotify", "_add_watch")
    pe = first_param(e_)
    nk = 0
    for p in Enumerator(ReaderCfg(P, fault=False)).run(e_, selfcls="Inotify"):
        if p.outcome[0] == "raise":
            continue
        keys = [x for x in p.flat() if x.kind == "setitem" and x.extra.get("container") == "self._wd_for_path"]
        vals = [x for x in p.flat() if x.kind == "setitem" and x.extra.get("container") == "self._path_for_wd"]
        nk += len(keys) + len(vals)
        ctx.check(len(keys) == 1 and keys[0].extra.get("key") == pe, RSP, "Inotify._add_watch path->wd key", f"the path->wd entry is keyed by `{[x.extra.get('key') for x in keys]}` instead of the path argument itself", e_.loc)
        ctx.check(len(vals) == 1 and vals[0].extra.get("value") == pe, RSP, "Inotify._add_watch wd->path value", f"the wd->path entry holds `{[x.extra.get('value') for x in vals]}` instead of the path argument itself", e_.loc)
    if nk < 2:
        raise AnalysisError("anchor vanished: Inotify._add_watch does not store both map entries")
    # F. the comparison in the emitter, and the decode helper
    q = need("InotifyEmitter", "queue_events")
    dh = P.find_method("InotifyEmitter", "_decode_path")
    helper_ok = set()
    if dh is not None:
        ph = first_param(dh)
        rets = [n.value for n in ast.walk(dh.node) if isinstance(n, ast.Return) and n.value is not None]
        o = set()
        for r in rets:
            o |= origins(dh.node, r)
        if rets and all(b == f"param:{ph}" and set(w) <= CODECS for b, w in o):
            helper_ok = {"self._decode_path"}
        ctx.check(bool(helper_ok), RSP, "InotifyEmitter._decode_path is a codec", f"the decode helper can return {sorted(o)}: not the parameter passed through os.fsdecode at most", dh.loc)
    ncmp = 0
    # the test may sit in queue_events itself or in a private method it hands the record to
    for q in P.self_closure("InotifyEmitter", "queue_events"):
        if q.name in ("_decode_path", "queue_event", "stop"):
            continue
        for n in ast.walk(q.node):
            if isinstance(n, ast.Compare) and len(n.ops) == 1 and isinstance(n.ops[0], (ast.Eq, ast.NotEq)):
                sides = [n.left, n.comparators[0]]
                ws = [x for x in sides if any(b == "self.watch.path" for b, _ in origins(q.node, x))]
                if len(ws) == 1:
                    other = sides[1] if ws[0] is sides[0] else sides[0]
                    ncmp += 1
                    judge(q, ws[0], lambda b: b == "self.watch.path", "InotifyEmitter.queue_events root test, watch side", line=n.lineno)
                    judge(q, other, lambda b: b.endswith(".src_path"), "InotifyEmitter.queue_events root test, record side", codecs=CODECS | helper_ok, line=n.lineno)
    q = need("InotifyEmitter", "queue_events")
    if ncmp == 0:
        raise AnalysisError("anchor vanished: InotifyEmitter.queue_events does not compare a record path with watch.path")


IC = "observers/inotify_c.py"
IB = "observers/inotify_buffer.py"
IN = "observers/inotify.py"
PO = "observers/polling.py"
VARIANTS = [
    dict(name="B sub-created walk by os.fwalk (re-raises for a vanished top directory)", expect="fire", rule="C07/thread-fs-calls-tolerate-vanished-paths", edits=[("events.py", "    for root, directories, filenames in os.walk(src_dir_path):  # type: ignore[type-var]\n        for directory in directories:\n            full_path = os.path.join(root, directory)  # type: ignore[call-overload]\n            yield DirCreatedEvent(full_path, is_synthetic=True)", "    for root, directories, filenames, _fd in os.fwalk(src_dir_path):\n        for directory in directories:\n            full_path = os.path.join(root, directory)  # type: ignore[call-overload]\n            yield DirCreatedEvent(full_path, is_synthetic=True)")]),
    dict(name="B emitter stats the arriving path unguarded", expect="fire", rule="C07/thread-fs-calls-tolerate-vanished-paths", edits=[(IN, "                if event.is_directory and self.watch.is_recursive:\n                    for sub_created_event in generate_sub_created_events(src_path):", "                if event.is_directory and self.watch.is_recursive and os.stat(src_path).st_nlink:\n                    for sub_created_event in generate_sub_created_events(src_path):")]),
    dict(name="E emitter stats the arriving path inside a handler", expect="silent", edits=[(IN, "                if event.is_directory and self.watch.is_recursive:\n                    for sub_created_event in generate_sub_created_events(src_path):", "                try:\n                    os.stat(src_path)\n                except OSError:\n                    pass\n                if event.is_directory and self.watch.is_recursive:\n                    for sub_created_event in generate_sub_created_events(src_path):")]),
    dict(name="B arrival installation gives up at the first unwatchable sub-directory (pre-fix F13)", expect="fire", rule="C07/vanishing-entry-costs-only-itself", edits=[("observers/inotify_c.py", '                    try:\n                        self._add_watch(full_path, mask)\n                    except OSError as e:\n                        # One sub-directory that cannot be watched (it may just have vanished) must not leave\n                        # the others unwatched: the first failure is reported once all of them have been tried.\n                        failure = failure or e\n', "                    self._add_watch(full_path, mask)\n")]),
    dict(name="B IGNORED clean-up unguarded lookup", expect="fire", rule="C07/thread-body-exception-flow", edits=[(IC, "if self._wd_for_path.get(path) == wd:", "if self._wd_for_path[path] == wd:")]),
    dict(name="B _recursive_simulate unguarded parent lookup", expect="fire", rule="C07/thread-body-exception-flow", edits=[(IC, "                    wd_parent_dir = self._wd_for_path.get(os.path.dirname(full_path))\n                    if wd_parent_dir is None:\n                        # The parent vanished before it could be watched (its failure was suppressed above).\n                        continue\n", "                    wd_parent_dir = self._wd_for_path[os.path.dirname(full_path)]\n")]),
    dict(name="B drop suppress(OSError) in _recursive_simulate", expect="fire", rule="C07/thread-body-exception-flow", edits=[(IC, "                    with contextlib.suppress(OSError):\n                        full_path = os.path.join(root, dirname)\n                        wd_dir = self._add_watch(full_path, self._event_mask)\n                        e = InotifyEvent(\n                            wd_dir,\n                            InotifyConstants.IN_CREATE | InotifyConstants.IN_ISDIR,\n                            0,\n                            dirname,\n                            full_path,\n                        )\n                        events.append(e)", "                    if True:\n                        full_path = os.path.join(root, dirname)\n                        wd_dir = self._add_watch(full_path, self._event_mask)\n                        e = InotifyEvent(\n                            wd_dir,\n                            InotifyConstants.IN_CREATE | InotifyConstants.IN_ISDIR,\n                            0,\n                            dirname,\n                            full_path,\n                        )\n                        events.append(e)")]),
    dict(name="B drop try/except around _add_watch", expect="fire", rule="C07/", edits=[(IC, "                    try:\n                        self._add_watch(src_path, self._event_mask)\n                    except OSError:\n                        continue\n", "                    self._add_watch(src_path, self._event_mask)\n")]),
    dict(name="B drop wd == -1 filter", expect="fire", rule="C07/thread-body-exception-flow", edits=[(IC, "                if wd == -1:\n                    continue\n", "")]),
    dict(name="B no stop() on root deletion", expect="fire", rule="C07/root-deletion", edits=[(IN, "                self.queue_event(cls(src_path))\n                self.stop()", "                self.queue_event(cls(src_path))")]),
    dict(name="B record appended only after a successful add-watch", expect="fire", rule="C07/swallow-is-local", edits=[(IC, "                event_list.append(inotify_event)\n\n                if self.is_recursive and inotify_event.is_directory and inotify_event.is_create:", "                if self.is_recursive and inotify_event.is_directory and inotify_event.is_create:"), (IC, "                    event_list.extend(_recursive_simulate(src_path))", "                    event_list.append(inotify_event)\n                    event_list.extend(_recursive_simulate(src_path))\n                else:\n                    event_list.append(inotify_event)")]),
    dict(name="B polling keeps running after root loss", expect="fire", rule="C07/root-deletion", edits=[(PO, "                self.queue_event(DirDeletedEvent(self.watch.path))\n                self.stop()\n                return", "                self.queue_event(DirDeletedEvent(self.watch.path))\n                return")]),
    dict(name="B reader ignores root IGNORED", expect="fire", rule="C07/root-deletion", edits=[(IB, "                    if inotify_event.src_path == self._inotify.path:\n                        # Watch was removed explicitly (inotify_rm_watch(2)) or automatically (file\n                        # was deleted, or filesystem was unmounted), stop watching for events\n                        deleted_self = True\n                    continue", "                    continue")]),
    dict(name="B moved_from lookup without membership test", expect="fire", rule="C07/thread-body-exception-flow", edits=[(IC, "        if destination_event.cookie in self._moved_from_events:\n            return self._moved_from_events[destination_event.cookie].src_path\n\n        return None", "        return self._moved_from_events[destination_event.cookie].src_path")]),
    dict(name="B read_events returns None after close", expect="fire", rule="C07/thread-body-exception-flow", edits=[(IC, "                    if self._closed:\n                        self._close_resources()\n                        return []", "                    if self._closed:\n                        self._close_resources()\n                        return None")]),
    dict(name="B emitter re-reads the buffer field after its None-test (pre-fix)", expect="fire", rule="C07/cleared-field-read-once", edits=[(IN, "            inotify = self._inotify\n            if inotify is None:\n", "            inotify = self._inotify\n            if self._inotify is None:\n"), (IN, "            event = inotify.read_event()", "            event = self._inotify.read_event()")]),
    dict(name="B descriptor decoded unsigned (overflow record passes the filter)", expect="fire", rule="C07/thread-body-exception-flow", edits=[(IC, 'struct.unpack_from("iIII", event_buffer, i)', 'struct.unpack_from("IIII", event_buffer, i)')]),
    dict(name="E reader ends its loop through its own stop event", expect="silent", edits=[(IB, "        deleted_self = False\n        while self.should_keep_running() and not deleted_self:", "        while self.should_keep_running():"), (IB, "                        # was deleted, or filesystem was unmounted), stop watching for events\n                        deleted_self = True", "                        # was deleted, or filesystem was unmounted), stop watching for events\n                        self._stopped_event.set()"), (IB, "                    # Deleted the watched directory, stop watching for events\n                    deleted_self = True", "                    # Deleted the watched directory, stop watching for events\n                    self._stopped_event.set()")]),
    dict(name="B emitter lock never created", expect="fire", rule="C07/thread-body-exception-flow", edits=[(IN, "        self._lock = threading.Lock()\n        self._inotify: InotifyBuffer | None = None", "        self._inotify: InotifyBuffer | None = None")]),
    dict(name="E map entries stored through a helper", expect="silent", edits=[(IC, "        self._wd_for_path[path] = wd\n        self._path_for_wd[wd] = path\n        return wd", "        self._set_watch_path(wd, path)\n        return wd"), (IC, "    @staticmethod\n    def _raise_error() -> None:", "    def _set_watch_path(self, wd, path) -> None:\n        self._wd_for_path[path] = wd\n        self._path_for_wd[wd] = path\n\n    @staticmethod\n    def _raise_error() -> None:")]),
    dict(name="B map entry keyed by the normalised path", expect="fire", rule="C07/root-spelling-preserved", edits=[(IC, "        self._wd_for_path[path] = wd\n        self._path_for_wd[wd] = path\n        return wd", "        self._wd_for_path[os.path.normpath(path)] = wd\n        self._path_for_wd[wd] = path\n        return wd")]),
    dict(name="B reader normalises its root", expect="fire", rule="C07/root-spelling-preserved", edits=[(IC, "        self._path = path\n", "        self._path = path = os.path.normpath(path)\n")]),
    dict(name="B emitter resolves the root before watching", expect="fire", rule="C07/root-spelling-preserved", edits=[(IN, "        path = os.fsencode(self.watch.path)\n", "        path = os.path.realpath(os.fsencode(self.watch.path))\n")]),
    dict(name="B root test against the absolute path", expect="fire", rule="C07/root-spelling-preserved", edits=[(IN, "elif event.is_delete_self and src_path == self.watch.path:", "elif event.is_delete_self and src_path == os.path.abspath(self.watch.path):")]),
    dict(name="E root kept in a second local", expect="silent", edits=[(IN, "        path = os.fsencode(self.watch.path)\n", "        root = self.watch.path\n        path = os.fsencode(root)\n")]),
    dict(name="E suppress -> try/except/pass", expect="silent", edits=[(IC, "                        with contextlib.suppress(OSError):\n                            self._add_dir_watch(inotify_event.src_path, self._event_mask, recursive=True)", "                        try:\n                            self._add_dir_watch(inotify_event.src_path, self._event_mask, recursive=True)\n                        except OSError:\n                            pass")]),
    dict(name="B arrival absorbs only FileNotFoundError", expect="fire", rule="C07/thread-body-exception-flow", edits=[(IC, "                        with contextlib.suppress(OSError):\n                            self._add_dir_watch(inotify_event.src_path", "                        with contextlib.suppress(FileNotFoundError):\n                            self._add_dir_watch(inotify_event.src_path")]),
    dict(name="E get(...) -> membership test + lookup", expect="silent", edits=[(IC, "if self._wd_for_path.get(path) == wd:", "if path in self._wd_for_path and self._wd_for_path[path] == wd:")]),
    dict(name="E pop with default", expect="silent", edits=[(IC, "                        moved_wd = self._wd_for_path[move_src_path]\n                        del self._wd_for_path[move_src_path]", "                        moved_wd = self._wd_for_path.pop(move_src_path)")]),
]


def thorough(ctx):
    from ..selftest import thorough as st

    return st(ctx, VARIANTS)
