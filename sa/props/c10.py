"""C10 — polling reports exactly the diff of successive snapshots and survives races.

Decided: every listdir/stat call of the snapshot walk below the root absorbs ENOENT/ENOTDIR/EACCES *per entry* at every
recursion depth (exception flow through the recursive generator); the polling emitter maps each of the eight diff lists
exactly once to its event class, deletions before creations; baseline hand-over; non-recursive walks do not descend.
The root-gone branch is C07/root-deletion.  Not decided: that a diff is the right diff (C09); all state pairs.
"""

from __future__ import annotations

import ast
import re

from ..emit import emissions_of
from ..model import AnalysisError
from ..pse import NORMAL, Cfg, Enumerator, walk_with_locks
from ..threads import ThreadCfg

LEVEL_TEXT = (
    "Static analysis. Errno-precise exception flow through DirectorySnapshot.walk: each injectable listdir/stat call forks an "
    "OSError edge for ENOENT, ENOTDIR and EACCES; the escape set of the recursive generator is computed as a fixpoint and fed "
    "back into the `yield from self.walk(...)` site, which discharges 'a failure at every call position of a walk' by the "
    "recursion structure; absorption must happen inside the iteration of the entry it concerns. Path enumeration of "
    "PollingEmitter.queue_events for the list->class table, ordering and baseline hand-over."
)

KINDS = ["OSError:ENOENT", "OSError:ENOTDIR", "OSError:EACCES"]
TABLE = {
    "files_deleted": ("FileDeletedEvent", 1),
    "files_modified": ("FileModifiedEvent", 1),
    "files_created": ("FileCreatedEvent", 1),
    "files_moved": ("FileMovedEvent", 2),
    "dirs_deleted": ("DirDeletedEvent", 1),
    "dirs_modified": ("DirModifiedEvent", 1),
    "dirs_created": ("DirCreatedEvent", 1),
    "dirs_moved": ("DirMovedEvent", 2),
}


class WalkCfg(Cfg):
    def __init__(self, P, rec_escape: set[str]):
        super().__init__(P)
        self.rec_escape = rec_escape

    def inline(self, call, ft, rc, st):
        # private helpers of the snapshot class are part of the walk (the listing / the stat may be made in one of them)
        if ft.startswith("self.") and ft.count(".") == 1 and st.selfcls:
            name = ft.split(".")[1]
            if name in ("walk", "stat", "listdir"):
                return None
            fi = self.program.find_method(st.selfcls, name)
            if fi is not None and not any(isinstance(d, ast.Name) and d.id == "property" for d in fi.node.decorator_list):
                return fi, st.selfcls, None
        return None

    def raises(self, kind, text, node, st):
        if kind not in ("call", "iter"):
            return ()
        f = text.split("(")[0]
        if f in ("self.listdir", "self.stat"):
            # "iter": the listing is consumed lazily (a generator expression, or the iterator itself): each next() can fail
            return list(KINDS)
        if kind == "iter":
            return ()
        if f == "self.walk":
            return sorted(self.rec_escape)
        return ()


def all_body_paths(paths):
    for p in paths:
        for e in p.evs:
            if e.kind == "loop":
                for b in e.extra["paths"]:
                    yield e, b
                yield from all_body_paths(e.extra["paths"])


COPIES = ("set", "list", "tuple", "sorted", "frozenset")


def pairing_loops_examine_the_whole_set(ctx, RULE, P) -> None:
    ci = P.cls("DirectorySnapshotDiff")
    fns = [fi.node for fi in ci.methods.values()] + [f.node for f in ci.module.functions.values()]
    found = 0
    for fn in fns:
        # straight-line view of the function (nested defs are their own functions)
        assigns: dict[str, list[ast.expr]] = {}
        for n in ast.walk(fn):
            if isinstance(n, ast.Assign) and len(n.targets) == 1:
                if isinstance(n.targets[0], ast.Name):
                    assigns.setdefault(n.targets[0].id, []).append(n.value)
                elif isinstance(n.targets[0], ast.Tuple) and isinstance(n.value, ast.Tuple) and len(n.targets[0].elts) == len(n.value.elts):
                    for t_, v_ in zip(n.targets[0].elts, n.value.elts):
                        if isinstance(t_, ast.Name):
                            assigns.setdefault(t_.id, []).append(v_)
            elif isinstance(n, ast.AnnAssign) and isinstance(n.target, ast.Name) and n.value is not None:
                assigns.setdefault(n.target.id, []).append(n.value)

        def expand(e: ast.expr, depth: int = 0) -> str:
            """the expression with single-assignment locals replaced by what they were assigned"""

            class T(ast.NodeTransformer):
                def visit_Name(self, n):
                    vs = assigns.get(n.id, [])
                    if isinstance(n.ctx, ast.Load) and len(vs) == 1 and depth < 4:
                        return ast.parse(expand(vs[0], depth + 1), mode="eval").body
                    return n

            import copy as _copy

            return ast.unparse(T().visit(_copy.deepcopy(e)))

        for loop in [n for n in ast.walk(fn) if isinstance(n, ast.For) and isinstance(n.target, ast.Name)]:
            v = loop.target.id
            removed_from = set()
            for c in ast.walk(loop):
                if isinstance(c, ast.Call) and isinstance(c.func, ast.Attribute) and c.func.attr in ("remove", "discard") and isinstance(c.func.value, ast.Name) and len(c.args) == 1 and isinstance(c.args[0], ast.Name) and c.args[0].id == v:
                    removed_from.add(c.func.value.id)
            for S in sorted(removed_from):
                found += 1
                it = loop.iter
                core = it
                if isinstance(core, ast.Call) and isinstance(core.func, ast.Name) and core.func.id in COPIES and len(core.args) == 1:
                    core = core.args[0]
                elif isinstance(core, ast.Call) and isinstance(core.func, ast.Attribute) and core.func.attr == "copy" and not core.args:
                    core = core.func.value
                loc = f"{ci.module.relpath}:{loop.lineno}"
                construct = f"{fn.name}: loop that removes its element from `{S}`"
                if isinstance(core, ast.Name) and core.id == S and core is not it:
                    ctx.ok(RULE, construct, loc)
                    continue
                # another expression: which value of S is it?
                grown = [c for c in ast.walk(fn) if isinstance(c, ast.Call) and isinstance(c.func, ast.Attribute) and c.func.attr in ("add", "update") and isinstance(c.func.value, ast.Name) and c.func.value.id == S and c.lineno < loop.lineno]
                grown += [c for c in ast.walk(fn) if isinstance(c, ast.AugAssign) and isinstance(c.target, ast.Name) and c.target.id == S and isinstance(c.op, ast.BitOr) and c.lineno < loop.lineno]
                inits = assigns.get(S, [])
                if len(inits) == 1 and expand(core) == expand(inits[0]):
                    ctx.check(
                        not grown,
                        RULE,
                        construct,
                        f"the loop ranges over `{ast.unparse(it)[:60]}`, the value `{S}` started with, but `{S}` has been added to since (line {grown[0].lineno if grown else 0}): the paths added there are never examined, so one that is the {'source' if 'delet' in S else 'end'} of a move stays in `{S}` as well (an extra event for an entry of the difference)",
                        loc,
                    )
                    continue
                raise AnalysisError(f"{construct} (line {loop.lineno}): the loop ranges over `{ast.unparse(it)[:80]}`, which this rule cannot relate to `{S}` (known: a copy of `{S}`, or the expression `{S}` was initialised with)")
    if not found:
        raise AnalysisError("DirectorySnapshotDiff: no loop that takes its element out of a set was found (structure of the move pairing not recognised)")


def category_kind_split(ctx, RULE, P) -> None:
    ci = P.cls("DirectorySnapshotDiff")
    ini = ci.methods.get("__init__")
    if ini is None:
        raise AnalysisError("anchor vanished: DirectorySnapshotDiff.__init__")
    fns = [ini.node] + [fi.node for n_, fi in ci.methods.items() if n_ != "__init__"]
    assigns: dict[str, list[ast.expr]] = {}
    stores: dict[str, ast.expr] = {}
    for fn in fns[:1]:
        for n in ast.walk(fn):
            if isinstance(n, (ast.Assign, ast.AnnAssign)):
                tg = n.targets if isinstance(n, ast.Assign) else [n.target]
                if getattr(n, "value", None) is None:
                    continue
                for t in tg:
                    if isinstance(t, ast.Name):
                        assigns.setdefault(t.id, []).append(n.value)
                    elif isinstance(t, ast.Attribute) and isinstance(t.value, ast.Name) and t.value.id == "self":
                        stores[t.attr] = n.value

    def expand(e: ast.expr, depth: int = 0) -> str:
        import copy as _copy

        class T(ast.NodeTransformer):
            def visit_Name(self, n):
                vs = assigns.get(n.id, [])
                if isinstance(n.ctx, ast.Load) and len(vs) == 1 and depth < 3 and not isinstance(vs[0], (ast.BinOp,)) and any(isinstance(x, ast.Attribute) and x.attr.startswith("_dirs_") for x in ast.walk(vs[0])):
                    return ast.parse(expand(vs[0], depth + 1), mode="eval").body
                return n

        return ast.unparse(T().visit(_copy.deepcopy(e)))

    decided = 0
    for cat in ("created", "deleted", "modified", "moved"):
        F = stores.get(f"_files_{cat}")
        if F is None:
            continue
        txt = expand(F)
        others = [c for c in ("created", "deleted", "modified", "moved") if c != cat and f"_dirs_{c}" in txt]
        own = f"_dirs_{cat}" in txt
        if not own and not others:
            ctx.unresolved.append(f"DirectorySnapshotDiff._files_{cat} = {txt[:60]}: kind split not recognised")
            continue
        decided += 1
        ctx.check(
            not others,
            RULE,
            f"DirectorySnapshotDiff._files_{cat} leaves out the directories of `{cat}` only",
            f"`_files_{cat}` is `{txt[:110]}`: the directories of {others} are subtracted as well, so a path of `{cat}` that is a directory in the other snapshot (an entry replaced by one of the other kind under the same name) is in neither list of `{cat}`: one entry of the difference gets no event",
            f"{ci.module.relpath}:{F.lineno}",
        )
    ctx.count("kind_splits_decided", decided)


def run(ctx) -> None:
    P = ctx.P
    RW = ctx.rule("C10/tolerant-walk-at-every-position", "for every listdir/stat call below the root, at every depth: ENOENT, ENOTDIR and EACCES are absorbed inside the snapshot constructor, within the iteration of the entry they concern (the entry is treated as absent, its siblings are still visited)", floor=6)
    RR = ctx.rule("C10/root-stat-unguarded", "the root's own stat in DirectorySnapshot.__init__ is not absorbed (it is what signals 'root gone')", floor=1)
    RE = ctx.rule("C10/one-event-per-diff-entry", "each of the eight diff lists is iterated exactly once and mapped to its class with the entry's path(s); deletions of a kind before creations of that kind; no other emission on the normal path", floor=9)
    RB = ctx.rule("C10/baseline", "start stores a fresh snapshot; each poll diffs (stored, fresh) in that order and replaces the stored snapshot exactly once, after the diff and before any event, under the emitter lock, after the keep-running re-check", floor=4)
    RN = ctx.rule("C10/non-recursive", "the sub-walk is control-dependent on the recursive flag", floor=1)

    wf = P.find_method("DirectorySnapshot", "walk")
    if wf is None:
        raise AnalysisError("anchor vanished: DirectorySnapshot.walk")
    # fixpoint of the escape set of walk()
    esc: set[str] = set()
    for _ in range(6):
        paths = Enumerator(WalkCfg(P, esc)).run(wf, selfcls="DirectorySnapshot")
        new = {p.outcome[1] for p in paths if p.outcome[0] == "raise"}
        if new == esc:
            break
        esc = new
    else:
        raise AnalysisError("escape-set fixpoint of DirectorySnapshot.walk did not converge")
    ctx.count("walk_paths", len(paths))
    ctx.extra["walk_escape_set"] = sorted(esc)
    loc = wf.loc
    for k in ("OSError:ENOENT", "OSError:ENOTDIR"):
        ctx.check(k not in esc, RW, f"walk(): {k.split(':')[1]} from listdir does not escape", f"{k} escapes DirectorySnapshot.walk: a directory that vanished / became a file between its parent's listing and its own aborts the whole snapshot", loc)
    ctx.check(esc <= {"OSError:EACCES"}, RW, "walk(): only EACCES may leave a sub-walk", f"escape set of walk() is {sorted(esc)}", loc)
    # per-iteration absorption
    nsite = {"stat": 0, "walk": 0}
    for L, b in all_body_paths(paths):
        raised = [e for e in b.evs if e.kind == "raised"]
        if not raised:
            continue
        at = raised[-1].extra.get("at", "")
        site = "stat" if at.startswith("self.stat") else "walk" if at.startswith("self.walk") else "listdir" if "listdir" in at else at[:20]
        if site in nsite:
            nsite[site] += 1
        kind = raised[-1].text
        absorbed_here = b.outcome[0] != "raise"
        ctx.check(
            absorbed_here,
            RW,
            f"walk(): {kind.split(':')[1]} at {site}() is absorbed within the entry's iteration",
            f"{kind} raised by {site}() for one entry leaves the loop over the entries (outcome {b.outcome[0]}): the entries listed after it are skipped — "
            "they disappear from the snapshot and are reported as deleted although they exist",
            f"{wf.module.relpath}:{raised[-1].line}",
        )
        if absorbed_here and site == "stat":
            ys = [e for e in b.evs if e.kind == "yield"]
            ctx.check(not ys, RW, f"walk(): an entry whose stat failed ({kind.split(':')[1]}) is not yielded", "an entry is yielded although its stat failed", loc, nontrivial=False)
    ctx.check(nsite["stat"] >= 3 and nsite["walk"] >= 1, RW, "walk(): both fallible sites are inside per-entry loops", f"fault sites found in loops: {nsite}", loc)
    # non-recursive
    okn = True
    for p in paths:
        rec = p.conds().get("self.recursive")
        # (a `yield from` of anything else -- the entries already collected -- is not a descent)
        has_sub = any((e.kind == "yield_from" and re.match(r"self\.walk\(", e.text)) or (e.kind == "call" and e.extra.get("func") == "self.walk") for e in p.flat())
        if has_sub and rec is not True:
            okn = False
    ctx.check(okn, RN, "walk(): recursion only when self.recursive", "the sub-walk runs although the snapshot is not recursive", loc)
    # ... and nothing else keeps a recursive walk out of a directory: an entry that is a directory is descended into on every path
    # (a further condition -- "already seen", a depth limit -- leaves the entries below it out of the snapshot)
    RDESC = ctx.rule("C10/every-directory-is-descended-into", "in a recursive walk every listed entry whose stat says directory is walked: no path of the per-entry loop with S_ISDIR true and the recursive flag true skips the sub-walk", floor=1)
    nd, okd, whyd = 0, True, ""
    for L, b in all_body_paths(paths):
        c_ = b.conds()
        isd = next((t for a, t in c_.items() if a.startswith("S_ISDIR(") or ".is_dir(" in a), None)
        if isd is not True or b.outcome[0] == "raise":
            continue
        if c_.get("self.recursive") is False:
            continue
        nd += 1
        sub = any((e.kind == "yield_from" and re.match(r"self\.walk\(", e.text)) or (e.kind == "call" and e.extra.get("func") == "self.walk") for e in b.evs)
        if not sub:
            okd, whyd = False, f"a directory entry is not descended into on the path [{b.sig()[:140]}]: everything below it is missing from the snapshot (and reported as deleted / never reported)"
    ctx.check(okd and nd > 0, RDESC, "walk(): directories are always descended into", whyd or "no path of the per-entry loop descends into a directory", loc)
    # the right paths: an entry is spelled under the directory that was asked for, whatever the (custom) listdir's entries carry
    RPA = ctx.rule("C10/entries-spelled-under-the-listed-directory", "every path the walk builds is join(<the directory it listed, as given>, <entry>.name): a custom listdir (PollingObserverVFS) only supplies names, and the events carry paths under the watched path (instance shared with C19)", floor=1)
    from .c19 import walk_builds_paths_from_root

    okp, ploc = walk_builds_paths_from_root(P)
    ctx.check(okp, RPA, "DirectorySnapshot.walk builds paths from the directory as given", "snapshot paths are not all join(root, entry.name) over the entries of listdir(root): with a custom listdir the entries are recorded (and reported) under foreign paths, or the walk raises on entries that only have a name", ploc)
    # root stat
    init = P.find_method("DirectorySnapshot", "__init__")
    ipaths = Enumerator(WalkCfg(P, esc)).run(init, selfcls="DirectorySnapshot")
    root_raise = [p for p in ipaths if p.outcome[0] == "raise" and any(e.kind == "raised" and e.extra.get("at", "").startswith("self.stat(path") for e in p.evs)]
    ctx.check(len(root_raise) >= 3, RR, "DirectorySnapshot.__init__ root stat", "a failing stat of the root is absorbed: a vanished root would look like an empty tree instead of 'root gone'", init.loc)

    RPL = ctx.rule(
        "C10/pairing-loops-examine-the-whole-set",
        "a loop of the diff computation whose body takes its own element out of a set (a deleted / created path that turns out to be one end of a move) ranges over a copy of that set as it stands at the loop, not over an earlier value of it: elements added since (paths present in both snapshots whose inode changed) would never be examined and stay listed as deleted / created besides being one end of a move",
        floor=2,
    )
    pairing_loops_examine_the_whole_set(ctx, RPL, P)
    RKP = ctx.rule(
        "C10/each-category-splits-into-its-own-kinds",
        "the file list of a category (created / deleted / modified / moved) is that category's set minus *that category's* directory list (or the complementary selection): subtracting the directories of another category as well drops a path that is a directory in one snapshot and a file in the other (replaced under the same name) from the file list, and its FileCreatedEvent / FileDeletedEvent is never delivered",
        floor=0,
    )
    category_kind_split(ctx, RKP, P)

    # ---------------------------------------------------------------- polling emitter table
    pf = P.find_method("PollingEmitter", "queue_events")
    if pf is None:
        raise AnalysisError("anchor vanished: PollingEmitter.queue_events")
    cfg = ThreadCfg(P, follow_attrs=False, no_inline={"queue_event", "stop", "should_keep_running", "_take_snapshot"})
    ppaths = Enumerator(cfg).run(pf, selfcls="PollingEmitter")
    ctx.count("polling_paths", len(ppaths))
    normal = [p for p in ppaths if any(e.kind == "loop" for e in p.evs)]
    if not normal:
        raise AnalysisError("PollingEmitter.queue_events: no path that processes a diff")
    for p in normal:
        ems = emissions_of(p.evs, P, {})
        order = []
        for em in ems:
            if em.kind != "LOOP":
                ctx.viol(RE, f"extra emission {em.brief()[:60]}", "an event is emitted outside the eight diff-list loops on the normal path", pf.loc)
                continue
            m = re.fullmatch(r"(?:DirectorySnapshotDiff\(.*\)|[\w']+)\.(\w+)", em.iter)
            lst = m.group(1) if m else em.iter
            order.append(lst)
            want = TABLE.get(lst)
            if want is None:
                ctx.viol(RE, f"loop over {lst}", f"events emitted from an unknown list `{em.iter[:60]}`", pf.loc)
                continue
            cls, arity = want
            ok = all(len(b) == 1 and b[0].kind == "E" and b[0].cls == cls for b in em.inner) and bool(em.inner)
            if ok:
                for b in em.inner:
                    a = b[0].args
                    if arity == 1:
                        ok = ok and len(a) == 1 and a[0].startswith("$elem(") and a[0].endswith(f".{lst})")
                    else:
                        # (source, destination) by position, or the pair itself unpacked into the constructor (`Cls(*pair)`, starmap)
                        ok = ok and ((len(a) == 2 and a[0].endswith(f".{lst})[0]") and a[1].endswith(f".{lst})[1]")) or (len(a) == 1 and a[0].startswith("*$elem(") and a[0].endswith(f".{lst})")))
            ctx.check(ok, RE, f"{lst} -> {cls}", f"list {lst} is translated to {[[e.brief() for e in b] for b in em.inner]}; expected one {cls} per entry with the entry's path(s) in order", pf.loc)
        for lst in TABLE:
            ctx.check(order.count(lst) == 1, RE, f"{lst} iterated exactly once", f"{lst} is iterated {order.count(lst)} times: entries are {'lost' if order.count(lst) == 0 else 'reported twice'}", pf.loc)
        for kind in ("files", "dirs"):
            d, c = f"{kind}_deleted", f"{kind}_created"
            if d in order and c in order:
                ctx.check(order.index(d) < order.index(c), RE, f"{kind}: deleted before created", f"{c} is reported before {d}: a name that was deleted and re-created is seen created, then deleted", pf.loc)
        ctx.sample({"order": order})
        # baseline
        evs = p.evs
        idx_diff = [i for i, e in enumerate(evs) if e.kind == "call" and e.extra.get("func", "").endswith("DirectorySnapshotDiff")]
        idx_store = [i for i, e in enumerate(evs) if e.kind == "store" and e.extra.get("attr") == "_snapshot"]
        idx_first_loop = min(i for i, e in enumerate(evs) if e.kind == "loop")
        okd = len(idx_diff) == 1
        if okd:
            a = evs[idx_diff[0]].extra.get("args") or []
            okd = len(a) == 2 and a[0] == "self._snapshot" and a[1] == "self._take_snapshot()"
        ctx.check(okd, RB, "diff(stored, fresh)", f"the diff is not DirectorySnapshotDiff(stored snapshot, fresh snapshot): {[evs[i].text[:80] for i in idx_diff]}", pf.loc)
        oks = len(idx_store) == 1 and idx_diff and idx_diff[0] < idx_store[0] < idx_first_loop and evs[idx_store[0]].extra.get("value") == "self._take_snapshot()"
        ctx.check(bool(oks), RB, "stored snapshot replaced once, after the diff, before any event", f"snapshot stores at {idx_store}, diff at {idx_diff}, first event loop at {idx_first_loop}", pf.loc)
        held_ok = True
        for e, held, _p in walk_with_locks([p], lambda s: s):
            if (e.kind == "store" and e.extra.get("attr") == "_snapshot") or (e.kind == "call" and e.extra.get("func") == "self.queue_event") or (e.kind == "call" and e.extra.get("func") == "self._take_snapshot"):
                if held.get("self._lock", 0) <= 0:
                    held_ok = False
        ctx.check(held_ok, RB, "poll body under the emitter lock", "the snapshot hand-over or the emission happens outside the emitter lock", pf.loc)
        kr = p.conds().get("self.should_keep_running()")
        ctx.check(kr is True, RB, "keep-running re-check dominates the poll", "the poll proceeds without re-checking should_keep_running() after the wait", pf.loc)
    ots = P.find_method("PollingEmitter", "on_thread_start")
    okst = any(e.kind == "store" and e.extra.get("attr") == "_snapshot" and e.extra.get("value") == "self._take_snapshot()" for p in Enumerator(cfg).run(ots, selfcls="PollingEmitter") for e in p.evs)
    ctx.check(okst, RB, "baseline taken at start", "on_thread_start does not store a fresh snapshot as baseline", ots.loc)
    ctx.assumptions += ["fault model: OSError with errno ENOENT / ENOTDIR / EACCES from the injectable listdir and stat", "DirectorySnapshotDiff is correct (C09, not claimed)"]


DS = "utils/dirsnapshot.py"
PO = "observers/polling.py"
VARIANTS = [
    dict(name="B entry.path instead of join(root, entry.name)", expect="fire", rule="C10/entries-spelled-under-the-listed-directory", edits=[("utils/dirsnapshot.py", "paths = [os.path.join(root, entry.name) for entry in self.listdir(root)]", "paths = [entry.path for entry in self.listdir(root)]")]),
    dict(name="B listing consumed lazily outside the guarded region", expect="fire", rule="C10/tolerant-walk-at-every-position", edits=[("utils/dirsnapshot.py", "            paths = [os.path.join(root, entry.name) for entry in self.listdir(root)]", "            paths = (os.path.join(root, entry.name) for entry in self.listdir(root))")]),
    dict(name="E listing materialised with list() inside the guarded region", expect="silent", edits=[("utils/dirsnapshot.py", "            paths = [os.path.join(root, entry.name) for entry in self.listdir(root)]", "            paths = list(os.path.join(root, entry.name) for entry in self.listdir(root))")]),
    dict(name="B drop ENOTDIR from the errno tuple", expect="fire", rule="C10/tolerant-walk-at-every-position", edits=[(DS, "if e.errno in (errno.ENOENT, errno.ENOTDIR, errno.EINVAL):", "if e.errno in (errno.ENOENT, errno.EINVAL):")]),
    dict(name="B drop suppress(OSError) around stat", expect="fire", rule="C10/tolerant-walk-at-every-position", edits=[(DS, "            with contextlib.suppress(OSError):\n                entry = (p, self.stat(p))\n                entries.append(entry)\n                yield entry", "            if True:\n                entry = (p, self.stat(p))\n                entries.append(entry)\n                yield entry")]),
    dict(name="B drop suppress(PermissionError)", expect="fire", rule="C10/tolerant-walk-at-every-position", edits=[(DS, "                with contextlib.suppress(PermissionError):\n                    if S_ISDIR(st.st_mode):\n                        yield from self.walk(path)", "                if True:\n                    if S_ISDIR(st.st_mode):\n                        yield from self.walk(path)")]),
    dict(name="B suppress(PermissionError) moved outside the loop", expect="fire", rule="C10/tolerant-walk-at-every-position", edits=[(DS, "            for path, st in entries:\n                with contextlib.suppress(PermissionError):\n                    if S_ISDIR(st.st_mode):\n                        yield from self.walk(path)", "            with contextlib.suppress(PermissionError):\n                for path, st in entries:\n                    if S_ISDIR(st.st_mode):\n                        yield from self.walk(path)")]),
    dict(name="B created before deleted", expect="fire", rule="C10/one-event-per-diff-entry", edits=[(PO, "            for src_path in events.files_deleted:\n                self.queue_event(FileDeletedEvent(src_path))\n            for src_path in events.files_modified:\n                self.queue_event(FileModifiedEvent(src_path))\n            for src_path in events.files_created:\n                self.queue_event(FileCreatedEvent(src_path))", "            for src_path in events.files_created:\n                self.queue_event(FileCreatedEvent(src_path))\n            for src_path in events.files_modified:\n                self.queue_event(FileModifiedEvent(src_path))\n            for src_path in events.files_deleted:\n                self.queue_event(FileDeletedEvent(src_path))")]),
    dict(name="B diff arguments swapped", expect="fire", rule="C10/baseline", edits=[(PO, "DirectorySnapshotDiff(self._snapshot, new_snapshot)", "DirectorySnapshotDiff(new_snapshot, self._snapshot)")]),
    dict(name="B fresh snapshot not stored", expect="fire", rule="C10/baseline", edits=[(PO, "            self._snapshot = new_snapshot\n", "")]),
    dict(name="B dirs_moved mapped to FileMovedEvent", expect="fire", rule="C10/one-event-per-diff-entry", edits=[(PO, "self.queue_event(DirMovedEvent(src_path, dest_path))", "self.queue_event(FileMovedEvent(src_path, dest_path))")]),
    dict(name="B moved paths swapped", expect="fire", rule="C10/one-event-per-diff-entry", edits=[(PO, "self.queue_event(FileMovedEvent(src_path, dest_path))", "self.queue_event(FileMovedEvent(dest_path, src_path))")]),
    dict(name="B recursion regardless of flag", expect="fire", rule="C10/non-recursive", edits=[(DS, "        if self.recursive:\n            for path, st in entries:", "        if True:\n            for path, st in entries:")]),
    dict(name="B root stat absorbed", expect="fire", rule="C10/root-stat-unguarded", edits=[(DS, "        st = self.stat(path)\n        self._stat_info[path] = st\n        self._inode_to_path[(st.st_ino, st.st_dev)] = path\n", "        try:\n            st = self.stat(path)\n        except OSError:\n            return\n        self._stat_info[path] = st\n        self._inode_to_path[(st.st_ino, st.st_dev)] = path\n")]),
    dict(name="B dirs_modified loop dropped", expect="fire", rule="C10/one-event-per-diff-entry", edits=[(PO, "            for src_path in events.dirs_modified:\n                self.queue_event(DirModifiedEvent(src_path))\n", "")]),
    dict(name="E suppress -> try/except in the stat loop", expect="silent", edits=[(DS, "            with contextlib.suppress(OSError):\n                entry = (p, self.stat(p))\n                entries.append(entry)\n                yield entry", "            try:\n                entry = (p, self.stat(p))\n            except OSError:\n                continue\n            entries.append(entry)\n            yield entry")]),
    dict(name="E errno test as separate comparisons", expect="silent", edits=[(DS, "if e.errno in (errno.ENOENT, errno.ENOTDIR, errno.EINVAL):", "if e.errno == errno.ENOENT or e.errno == errno.ENOTDIR or e.errno == errno.EINVAL:")]),
]


def thorough(ctx):
    from ..selftest import thorough as st

    return st(ctx, VARIANTS)
