"""C05 — after unschedule/remove/stop returns, the removed handler is never called again.

Decided: removal and dispatch serialise on one lock object; the per-callback re-check reads the live registry;
unschedule / unschedule_all / stop must reach stop() and then join() of the affected emitter(s) on every normal path.
"""

from __future__ import annotations

import re

from ..dispatch import dispatch_shape
from ..model import AnalysisError
from ..pse import NORMAL, Enumerator, walk_with_locks
from ..threads import ThreadCfg, guarded_by, lock_assignments
from .c04 import FIELDS, observer_entries

LEVEL_TEXT = (
    "Static analysis. Lock-set analysis of every registry removal site and of the dispatch site (same lock object, bound once); "
    "freshness rule for the membership re-check; interprocedural must-effect analysis (class-specialised path enumeration with "
    "helpers inlined) showing that every normal path of unschedule/unschedule_all/stop reaches emitter.stop() and then "
    "emitter.join() for the affected emitters."
)

REMOVAL = re.compile(r"^del self\._handlers\b|self\._handlers(\[[^\]]+\])?\.(pop|remove|discard|clear|popitem)\(")


def run(ctx) -> None:
    P = ctx.P
    RS = ctx.rule("C05/same-lock", "every removal from the handler registry is made holding the lock that the dispatch site holds while calling handlers", floor=4)
    RL = ctx.rule("C05/live-recheck", "before every single callback the handler is re-checked against a fresh read of the live registry (shared with C04)", floor=1)
    RJ = ctx.rule(
        "C05/stop-and-join",
        "on every normal path unschedule reaches stop() and then join() of the emitter looked up under the given watch; unschedule_all "
        "reaches stop() of every emitter and then join() of every emitter; stop() reaches unschedule_all",
        floor=3,
    )
    cfg = ThreadCfg(P, no_inline={"join", "is_alive", "dispatch", "queue_events", "BaseThread.start"}, follow_attrs=False)
    res, npaths = guarded_by(P, "BaseObserver", FIELDS, "self._lock", [e for e in observer_entries(P, "BaseObserver") if e not in ("__init__",)], cfg)
    ctx.count("paths", npaths)
    seen = set()
    for r in res:
        if not REMOVAL.search(r["stmt"]):
            continue
        k = (r["fn"], r["stmt"], r["entry"])
        if k in seen:
            continue
        seen.add(k)
        ctx.check(
            r["held"],
            RS,
            f"entry={r['entry']} in={r['fn']} :: {r['stmt']}",
            "handler removed from the registry without the observer lock: the dispatcher may be between its re-check and the callback",
            f"{P.cls('BaseObserver').module.relpath}:{r['line']}",
        )
    assigns = lock_assignments(P, "BaseObserver", "_lock")
    ctx.check(assigns == ["BaseObserver.__init__"], RS, "BaseObserver._lock bound once", f"observer lock (re)bound in {assigns}", P.cls("BaseObserver").loc)

    dispatch_shape(ctx, None, None, RL, only_live=True)

    # ---------------------------------------------------------------- stop-and-join (must-effects)
    def calls_in_order(p, pat_stop, pat_join):
        """index of first stop matching, index of first join after it."""
        i_stop = i_join = None
        for i, e in enumerate(p.evs):
            if e.kind == "call":
                f = e.extra.get("func", "")
                if i_stop is None and re.fullmatch(pat_stop, f):
                    i_stop = i
                elif i_stop is not None and i_join is None and re.fullmatch(pat_join, f):
                    i_join = i
        return i_stop, i_join

    for cls in ["BaseObserver"]:
        fi = P.find_method(cls, "unschedule")
        if fi is None:
            raise AnalysisError("anchor vanished: BaseObserver.unschedule")
        paths = Enumerator(cfg).run(fi, selfcls=cls)
        ctx.count("must_effect_paths", len(paths))
        normal = [p for p in paths if p.outcome is NORMAL or p.outcome[0] == "return"]
        if not normal:
            raise AnalysisError("unschedule has no normal path")
        ok = True
        msg = ""
        for p in normal:
            a, b = calls_in_order(p, r"self\._emitter_for_watch\[watch\]\.stop|self\._emitter_for_watch\.(pop|get)\(watch[^)]*\)\.stop", r"self\._emitter_for_watch\[watch\]\.join|self\._emitter_for_watch\.(pop|get)\(watch[^)]*\)\.join")
            if a is None:
                ok, msg = False, "a normal path of unschedule() does not stop the emitter it looked up under the given watch"
            elif b is None:
                ok, msg = False, "a normal path of unschedule() stops the emitter but returns without joining it: the emitter thread may still queue events"
        ctx.check(ok, RJ, f"{cls}.unschedule", msg, fi.loc)

        fa = P.find_method(cls, "unschedule_all")
        if fa is None:
            raise AnalysisError("anchor vanished: BaseObserver.unschedule_all")

        def all_stop_join(paths, what):
            ok, msg = True, ""
            normal = [p for p in paths if p.outcome is NORMAL or p.outcome[0] == "return"]
            if not normal:
                return False, f"{what} has no normal path"
            for p in normal:
                stopped = joined = False
                order_ok = True
                cleared = False
                for e in p.evs:
                    if e.kind == "call" and re.fullmatch(r"self\._emitters\.(clear|difference_update|intersection_update)", e.extra.get("func", "")):
                        cleared = True
                    if e.kind != "loop":
                        continue
                    if cleared and "self._emitters" in e.text:
                        order_ok = False  # iterating the collection after it was emptied: nothing is stopped / joined
                    it = e.text
                    if "self._emitters" not in it:
                        continue
                    body = e.extra["paths"]
                    bs = all(any(x.kind == "call" and re.fullmatch(r"\$elem\(.*\)\.stop", x.extra.get("func", "")) for x in b.evs) for b in body if b.outcome in (NORMAL, ("continue",)))
                    bj = all(any(x.kind == "call" and re.fullmatch(r"\$elem\(.*\)\.join", x.extra.get("func", "")) for x in b.evs) for b in body if b.outcome in (NORMAL, ("continue",)))
                    if bs and body:
                        stopped = True
                    if bj and body:
                        if not stopped:
                            order_ok = False
                        joined = True
                if not stopped:
                    ok, msg = False, f"a normal path of {what} does not call stop() on every emitter"
                elif not joined:
                    ok, msg = False, f"a normal path of {what} does not join every emitter after stopping it"
                elif not order_ok:
                    ok, msg = False, f"{what} joins emitters before stopping them, or walks the emitter set after emptying it"
            return ok, msg

        paths = Enumerator(cfg).run(fa, selfcls=cls)
        ctx.count("must_effect_paths", len(paths))
        ok, msg = all_stop_join(paths, "unschedule_all()")
        ctx.check(ok, RJ, f"{cls}.unschedule_all", msg, fa.loc)

        fs = P.find_method(cls, "stop")
        paths = Enumerator(cfg).run(fs, selfcls=cls)
        ctx.count("must_effect_paths", len(paths))
        ok, msg = all_stop_join(paths, "stop()")
        reached = all(any(e.kind == "inline" and e.text.endswith(".unschedule_all") for e in p.evs) for p in paths if p.outcome is NORMAL or p.outcome[0] == "return")
        ctx.check(ok and reached, RJ, f"{cls}.stop", msg or "stop() does not reach unschedule_all() on every normal path", fs.loc if fs else "")
        ctx.sample({"stop_chain": [e.text for e in paths[0].evs if e.kind == "inline"]})
    ctx.assumptions += ["Thread.join() returns only after the thread's run() has returned", "RLock mutual exclusion"]


API = "observers/api.py"
VARIANTS = [
    dict(name="B drop emitter.join() in _remove_emitter", expect="fire", rule="C05/stop-and-join", edits=[(API, "        emitter.stop()\n        with contextlib.suppress(RuntimeError):\n            emitter.join()\n\n    def _clear_emitters", "        emitter.stop()\n\n    def _clear_emitters")]),
    dict(name="B drop emitter.stop() in _remove_emitter", expect="fire", rule="C05/stop-and-join", edits=[(API, "        self._emitters.remove(emitter)\n        emitter.stop()\n", "        self._emitters.remove(emitter)\n")]),
    dict(name="B drop join loop in _clear_emitters", expect="fire", rule="C05/stop-and-join", edits=[(API, "        for emitter in self._emitters:\n            with contextlib.suppress(RuntimeError):\n                emitter.join()\n", "")]),
    dict(name="B emitters cleared before the join loop", expect="fire", rule="C05/stop-and-join", edits=[(API, "        for emitter in self._emitters:\n            with contextlib.suppress(RuntimeError):\n                emitter.join()\n        self._emitters.clear()", "        self._emitters.clear()\n        for emitter in self._emitters:\n            with contextlib.suppress(RuntimeError):\n                emitter.join()")]),
    dict(name="B on_thread_stop no longer unschedules", expect="fire", rule="C05/stop-and-join", edits=[(API, "    def on_thread_stop(self) -> None:\n        self.unschedule_all()", "    def on_thread_stop(self) -> None:\n        pass")]),
    dict(name="B unlocked remove_handler_for_watch", expect="fire", rule="C05/same-lock", edits=[(API, "        with self._lock:\n            self._handlers[watch].remove(event_handler)", "        if True:\n            self._handlers[watch].remove(event_handler)")]),
    dict(name="B re-check against alias bound before the loop", expect="fire", rule="C05/live-recheck", edits=[(API, "            for handler in self._handlers[watch].copy():\n                if handler in self._handlers[watch]:", "            handlers = self._handlers[watch]\n            for handler in handlers.copy():\n                if handler in handlers:")]),
    dict(name="B unschedule stops a different emitter", expect="fire", rule="C05/stop-and-join", edits=[(API, "            emitter = self._emitter_for_watch[watch]\n            del self._handlers[watch]\n            self._remove_emitter(emitter)", "            emitter = self._emitter_for_watch[watch]\n            del self._handlers[watch]\n            self._remove_emitter(next(iter(self._emitters)))")]),
    dict(name="E stop/join through a helper", expect="silent", edits=[(API, "        emitter.stop()\n        with contextlib.suppress(RuntimeError):\n            emitter.join()\n\n    def _clear_emitters", "        self._halt(emitter)\n\n    def _halt(self, emitter: EventEmitter) -> None:\n        emitter.stop()\n        with contextlib.suppress(RuntimeError):\n            emitter.join()\n\n    def _clear_emitters")]),
    dict(name="E suppress -> try/except", expect="silent", edits=[(API, "        emitter.stop()\n        with contextlib.suppress(RuntimeError):\n            emitter.join()\n\n    def _clear_emitters", "        emitter.stop()\n        try:\n            emitter.join()\n        except RuntimeError:\n            pass\n\n    def _clear_emitters")]),
    dict(name="E fresh read bound inside the loop", expect="silent", edits=[(API, "                if handler in self._handlers[watch]:\n                    handler.dispatch(event)", "                current = self._handlers[watch]\n                if handler in current:\n                    handler.dispatch(event)")]),
]


def thorough(ctx):
    from ..selftest import thorough as st

    return st(ctx, VARIANTS)
