"""C05 — after unschedule/remove/stop returns, the removed handler is never called again.

Decided: removal and dispatch serialise on one lock object; the per-callback re-check reads the live registry;
unschedule / unschedule_all / stop must reach stop() and then join() of the affected emitter(s) on every normal path.
"""

from __future__ import annotations

import re

from ..dispatch import dispatch_shape
from ..model import AnalysisError
from ..pse import NORMAL, Enumerator, walk_with_locks
from ..threads import ThreadCfg, guarded_by, lock_assignments
from .c04 import FIELDS, observer_entries

LEVEL_TEXT = (
    "Static analysis. Lock-set analysis of every registry removal site and of the dispatch site (same lock object, bound once); "
    "freshness rule for the membership re-check; interprocedural must-effect analysis (class-specialised path enumeration with "
    "helpers inlined) showing that every normal path of unschedule/unschedule_all/stop reaches emitter.stop() and then "
    "emitter.join() for the affected emitters."
)

REMOVAL = re.compile(r"^del self\._handlers\b|self\._handlers(\[[^\]]+\])?\.(pop|remove|discard|clear|popitem)\(")


COPY = r"(?:list|tuple|set|frozenset)\(%s\)|%s\.copy\(\)|%s"


def _all_of(text: str, base: str) -> bool:
    """`text` is the collection `base` or an eager copy of it."""
    b = re.escape(base)
    return re.fullmatch(COPY % (b, b, b), text) is not None


def built_list(evs, name: str):
    """Provenance of a list built on the path as `name = []` followed by one loop that appends once per iteration (the engine runs a
    list comprehension with followed calls as exactly that): (iterated text, [appended texts per normal body path]) or None."""
    start = None
    for i, e in enumerate(evs):
        if e.kind == "assign" and e.extra.get("name") == name and (e.text.endswith("= []") or e.text.endswith("= list()")):
            start = i
    if start is None:
        return None
    loops = [e for e in evs[start:] if e.kind == "loop" and any(x.kind == "call" and x.extra.get("func") == f"{name}.append" for b in e.extra["paths"] for x in b.evs)]
    stray = [e for e in evs[start:] if e.kind == "call" and e.extra.get("func", "").startswith(f"{name}.") and e.extra.get("func") != f"{name}.append"]
    top_apps = [e for e in evs[start:] if e.kind == "call" and e.extra.get("func") == f"{name}.append"]
    if len(loops) != 1 or stray or top_apps:
        return None
    L = loops[0]
    items = []
    for b in L.extra["paths"]:
        if b.outcome[0] == "raise":
            continue
        apps = [x for x in b.evs if x.kind == "call" and x.extra.get("func") == f"{name}.append"]
        if len(apps) != 1 or b.outcome not in (NORMAL, ("continue",)):
            return None
        items.append((apps[0].extra.get("args") or [""])[0])
    return L.text, items


def covers_all_emitters(evs, text: str) -> bool:
    """The iterated collection holds every emitter of the observer: the emitter set, the values of the emitter map, a copy of
    either, or a list built on this path from every key of the emitter map (each key's emitter looked up / popped) or from every
    element of the emitter set."""
    if _all_of(text, "self._emitters") or _all_of(text, "self._emitter_for_watch.values()"):
        return True
    if re.fullmatch(r"\w+", text):
        got = built_list(evs, text)
        if got is None:
            return False
        it, items = got
        el = f"$elem({it})"
        if (_all_of(it, "self._emitter_for_watch") or _all_of(it, "self._emitter_for_watch.keys()")) and it != "self._emitter_for_watch":
            return bool(items) and all(x in (f"self._emitter_for_watch.pop({el})", f"self._emitter_for_watch[{el}]") for x in items)
        if _all_of(it, "self._emitters") or _all_of(it, "self._emitter_for_watch.values()"):
            return bool(items) and all(x == el for x in items)
    return False


def registry_emptied(ctx, rule: str, P, cfg, label: str = "BaseObserver.unschedule_all") -> None:
    """unschedule_all() detaches *all* handlers: on every normal path the handler registry is emptied wholesale — clear(), a rebind to
    a fresh empty container, or a loop over (a copy of) the registry's own keys that deletes each.  Deleting the entries of the
    scheduled watches / of the watches that have an emitter is not that: add_handler_for_watch() registers handlers under any watch,
    and a watch whose emitter failed to start keeps its handlers; those handlers would go on receiving the events of an equal watch
    scheduled later (shared by C04 and C05)."""
    fa = P.find_method("BaseObserver", "unschedule_all")
    if fa is None:
        raise AnalysisError("anchor vanished: BaseObserver.unschedule_all")
    ok, msg, n = True, "", 0
    for p in Enumerator(cfg).run(fa, selfcls="BaseObserver"):
        if not (p.outcome is NORMAL or p.outcome[0] == "return"):
            continue
        n += 1
        emptied = False
        for e in p.evs:
            if e.kind == "call" and e.extra.get("func") == "self._handlers.clear":
                emptied = True
            elif e.kind == "store" and e.extra.get("target") == "self._handlers" and re.fullmatch(r"\{\}|dict\(\)|defaultdict\(\w+\)|collections\.defaultdict\(\w+\)", e.extra.get("value", "")):
                emptied = True
            elif e.kind == "loop" and e.text != "self._handlers" and (_all_of(e.text, "self._handlers") or _all_of(e.text, "self._handlers.keys()")):
                el = f"$elem({e.text})"
                bodies = [b for b in e.extra["paths"] if b.outcome[0] != "raise"]
                if bodies and all(any((x.kind == "del" and x.extra.get("container") == "self._handlers" and x.extra.get("key") == el) or (x.kind == "call" and x.extra.get("func") == "self._handlers.pop" and (x.extra.get("args") or [""])[0] == el) for x in b.flat()) for b in bodies):
                    emptied = True
        if not emptied:
            removed = sorted({f"{x.text[:70]} (for each of `{e.text[:50]}`)" for e in p.evs if e.kind == "loop" for b in e.extra["paths"] for x in b.flat() if (x.kind == "del" and x.extra.get("container") == "self._handlers") or (x.kind == "call" and x.extra.get("func") == "self._handlers.pop")})
            ok, msg = False, "a normal path of unschedule_all() does not empty the handler registry: " + (f"it removes only {removed}" if removed else "nothing is removed") + "; handlers registered under a watch outside that collection (add_handler_for_watch on an unscheduled watch, a watch whose emitter failed to start) stay registered and receive the events of an equal watch scheduled later"
    ctx.check(ok and n > 0, rule, label, msg or "unschedule_all has no normal path", fa.loc)


def run(ctx) -> None:
    P = ctx.P
    RS = ctx.rule("C05/same-lock", "every removal from the handler registry is made holding the lock that the dispatch site holds while calling handlers", floor=4)
    RL = ctx.rule("C05/live-recheck", "before every single callback the handler is re-checked against a fresh read of the live registry (shared with C04)", floor=1)
    RJ = ctx.rule(
        "C05/stop-and-join",
        "on every normal path unschedule reaches stop() and then join() of the emitter looked up under the given watch; unschedule_all "
        "reaches stop() of every emitter and then join() of every emitter; stop() reaches unschedule_all",
        floor=3,
    )
    RE = ctx.rule("C05/unschedule-all-empties-the-registry", "on every normal path unschedule_all() empties the handler registry wholesale (clear / fresh container / a loop over the registry's own keys): every handler it is documented to detach is gone when it returns", floor=1)
    # fault model of the must-effect analysis: join() of a thread that was never started raises RuntimeError (an emitter scheduled on an
    # observer that is not running)
    cfg = ThreadCfg(P, no_inline={"join", "is_alive", "dispatch", "queue_events", "BaseThread.start"}, follow_attrs=False, raising={r".*\.join": "RuntimeError"})
    registry_emptied(ctx, RE, P, cfg)
    res, npaths = guarded_by(P, "BaseObserver", FIELDS, "self._lock", [e for e in observer_entries(P, "BaseObserver") if e not in ("__init__",)], cfg)
    ctx.count("paths", npaths)
    seen = set()
    for r in res:
        if not REMOVAL.search(r["stmt"]):
            continue
        k = (r["fn"], r["stmt"], r["entry"])
        if k in seen:
            continue
        seen.add(k)
        ctx.check(
            r["held"],
            RS,
            f"entry={r['entry']} in={r['fn']} :: {r['stmt']}",
            "handler removed from the registry without the observer lock: the dispatcher may be between its re-check and the callback",
            f"{P.cls('BaseObserver').module.relpath}:{r['line']}",
        )
    assigns = lock_assignments(P, "BaseObserver", "_lock")
    ctx.check(assigns == ["BaseObserver.__init__"], RS, "BaseObserver._lock bound once", f"observer lock (re)bound in {assigns}", P.cls("BaseObserver").loc)

    dispatch_shape(ctx, None, None, RL, only_live=True, RLOCK=RS)
    # unschedule() stops the emitter it finds under the watch: there must be no second one (the C13 rule, shared)
    RONE = ctx.rule("C05/one-emitter-per-watch", "an emitter is constructed only after a failed membership test of the watch in the emitter map, under the lock (instance shared with C13): a second emitter for an equal watch is not the one unschedule() stops and keeps queueing events after it returned", floor=1)
    ctx.borrow("c13", "C13/one-emitter-per-watch", RONE)

    # ---------------------------------------------------------------- stop-and-join (must-effects)
    timed_joins: list = []

    def untimed(e) -> bool:
        """join() with no timeout (or timeout=None): it returns only when the thread has ended.  join(t) returns after t seconds
        whether or not the emitter is still inside queue_events()."""
        a = [x for x in (e.extra.get("args") or []) if x != "None"] + [v for k, v in (e.extra.get("kwargs") or {}).items() if v != "None"]
        if a:
            timed_joins.append(e)
        return not a

    def calls_in_order(p, pat_stop, pat_join):
        """index of first stop matching, index of first untimed join after it."""
        i_stop = i_join = None
        for i, e in enumerate(p.evs):
            if e.kind == "call":
                f = e.extra.get("func", "")
                if i_stop is None and re.fullmatch(pat_stop, f):
                    i_stop = i
                elif i_stop is not None and i_join is None and re.fullmatch(pat_join, f) and untimed(e):
                    i_join = i
        return i_stop, i_join

    for cls in ["BaseObserver"]:
        fi = P.find_method(cls, "unschedule")
        if fi is None:
            raise AnalysisError("anchor vanished: BaseObserver.unschedule")
        paths = Enumerator(cfg).run(fi, selfcls=cls)
        ctx.count("must_effect_paths", len(paths))
        normal = [p for p in paths if p.outcome is NORMAL or p.outcome[0] == "return"]
        if not normal:
            raise AnalysisError("unschedule has no normal path")
        ok = True
        msg = ""
        for p in normal:
            a, b = calls_in_order(p, r"self\._emitter_for_watch\[watch\]\.stop|self\._emitter_for_watch\.(pop|get)\(watch[^)]*\)\.stop", r"self\._emitter_for_watch\[watch\]\.join|self\._emitter_for_watch\.(pop|get)\(watch[^)]*\)\.join")
            if a is None:
                ok, msg = False, "a normal path of unschedule() does not stop the emitter it looked up under the given watch"
            elif b is None:
                ok, msg = False, "a normal path of unschedule() stops the emitter but returns without joining it" + (f" to the end (`{timed_joins[-1].text[:60]}` gives up after a timeout)" if timed_joins else "") + ": the emitter thread may still queue events"
        ctx.check(ok, RJ, f"{cls}.unschedule", msg, fi.loc)

        fa = P.find_method(cls, "unschedule_all")
        if fa is None:
            raise AnalysisError("anchor vanished: BaseObserver.unschedule_all")

        def all_stop_join(paths, what):
            ok, msg = True, ""
            normal = [p for p in paths if p.outcome is NORMAL or p.outcome[0] == "return"]
            if not normal:
                return False, f"{what} has no normal path"
            for p in normal:
                stopped = joined = False
                order_ok = True
                cleared = False
                left: list = []
                for e in p.evs:
                    if e.kind == "call" and re.fullmatch(r"self\._emitters\.(clear|difference_update|intersection_update)", e.extra.get("func", "")):
                        cleared = True
                    if e.kind != "loop":
                        continue
                    if cleared and "self._emitters" in e.text:
                        order_ok = False  # iterating the collection after it was emptied: nothing is stopped / joined
                    it = e.text
                    if not covers_all_emitters(p.evs, it):
                        continue
                    body = e.extra["paths"]
                    bs = all(any(x.kind == "call" and re.fullmatch(r"\$elem\(.*\)\.stop", x.extra.get("func", "")) for x in b.evs) for b in body if b.outcome in (NORMAL, ("continue",)))
                    bj = all(any(x.kind == "call" and re.fullmatch(r"\$elem\(.*\)\.join", x.extra.get("func", "")) and untimed(x) for x in b.evs) for b in body if b.outcome in (NORMAL, ("continue",)))
                    # a failure for one emitter must be absorbed inside its own iteration: absorbed further out, it has already ended the loop
                    esc = [b for b in body if b.outcome[0] == "raise" and any(x.kind == "call" and re.fullmatch(r"\$elem\(.*\)\.(join|stop)", x.extra.get("func", "")) for x in b.evs)]
                    if esc:
                        left.append(f"{esc[0].outcome[1]} from the {'join' if any('.join' in x.extra.get('func', '') for x in esc[0].evs if x.kind == 'call') else 'stop'}() of one emitter leaves the loop over the emitters: the emitters after it are skipped")
                    if bs and body:
                        stopped = True
                    if bj and body:
                        if not stopped:
                            order_ok = False
                        joined = True
                if left:
                    ok, msg = False, f"on a normal path of {what}: {left[0]} (a never-started emitter raises RuntimeError on join(); one that comes first in the set leaves a running emitter of a removed watch alive and queueing events)"
                elif not stopped:
                    ok, msg = False, f"a normal path of {what} does not call stop() on every emitter"
                elif not joined:
                    ok, msg = False, f"a normal path of {what} does not join every emitter after stopping it" + (f" (`{timed_joins[-1].text[:60]}` gives up after a timeout: the emitter may still be inside queue_events() and queue events later)" if timed_joins else "")
                elif not order_ok:
                    ok, msg = False, f"{what} joins emitters before stopping them, or walks the emitter set after emptying it"
            return ok, msg

        paths = Enumerator(cfg).run(fa, selfcls=cls)
        ctx.count("must_effect_paths", len(paths))
        ok, msg = all_stop_join(paths, "unschedule_all()")
        ctx.check(ok, RJ, f"{cls}.unschedule_all", msg, fa.loc)

        fs = P.find_method(cls, "stop")
        paths = Enumerator(cfg).run(fs, selfcls=cls)
        ctx.count("must_effect_paths", len(paths))
        ok, msg = all_stop_join(paths, "stop()")
        reached = all(any(e.kind == "inline" and e.text.endswith(".unschedule_all") for e in p.evs) for p in paths if p.outcome is NORMAL or p.outcome[0] == "return")
        ctx.check(ok and reached, RJ, f"{cls}.stop", msg or "stop() does not reach unschedule_all() on every normal path", fs.loc if fs else "")
        ctx.sample({"stop_chain": [e.text for e in paths[0].evs if e.kind == "inline"]})
    ctx.assumptions += ["Thread.join() returns only after the thread's run() has returned", "RLock mutual exclusion"]


API = "observers/api.py"
VARIANTS = [
    dict(name="B drop emitter.join() in _remove_emitter", expect="fire", rule="C05/stop-and-join", edits=[(API, "        emitter.stop()\n        with contextlib.suppress(RuntimeError):\n            emitter.join()\n\n    def _clear_emitters", "        emitter.stop()\n\n    def _clear_emitters")]),
    dict(name="B bounded join of a removed emitter", expect="fire", rule="C05/stop-and-join", edits=[(API, "        emitter.stop()\n        with contextlib.suppress(RuntimeError):\n            emitter.join()\n\n    def _clear_emitters", "        emitter.stop()\n        with contextlib.suppress(RuntimeError):\n            emitter.join(emitter.timeout)\n\n    def _clear_emitters")]),
    dict(name="E join(timeout=None)", expect="silent", edits=[(API, "        emitter.stop()\n        with contextlib.suppress(RuntimeError):\n            emitter.join()\n\n    def _clear_emitters", "        emitter.stop()\n        with contextlib.suppress(RuntimeError):\n            emitter.join(timeout=None)\n\n    def _clear_emitters")]),
    dict(name="B drop emitter.stop() in _remove_emitter", expect="fire", rule="C05/stop-and-join", edits=[(API, "        self._emitters.remove(emitter)\n        emitter.stop()\n", "        self._emitters.remove(emitter)\n")]),
    dict(name="B drop join loop in _clear_emitters", expect="fire", rule="C05/stop-and-join", edits=[(API, "        for emitter in self._emitters:\n            with contextlib.suppress(RuntimeError):\n                emitter.join()\n", "")]),
    dict(name="B emitters cleared before the join loop", expect="fire", rule="C05/stop-and-join", edits=[(API, "        for emitter in self._emitters:\n            with contextlib.suppress(RuntimeError):\n                emitter.join()\n        self._emitters.clear()", "        self._emitters.clear()\n        for emitter in self._emitters:\n            with contextlib.suppress(RuntimeError):\n                emitter.join()")]),
    dict(name="B on_thread_stop no longer unschedules", expect="fire", rule="C05/stop-and-join", edits=[(API, "    def on_thread_stop(self) -> None:\n        self.unschedule_all()", "    def on_thread_stop(self) -> None:\n        pass")]),
    dict(name="B unlocked remove_handler_for_watch", expect="fire", rule="C05/same-lock", edits=[(API, "        with self._lock:\n            self._handlers[watch].remove(event_handler)", "        if True:\n            self._handlers[watch].remove(event_handler)")]),
    dict(name="B re-check against alias bound before the loop", expect="fire", rule="C05/live-recheck", edits=[(API, "            for handler in self._handlers[watch].copy():\n                if handler in self._handlers[watch]:", "            handlers = self._handlers[watch]\n            for handler in handlers.copy():\n                if handler in handlers:")]),
    dict(name="B unschedule stops a different emitter", expect="fire", rule="C05/stop-and-join", edits=[(API, "            emitter = self._emitter_for_watch[watch]\n            del self._handlers[watch]\n            self._remove_emitter(emitter)", "            emitter = self._emitter_for_watch[watch]\n            del self._handlers[watch]\n            self._remove_emitter(next(iter(self._emitters)))")]),
    dict(name="E stop/join through a helper", expect="silent", edits=[(API, "        emitter.stop()\n        with contextlib.suppress(RuntimeError):\n            emitter.join()\n\n    def _clear_emitters", "        self._halt(emitter)\n\n    def _halt(self, emitter: EventEmitter) -> None:\n        emitter.stop()\n        with contextlib.suppress(RuntimeError):\n            emitter.join()\n\n    def _clear_emitters")]),
    dict(name="E suppress -> try/except", expect="silent", edits=[(API, "        emitter.stop()\n        with contextlib.suppress(RuntimeError):\n            emitter.join()\n\n    def _clear_emitters", "        emitter.stop()\n        try:\n            emitter.join()\n        except RuntimeError:\n            pass\n\n    def _clear_emitters")]),
    dict(name="E fresh read bound inside the loop", expect="silent", edits=[(API, "                if handler in self._handlers[watch]:\n                    handler.dispatch(event)", "                current = self._handlers[watch]\n                if handler in current:\n                    handler.dispatch(event)")]),
]


def thorough(ctx):
    from ..selftest import thorough as st

    return st(ctx, VARIANTS)
