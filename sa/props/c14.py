"""C14 — synthetic events for a moved directory name every descendant once and correctly.

Decided: every rewrite of a walked path from one directory prefix to the other is prefix-anchored and rewrites in the right
direction (3 sites); structure of the two generators (top-down walk, Dir classes in the directory loop and File classes in
the file loop, every event synthetic, destination = the joined walk path, one yield per iteration).
Not decided: that os.walk lists each descendant exactly once.
"""

from __future__ import annotations

import ast
import re

from ..model import AnalysisError, dotted
from ..pse import NORMAL, Cfg, Enumerator
from ..reader import record_paths
from ..rewrite import classify_rewrite

LEVEL_TEXT = (
    "Static analysis. The generators and the reader's re-keying loop are enumerated path by path; the source-path argument of "
    "every synthetic moved event and the new key of every re-keyed watch are def-use terms whose shape is classified against the "
    "enumerated prefix-rewrite idioms (slice by prefix length, replace(a,b,1), removeprefix, relpath) — an occurrence-wide "
    "replace is the violation; plus structural rules on the walk loops."
)


class GenCfg(Cfg):
    def inline(self, call, ft, rc, st):
        # module-level helper functions of the module the generator lives in (e.g. the path arithmetic moved into one)
        if isinstance(call.func, ast.Name) and st.module is not None and call.func.id in st.module.functions and call.func.id not in st.env:
            fi = st.module.functions[call.func.id]
            if not any(isinstance(n, (ast.Yield, ast.YieldFrom)) for n in ast.walk(fi.node)):
                return fi, st.selfcls, None
        return None

    def loop_elem(self, node, iter_term, st):
        t = ast.unparse(iter_term)
        if t.startswith("os.walk("):
            return ast.Tuple([ast.Name("W_root", ast.Load()), ast.Name("W_dirs", ast.Load()), ast.Name("W_files", ast.Load())], ast.Load())
        if t == "W_dirs":
            return ast.Name("D_name", ast.Load())
        if t == "W_files":
            return ast.Name("F_name", ast.Load())
        return None


def walk_loops(paths):
    """[(walk loop event, [(inner loop event, 'dirs'|'files')])]"""
    out = []
    for p in paths:
        for e in p.evs:
            if e.kind == "loop" and e.text.startswith("os.walk("):
                inner = []
                for b in e.extra["paths"]:
                    for x in b.evs:
                        if x.kind == "loop" and x.text in ("W_dirs", "W_files"):
                            # (the same loop statement can stand for both lists when it sits in an unrolled `for .. in ((True, dirs), (False, files))`)
                            if not any(x.node is y.node and x.text == y.text for y, _ in inner):
                                inner.append((x, "dirs" if x.text == "W_dirs" else "files"))
                out.append((e, inner))
    return out


def run(ctx) -> None:
    P = ctx.P
    RA = ctx.rule(
        "C14/prefix-anchored-rewrite",
        "a path known to start with directory prefix a is rewritten to start with b by a prefix-anchored rewrite, in the right "
        "direction (walked/destination prefix -> source prefix; old watch path -> new watch path)",
        floor=3,
    )
    RG = ctx.rule(
        "C14/generator-structure",
        "os.walk top-down; directory loop yields only Dir classes, file loop only File classes; every event is_synthetic=True; "
        "destination (or created path) is join(walk root, name); exactly one yield per iteration",
        floor=8,
    )
    generators(ctx, RA, RG, P)
    rekeying(ctx, RA, P)


def generators(ctx, RA, RG, P) -> None:
    """The two synthetic-event generators (shared with C19: the path a synthetic event carries is the walked entry's own path,
    of the caller's type, and its old path is the same relative path under the old directory)."""
    evm = P.module("watchdog.events")
    en = Enumerator(GenCfg(P))
    for gname, fam in (("generate_sub_moved_events", "Moved"), ("generate_sub_created_events", "Created")):
        fi = evm.functions.get(gname)
        if fi is None:
            raise AnalysisError(f"anchor vanished: watchdog.events.{gname}")
        params = [a.arg for a in fi.node.args.args]
        paths = en.run(fi)
        ctx.count("paths", len(paths))
        wl = walk_loops(paths)
        # every way through the generator lists the descendants by os.walk: a path that loops over something else is either a known
        # non-equivalent (os.fwalk) or not understood
        for p in paths:
            if p.outcome[0] == "raise" or any(e.kind == "loop" and e.text.startswith("os.walk(") for e in p.evs):
                continue
            for e in p.evs:
                if e.kind != "loop":
                    continue
                if re.match(r"(os\.)?fwalk\(", e.text) or "os.fwalk(" in e.text:
                    ctx.viol(
                        RG,
                        f"{gname} lists the descendants with os.walk",
                        f"on the path [{p.sig()[:80]}] the descendants are listed by `{e.text[:60]}`: unlike os.walk, os.fwalk keeps one directory descriptor open per level (a deep tree exhausts them) and re-raises a failure for the top directory instead of yielding nothing, so descendants get no event (and the OSError ends the calling thread)",
                        f"{evm.relpath}:{e.line}",
                    )
                    break
                if any(x.kind == "yield" for b in e.extra["paths"] for x in b.flat()):
                    raise AnalysisError(f"{gname}: a path yields events from a loop over `{e.text[:60]}`, not over os.walk (structure not recognised)")
        if len(wl) != 1:
            raise AnalysisError(f"{gname}: expected one os.walk loop, found {len(wl)}")
        W, inner = wl[0]
        loc = fi.loc
        # top-down
        wcall = W.node.iter if isinstance(W.node, ast.For) else None
        td = True
        if isinstance(wcall, ast.Call):
            for k in wcall.keywords:
                if k.arg == "topdown" and not (isinstance(k.value, ast.Constant) and k.value.value is True):
                    td = False
            if len(wcall.args) > 1 and not (isinstance(wcall.args[1], ast.Constant) and wcall.args[1].value is True):
                td = False
        ctx.check(td, RG, f"{gname} walk is top-down", "os.walk(topdown=False): children would be reported before their parents", loc)
        # the walked directory as a term of the generator's own parameters (the walk may sit in a helper generator whose
        # parameter was bound to it: the loop's substituted text says what is walked)
        try:
            _wt = ast.parse(W.text, mode="eval").body
            walked = ast.unparse(_wt.args[0]) if isinstance(_wt, ast.Call) and _wt.args else "?"
        except SyntaxError:
            walked = ast.unparse(wcall.args[0]) if isinstance(wcall, ast.Call) and wcall.args else "?"
        want_walk = params[1] if fam == "Moved" and len(params) > 1 else params[0]
        ctx.check(walked == want_walk, RG, f"{gname} walks the existing directory", f"walks `{walked}`, expected `{want_walk}` (the directory as it exists now)", loc)
        kinds_seen = set()
        for L, kind in inner:
            kinds_seen.add(kind)
            name_var = "D_name" if kind == "dirs" else "F_name"
            want_prefix = "Dir" if kind == "dirs" else "File"
            joined = f"os.path.join(W_root, {name_var})"
            for b in L.extra["paths"]:
                ys = [e for e in b.evs if e.kind == "yield"]
                ctx.check(len(ys) == 1 or b.outcome is not NORMAL, RG, f"{gname} {kind}-loop one yield per iteration [{b.sig()}]", f"{len(ys)} events yielded for one descendant", loc)
                for y in ys:
                    t = y.extra.get("term")
                    yloc = f"{evm.relpath}:{y.line}"
                    if not (isinstance(t, ast.Call) and isinstance(t.func, ast.Name)):
                        ctx.unresolved.append(f"{gname}: yielded term {y.text[:60]} not a constructor call")
                        continue
                    cname = t.func.id
                    ctx.check(cname == f"{want_prefix}{fam}Event", RG, f"{gname} {kind}-loop class [{b.sig()}]", f"{kind} loop yields {cname}, expected {want_prefix}{fam}Event", yloc)
                    syn = [k for k in t.keywords if k.arg == "is_synthetic"]
                    ctx.check(bool(syn) and isinstance(syn[0].value, ast.Constant) and syn[0].value.value is True, RG, f"{gname} {kind}-loop synthetic flag [{b.sig()}]", f"{cname} not marked is_synthetic=True", yloc)
                    # (src_path, dest_path) by position or by keyword
                    args = list(t.args)
                    kw_ = {k.arg: k.value for k in t.keywords if k.arg}
                    if len(args) < 1 and "src_path" in kw_:
                        args.append(kw_["src_path"])
                    if len(args) == 1 and "dest_path" in kw_:
                        args.append(kw_["dest_path"])
                    dst = args[1] if fam == "Moved" and len(args) > 1 else (args[0] if args else None)
                    ctx.check(dst is not None and ast.unparse(dst) == joined, RG, f"{gname} {kind}-loop destination [{b.sig()}]", f"destination/path is `{ast.unparse(dst) if dst is not None else None}`, expected {joined}", yloc)
                    if fam == "Moved":
                        src = args[0] if args else None
                        src_param = params[0]
                        has_src = b.conds().get(src_param)
                        is_empty = isinstance(src, ast.Constant) and src.value in ("", b"")
                        if has_src is False:
                            ctx.check(is_empty, RA, f"{gname} {kind}-loop empty source kept empty", f"no source directory is known but the event's source is `{ast.unparse(src)[:60]}`", yloc, nontrivial=False)
                            continue
                        if is_empty:
                            ctx.viol(RA, f"{gname} {kind}-loop source", "the source directory is known but the synthetic event's source is left empty (the rewrite is applied on the wrong branch)", yloc)
                            continue
                        c = classify_rewrite(src)
                        construct = f"{gname} {kind}-loop source"
                        if c["anchored"] is None:
                            # a recognised rewrite passed through a function that re-spells paths is not "the old directory path
                            # followed by the same relative path" any more (./a/x becomes a/x, case is folded, links are resolved)
                            RESPELL = ("normpath", "abspath", "realpath", "normcase", "expanduser", "expandvars", "relpath", "lower", "upper", "casefold", "strip", "rstrip", "lstrip")
                            core = src
                            wrapper = None
                            while isinstance(core, ast.Call) and (((dotted(core.func) or "").split(".")[-1] in RESPELL and core.args) or (isinstance(core.func, ast.Attribute) and core.func.attr in RESPELL)):
                                wrapper = wrapper or (dotted(core.func) or ast.unparse(core.func))
                                core = core.args[0] if (dotted(core.func) or "").split(".")[-1] in RESPELL and core.args and not (isinstance(core.func, ast.Attribute) and classify_rewrite(core.func.value)["anchored"] is not None) else core.func.value
                            if wrapper is not None and classify_rewrite(core)["anchored"] is not None:
                                ctx.viol(RA, construct, f"the rewritten source path is passed through `{wrapper}(...)`: it is re-spelled (e.g. `./a/x` becomes `a/x`) and no longer the old directory path as given followed by the same relative path", yloc)
                                continue
                            if "replace" in c["text"]:
                                ctx.viol(RA, construct, f"source path computed by an unrecognised rewrite `{c['text'][:120]}` (not one of the enumerated prefix-anchored idioms)", yloc)
                                continue
                            raise AnalysisError(f"{construct}: the source path `{c['text'][:120]}` is computed in a way this rule does not know (known: slice by prefix length, replace(a, b, 1), removeprefix, relpath + join)")
                        good_dir = c["x"] == joined and c["a"] == walked and c["b"] == src_param
                        if not good_dir and c["anchored"] is True and c["x"] == joined and c["a"] == "W_root":
                            # rewritten in two anchored steps: the walked directory's own old name once per directory
                            # (W_root: dest -> src), then the entry under it (join(W_root, name): W_root -> that old name)
                            try:
                                c2 = classify_rewrite(ast.parse(c["b"], mode="eval").body)
                            except SyntaxError:
                                c2 = None
                            if c2 and c2.get("anchored") is True and c2["x"] == "W_root" and c2["a"] == walked and c2["b"] == src_param:
                                good_dir = True
                        ctx.check(
                            c["anchored"] is True and good_dir,
                            RA,
                            construct,
                            (
                                (c.get("why") and f"{c['form']} `{c['text'][:100]}`: {c['why']}")
                                or f"occurrence-wide {c['form']} `{c['text'][:100]}`: every later occurrence of the directory's path inside the descendant's own path is rewritten too"
                                if not c["anchored"]
                                else f"rewrite {c['form']} maps x={c['x']} a={c['a']} b={c['b']}; expected x={joined} a={walked} b={src_param}"
                            ),
                            yloc,
                            c,
                        )
        if not kinds_seen:
            # the walk is there but its listings are consumed in a way these rules do not follow (collected into a container and
            # iterated later, paired with flags, ...): not decided, rather than reported as "no descendant is named"
            raise AnalysisError(f"{gname}: the os.walk loop was found but no loop over its directory / file listings (structure not recognised)")
        ctx.check(kinds_seen == {"dirs", "files"}, RG, f"{gname} loops over both lists of the walk", f"loops found over {sorted(kinds_seen)}", loc)
        ctx.sample({"generator": gname, "inner_loops": [k for _, k in inner]})



def rekeying(ctx, RA, P) -> None:
    # ---------------------------------------------------------------- reader re-keying
    bp, loop, rfi, _ = record_paths(P, fault=False)
    nrk = 0
    seen = set()
    for p in bp:
        for e in p.evs:
            if e.kind != "loop" or "_wd_for_path" not in e.text:
                continue
            for b in e.extra["paths"]:
                sets = [x for x in b.evs if x.kind == "setitem" and x.extra.get("container") == "self._wd_for_path"]
                for sx in sets:
                    if id(sx.node) in seen:
                        continue
                    seen.add(id(sx.node))
                    nrk += 1
                    kt = sx.extra.get("key_term")
                    c = classify_rewrite(kt)
                    loc = f"{rfi.module.relpath}:{sx.line}"
                    sw = [a for a, t in b.conds().items() if t and ".startswith(" in a]
                    # the loop may also run over an eagerly built snapshot that is already filtered by the prefix test
                    mflt = re.fullmatch(r"\[(\w+) for \1 in self\._wd_for_path(\.keys\(\))? if (\1\.startswith\(.+\))\]", e.text)
                    if mflt:
                        sw = sw + [mflt.group(3)]
                    construct = "Inotify.read_events descendant re-key"
                    if c["anchored"] is None:
                        ctx.viol(RA, construct, f"new watch path computed by an unrecognised rewrite `{c['text'][:120]}`", loc)
                        continue
                    # the rewritten path is the loop's own element, the loop running over (a snapshot of) the path->wd map
                    elem_ok = c["x"].startswith("$elem(") and "self._wd_for_path" in c["x"] and c["x"] == f"$elem({e.text})"
                    # a = the move source path (what the startswith test anchors), b = the record's new path
                    a_ok = any(c["a"] in s for s in sw)
                    ctx.check(
                        c["anchored"] is True and elem_ok and a_ok,
                        RA,
                        construct,
                        (
                            f"occurrence-wide {c['form']} `{c['text'][:100]}`: a descendant whose path repeats the old directory path is re-keyed to a wrong path and its events are reported under it"
                            if not c["anchored"]
                            else f"rewrite {c['form']} not anchored on the tested prefix (x={c['x'][:40]}, a={c['a'][:60]}, startswith tests={sw})"
                        ),
                        loc,
                        c,
                    )
    if nrk == 0:
        raise AnalysisError("anchor vanished: descendant re-keying loop in Inotify.read_events")
    ctx.assumptions += ["os.walk(top) yields roots that start with `top` exactly as given, and lists each descendant once"]


EV = "events.py"
IC = "observers/inotify_c.py"
_SL = 'renamed_path = src_dir_path + full_path[len(dest_dir_path) :] if src_dir_path else ""'
VARIANTS = [
    dict(name="B unanchored replace in dir loop", expect="fire", rule="C14/prefix-anchored-rewrite", edits=[(EV, _SL, 'renamed_path = full_path.replace(dest_dir_path, src_dir_path) if src_dir_path else ""')]),
    dict(name="B unanchored replace in reader", expect="fire", rule="C14/prefix-anchored-rewrite", edits=[(IC, "_move_to_path = inotify_event.src_path + _path[len(move_src_path) :]", "_move_to_path = _path.replace(move_src_path, inotify_event.src_path)")]),
    dict(name="B rewrite in wrong direction", expect="fire", rule="C14/prefix-anchored-rewrite", edits=[(EV, _SL, 'renamed_path = dest_dir_path + full_path[len(src_dir_path) :] if src_dir_path else ""')]),
    dict(name="B drop is_synthetic once", expect="fire", rule="C14/generator-structure", edits=[(EV, "            yield DirCreatedEvent(full_path, is_synthetic=True)", "            yield DirCreatedEvent(full_path)")]),
    dict(name="B File class in directories loop", expect="fire", rule="C14/generator-structure", edits=[(EV, "            yield DirMovedEvent(renamed_path, full_path, is_synthetic=True)", "            yield FileMovedEvent(renamed_path, full_path, is_synthetic=True)")]),
    dict(name="B topdown=False", expect="fire", rule="C14/generator-structure", edits=[(EV, "    for root, directories, filenames in os.walk(src_dir_path):  # type: ignore[type-var]", "    for root, directories, filenames in os.walk(src_dir_path, topdown=False):  # type: ignore[type-var]")]),
    dict(name="B moved generator walks the source", expect="fire", rule="C14/", edits=[(EV, "    for root, directories, filenames in os.walk(dest_dir_path):  # type: ignore[type-var]", "    for root, directories, filenames in os.walk(src_dir_path):  # type: ignore[type-var]")]),
    dict(name="B src/dest swapped in constructor", expect="fire", rule="C14/", edits=[(EV, "            yield FileMovedEvent(renamed_path, full_path, is_synthetic=True)", "            yield FileMovedEvent(full_path, renamed_path, is_synthetic=True)")]),
    dict(name="B join + slice past one assumed separator", expect="fire", rule="C14/prefix-anchored-rewrite", edits=[(EV, _SL, 'renamed_path = os.path.join(src_dir_path, full_path[len(dest_dir_path) + 1 :]) if src_dir_path else ""')]),
    dict(name="B rewrite applied on the wrong branch of the empty-source test", expect="fire", rule="C14/prefix-anchored-rewrite", edits=[(EV, _SL, 'renamed_path = src_dir_path + full_path[len(dest_dir_path) :] if not src_dir_path else ""')]),
    dict(name="E replace(a, b, 1)", expect="silent", edits=[(EV, _SL, 'renamed_path = full_path.replace(dest_dir_path, src_dir_path, 1) if src_dir_path else ""')]),
    dict(name="E removeprefix", expect="silent", edits=[(IC, "_move_to_path = inotify_event.src_path + _path[len(move_src_path) :]", "_move_to_path = inotify_event.src_path + _path.removeprefix(move_src_path)")]),
    dict(name="E rename locals", expect="silent", edits=[(EV, "            full_path = os.path.join(root, directory)  # type: ignore[call-overload]\n            yield DirCreatedEvent(full_path, is_synthetic=True)", "            p = os.path.join(root, directory)  # type: ignore[call-overload]\n            yield DirCreatedEvent(p, is_synthetic=True)")]),
]


def thorough(ctx):
    from ..selftest import thorough as st

    return st(ctx, VARIANTS)
