"""C03 — every delivered event is justified and correctly typed; single operations meet their contract.

Decided statically (DESIGN §3/C03): the per-native-kind *emission contract* of InotifyEmitter.queue_events
(classes, order, multiplicity, Dir/File flavour, path roles) on every path of the function in both emitter
modes; who may mark an event synthetic; and that a directory leaving the watched scope has a reachable watch
release.  Not decided: soundness of every event over whole histories; the kernel's side of the contract.
"""

from __future__ import annotations

import ast

from ..callgraph import reach_calls
from ..contract_inotify import SOURCE, classify, compare, expected
from ..emit import GENERATORS, check_flag_constants_distinct, inotify_emitter_table
from ..model import AnalysisError, dotted, norm_stmt

LEVEL_TEXT = (
    "Static analysis. All paths of InotifyEmitter.queue_events are enumerated under a predicate abstraction (both "
    "emitter modes) and each is compared with a behavioural contract table (event classes, order, multiplicity, "
    "flavour, path roles per abstract native kind); whole-package scan of every constructor call that sets "
    "is_synthetic; call-graph reachability of a watch release for directories that leave the tree. Decides the "
    "translation's shape on every path, not the soundness of events over histories."
    " Also: the record's own predicates and accessors decode the flag / field of the same name; the delay-queue rules that keep the two halves of a rename pairable are shared instances (C17/C08)."
)


def run(ctx) -> None:
    P = ctx.P
    R1 = ctx.rule(
        "C03/emission-contract",
        "every path of InotifyEmitter.queue_events emits exactly the contract sequence of its abstract native kind "
        "(class family, multiplicity, order; Dir/File flavour follows the record's is_directory; moved events carry "
        "(source, destination); parent-modified events carry dirname of the entry path; nothing on inactive paths)",
        floor=40,
    )
    R1c = ctx.rule("C03/contract-coverage", "every contract row (kind x isdir x mode) is realised by at least one path", floor=20)
    R2 = ctx.rule(
        "C03/synthetic-only-from-generators",
        "constructor calls passing is_synthetic=True are exactly those inside the sub-event generators; no other write to is_synthetic",
        floor=1,
    )
    R3 = ctx.rule(
        "C03/watch-released-on-leave",
        "a directory that leaves the watched scope by an unpaired MOVED_FROM has a reachable watch release "
        "(inotify_rm_watch or pruning of the wd->path map) on the reader/emitter path",
        floor=1,
    )
    RB = ctx.rule("C03/paths-from-correct-bookkeeping", "event paths are wd->path lookups: a watch filed under a wrong or stale path makes the observer report changes under a path that never existed (instances shared with C02: re-key of a renamed directory and its watched descendants under a separator-terminated prefix test, pruning only the dying descriptor's entry)", floor=5)
    from .c02 import check_rows

    class _Only:
        """forward only the two rows that decide under which path events are reported"""

    _sink = ctx.rule("C03/_shared-not-owned", "(rows of the shared bookkeeping contract that C03 does not own)", floor=0)
    n0 = len(ctx.instances)
    RSC = ctx.rule("C03/non-recursive-scope", "a non-recursive watch reports the root and its direct children only: no kernel watch is installed by the reader on a path where the recursive flag is false (instances shared with C02: otherwise changes inside a sub-directory are reported, outside the watched scope)", floor=2)
    RNW = ctx.rule(
        "C03/directories-in-scope-are-watched",
        "completeness needs a kernel watch on every directory in scope: the root and (recursive) every directory of the initial walk, every directory created under a recursive watch together with what it already contains, every directory that arrives by a move -- each ends its record's path as a key of the watch map through a real add-watch, or the add-watch failed because it vanished (instances shared with C02: changes inside a directory without a watch produce no event at all)",
        floor=5,
    )
    check_rows(ctx, RNW, RB, RNW, RB, RSC, RNW)
    from .c02 import record_path_from_live_map

    record_path_from_live_map(ctx, RB)
    from .c02 import failed_add_watch_is_a_failure

    failed_add_watch_is_a_failure(ctx, RNW)
    ctx.instances[n0:] = [i for i in ctx.instances[n0:] if i.rule != _sink]
    del ctx.rules[_sink], ctx.floors[_sink]
    ctx.assumptions += [
        "an inotify record carries exactly one event bit besides IN_ISDIR (bit constants are distinct powers of two: checked)",
        "the kernel delivers what inotify(7) documents",
    ]

    okc, flags = check_flag_constants_distinct(P)
    if not okc:
        raise AnalysisError("InotifyEvent kind flags are not distinct single bits; mutual exclusion fact does not hold")

    rows, npaths, fi = inotify_emitter_table(P)
    ctx.count("functions", 1)
    ctx.count("paths", npaths)
    seen_rows = set()
    unresolved_total = 0
    for r in rows:
        info = classify(r)
        kind, isdir, rec, root, full = info["kind"], info["isdir"], info["rec"], info["root"], info["full"]
        construct = f"kind={kind} isdir={isdir} recursive={rec} root={root} full={full}" + (" inactive" if info["inactive"] else "")
        loc = fi.loc
        if info["inactive"]:
            ctx.check(not r.emissions, R1, construct, f"inactive path emits {r.brief()}", loc, nontrivial=False)
            continue
        if "+" in kind:
            raise AnalysisError(f"path with two positive kind flags survived pruning: {kind}")
        alts = expected(kind, isdir, rec, full, root)
        results = [compare(r.emissions, a, d) for d, a in alts]
        # with an undetermined mode bit that matters, *each* alternative must be met by this one path: impossible
        # unless the alternatives coincide (expected() already merged equal ones)
        if len(alts) == 1:
            ok, msg, unres = results[0]
        else:
            ok = False
            msg = (
                "path does not distinguish a mode bit the contract depends on "
                f"(is_directory={isdir}, recursive={rec}, root={root}); emits {r.brief()}"
            )
            unres = 0
        unresolved_total += unres
        if r.emissions and r.emissions[0].node is not None:
            loc = f"{fi.module.relpath}:{getattr(r.emissions[0].node, 'lineno', fi.node.lineno)}"
        ctx.check(
            ok,
            R1,
            construct,
            msg + f" [{SOURCE.get(kind, 'R')}-row]; found: {r.brief()}",
            loc,
            detail={"valuation": r.path.sig(), "found": r.brief(), "expected": [[e.__dict__ for e in a] for _d, a in alts]},
            nontrivial=bool(r.emissions) or kind != "none",
        )
        seen_rows.add((kind, isdir, full))
        ctx.sample({"kind": kind, "isdir": isdir, "recursive": rec, "full": full, "emits": r.brief()})
    if unresolved_total:
        ctx.unresolved.append(f"{unresolved_total} path-role terms not positively identified (not violations)")

    for kind in SOURCE:
        for full in (False, True):
            for isdir in (True, False):
                if kind == "is_delete_self" and not isdir:
                    continue
                if not any(a for _d, a in expected(kind, isdir, True, full, True)):
                    continue  # the contract expects nothing for this combination (e.g. open/close on a directory)
                ctx.check(
                    (kind, isdir, full) in seen_rows,
                    R1c,
                    f"kind={kind} isdir={isdir} full={full}",
                    "no path of queue_events handles this native kind (it would be translated to nothing)",
                    fi.loc,
                )

    # ---- the full-events emitter is the same translation with the mode flag on, and the observer selects it on request
    RM = ctx.rule("C03/full-mode-wiring", "InotifyFullEmitter.queue_events delegates exactly once to the base translation with its mode parameter (default True); InotifyObserver selects the full emitter iff generate_full_events", floor=2)
    from ..pse import Cfg, Enumerator

    ff = P.cls("InotifyFullEmitter").methods.get("queue_events") if P.has_cls("InotifyFullEmitter") else None
    if ff is None:
        ctx.viol(RM, "InotifyFullEmitter.queue_events", "the full-events emitter no longer overrides queue_events: it behaves like the normal emitter", fi.loc)
    else:
        kwo = ff.node.args.kwonlyargs
        kwd = ff.node.args.kw_defaults
        pname = kwo[0].arg if kwo else None
        pdef = kwd[0] if kwd else None
        okm = pname is not None and isinstance(pdef, ast.Constant) and pdef.value is True
        for p in Enumerator(Cfg(P)).run(ff, selfcls="InotifyFullEmitter"):
            calls = [e for e in p.evs if e.kind == "call" and e.extra.get("func") in ("super().queue_events", "InotifyEmitter.queue_events")]
            if len(calls) != 1:
                okm = False
                continue
            kw = calls[0].extra.get("kwargs", {})
            base_kw = [a.arg for a in fi.node.args.kwonlyargs]
            if not base_kw or kw.get(base_kw[0]) != pname:
                okm = False
        ctx.check(okm, RM, "InotifyFullEmitter.queue_events", "the full-events emitter does not run the base translation exactly once with full mode on by default: generate_full_events would silently behave like the normal emitter (or emit nothing)", ff.loc)
    io = P.find_method("InotifyObserver", "__init__")
    oksel = False
    if io is not None:
        for p in Enumerator(Cfg(P)).run(io, selfcls="InotifyObserver"):
            g = p.conds().get("generate_full_events")
            sup = [e for e in p.evs if e.kind == "call" and e.extra.get("func") == "super().__init__"]
            a0 = (sup[0].extra.get("args") or [""])[0] if sup else ""
            if g is True and a0 != "InotifyFullEmitter":
                oksel = None
            if g is False and a0 != "InotifyEmitter":
                oksel = None
            if oksel is False and g is not None:
                oksel = True
    ctx.check(oksel is True, RM, "InotifyObserver selects the emitter", "InotifyObserver does not select InotifyFullEmitter exactly when generate_full_events is set", io.loc if io else fi.loc)

    # ---- a rename inside the tree is one moved event only if its first half is still in the delay queue when the second arrives
    RQ = ctx.rule(
        "C03/rename-halves-stay-pairable",
        "the contract row 'rename inside the tree -> one moved event' needs the MOVED_FROM half to stay in the delay queue until its delay "
        "has elapsed and to be handed out only if it is still the head (shared instances of C17/C08: head re-validation, delay test after "
        "the last blocking operation)",
        floor=2,
    )
    from .c17 import delay_elapsed, get_paths, revalidate_head

    qpaths, qci = get_paths(P)
    revalidate_head(ctx, RQ, qpaths, qci)
    delay_elapsed(ctx, RQ, P, qpaths, qci)

    # ---- the record's own predicates and accessors (every rule above treats `rec.is_x` / `rec.name` as what their names say)
    RPd = ctx.rule(
        "C03/record-predicates-decode-their-flag",
        "InotifyEvent.is_<x> is `mask & IN_<X> > 0` for the flag of the same name; is_directory is DELETE_SELF or MOVE_SELF or ISDIR; "
        "wd / mask / cookie / name / src_path return the fields the constructor stored from the parameters of the same name",
        floor=18,
    )
    ie = P.cls("InotifyEvent")
    # decided on the predicates' truth tables over the masks 0 and every single IN_* bit (emit.inotify_predicate_tables: the getter
    # evaluated abstractly, helper methods and other properties included), not on how the test is spelled
    from ..emit import inotify_constants, inotify_predicate_tables

    consts_ = inotify_constants(P)
    tables = inotify_predicate_tables(P)
    for name, mfi in sorted(ie.methods.items()):
        rets = [n.value for n in ast.walk(mfi.node) if isinstance(n, ast.Return) and n.value is not None]
        if name.startswith("is_"):
            if name == "is_directory":
                want_mask = consts_.get("IN_DELETE_SELF", 0) | consts_.get("IN_MOVE_SELF", 0) | consts_.get("IN_ISDIR", 0)
                what = "DELETE_SELF or MOVE_SELF or the ISDIR bit (the flavour of every event follows it)"
            else:
                want_mask = consts_.get("IN_" + name[3:].upper())
                what = f"`mask & InotifyConstants.IN_{name[3:].upper()} > 0`: every record of that kind is misclassified"
            tab = tables.get(name)
            if want_mask is None:
                continue  # a predicate without a flag of the same name is not part of this rule
            if tab is None:
                raise AnalysisError(f"InotifyEvent.{name}: the getter could not be evaluated abstractly (returns `{ast.unparse(rets[0]) if rets else None}`)")
            wrong = [m for m, v in tab.items() if bool(v) != bool(m & want_mask) or not isinstance(v, bool)]
            ctx.check(not wrong, RPd, f"InotifyEvent.{name}", f"returns `{ast.unparse(rets[0]) if len(rets) == 1 else '...'}`, which is {tab.get(wrong[0]) if wrong else None!r} for mask {wrong[0] if wrong else 0:#x}; expected {what}", mfi.loc)
        elif name in ("wd", "mask", "cookie", "name", "src_path"):
            ok = len(rets) == 1 and ast.unparse(rets[0]) == f"self._{name}"
            ctx.check(ok, RPd, f"InotifyEvent.{name}", f"returns `{ast.unparse(rets[0]) if rets else None}` instead of the stored field", mfi.loc)
    ini = ie.methods.get("__init__")
    stores = {ast.unparse(n.targets[0]): ast.unparse(n.value) for n in ast.walk(ini.node) if isinstance(n, ast.Assign) and len(n.targets) == 1} if ini else {}
    ctx.check(all(stores.get(f"self._{k}") == k for k in ("wd", "mask", "cookie", "name", "src_path")), RPd, "InotifyEvent.__init__ stores its parameters", f"constructor stores {stores}", ini.loc if ini else ie.loc)

    # ---- the synthetic events of a moved / created tree name each descendant under the right old and new path (the rules of C14,
    # shared: a synthetic moved event whose source is not "the old directory + the same relative path" is an event for an operation
    # that never happened)
    RSYN = ctx.rule(
        "C03/synthetic-events-name-the-descendants",
        "every synthetic sub-event carries join(walk root, name) as its path and, for moves, the prefix-anchored rewrite of that path from the new directory to the old one as its source; Dir classes for directories, File classes for files (instances shared with C14)",
        floor=8,
    )
    from .c14 import generators as _c14_generators

    _c14_generators(ctx, RSYN, RSYN, P)
    from .c02 import visits_every_entry as _vee

    RVW = ctx.rule("C03/walks-visit-every-entry", "no loop of the reader or of the initial installation grows or shrinks the list it is iterating (instances shared with C02): a sibling skipped by the contents walk of a new directory gets no created event although it exists", floor=1)
    _vee(ctx, RVW)
    # ---- synthetic flag ownership
    from ..fixtures import FX_SYNTH, must_fire, synthetic_marks

    must_fire("C03/synthetic-only-from-generators", synthetic_marks, FX_SYNTH)
    gen_sites, other_sites, writes = set(), [], []
    for m in P.modules.values():
        for owner, ch in synthetic_marks(m.tree):
            if isinstance(ch, ast.Call):
                site = (m.relpath, owner or "<module>", norm_stmt(ch))
                if owner in GENERATORS and m.name == "watchdog.events":
                    gen_sites.add(site)
                else:
                    other_sites.append((site, ch.lineno))
            else:
                writes.append((m.relpath, ch.lineno, norm_stmt(ch)))
    # a factory whose whole body is `return <constructor>(..., is_synthetic=True)` is as good as the constructor call itself,
    # provided it is called from the sub-event generators only (e.g. a classmethod `Event.synthetic(src, dest)`)
    def factory_only_from_generators(relpath: str, owner: str) -> bool:
        mod = next((m for m in P.modules.values() if m.relpath == relpath), None)
        defs = [n for n in ast.walk(mod.tree) if isinstance(n, ast.FunctionDef) and n.name == owner] if mod else []
        if len(defs) != 1:
            return False
        body = [b for b in defs[0].body if not (isinstance(b, ast.Expr) and isinstance(b.value, ast.Constant))]
        if not (len(body) == 1 and isinstance(body[0], ast.Return) and isinstance(body[0].value, ast.Call)):
            return False
        ncalls = 0
        for m2 in P.modules.values():
            for fn in ast.walk(m2.tree):
                if not isinstance(fn, (ast.FunctionDef, ast.AsyncFunctionDef)):
                    continue
                for c in ast.walk(fn):
                    if isinstance(c, ast.Call) and ((isinstance(c.func, ast.Attribute) and c.func.attr == owner) or (isinstance(c.func, ast.Name) and c.func.id == owner)):
                        ncalls += 1
                        if not (fn.name in GENERATORS and m2.name == "watchdog.events"):
                            return False
        return ncalls > 0

    for site, ln in list(other_sites):
        if site[1] not in GENERATORS and site[1] != "<module>" and factory_only_from_generators(site[0], site[1]):
            other_sites.remove((site, ln))
            gen_sites.add(site)
    ctx.count("modules_scanned", len(P.modules))
    for s in sorted(gen_sites):
        ctx.ok(R2, f"{s[1]}: {s[2]}", s[0])
    for s, ln in other_sites:
        ctx.viol(R2, f"{s[1]}: {s[2]}", "event marked synthetic outside the sub-event generators", f"{s[0]}:{ln}")
    for rel, ln, txt in writes:
        ctx.viol(R2, f"write {txt}", "assignment to is_synthetic", f"{rel}:{ln}")
    # every constructor in the generators passes the flag (so the sets are equal, not merely included)
    ev_mod = P.module("watchdog.events")
    for g in GENERATORS:
        gfi = ev_mod.functions.get(g)
        if gfi is None:
            raise AnalysisError(f"anchor vanished: watchdog.events.{g}")
        for n in ast.walk(gfi.node):
            if isinstance(n, ast.Call) and isinstance(n.func, ast.Name) and n.func.id.endswith("Event"):
                has = any(k.arg == "is_synthetic" and isinstance(k.value, ast.Constant) and k.value.value is True for k in n.keywords)
                if not has:
                    ctx.viol(R2, f"{g}: {norm_stmt(n)}", "generator constructs an event without is_synthetic=True", f"{ev_mod.relpath}:{n.lineno}")

    # ---- watch released when a directory leaves
    roots = [("Inotify", "read_events"), ("InotifyBuffer", "run"), ("InotifyBuffer", "_group_events"), ("InotifyEmitter", "queue_events")]
    found = reach_calls(P, roots, lambda name: name in ("inotify_rm_watch",), stop_at={("Inotify", "close")})
    pruned = False
    rd = P.find_method("Inotify", "read_events")
    if rd is None:
        raise AnalysisError("anchor vanished: Inotify.read_events")
    # alternative (b): the reader prunes _path_for_wd on a moved-from record
    for n in ast.walk(rd.node):
        if isinstance(n, ast.If):
            t = ast.unparse(n.test)
            if "is_moved_from" in t and "is_moved_to" not in t:
                for b in n.body:
                    for x in ast.walk(b):
                        if isinstance(x, (ast.Delete,)) and "_path_for_wd" in ast.unparse(x):
                            pruned = True
                        if isinstance(x, ast.Call) and isinstance(x.func, ast.Attribute) and x.func.attr == "pop" and "_path_for_wd" in ast.unparse(x.func.value):
                            pruned = True
    ctx.count("call_graph_roots", len(roots))
    ctx.check(
        bool(found) or pruned,
        R3,
        "unpaired-MOVED_FROM-ISDIR",
        "no call chain from the reader/emitter path reaches inotify_rm_watch (Inotify.remove_watch has no caller) and the "
        "wd->path map is not pruned: a directory moved out of the tree keeps its kernel watch and later changes inside it "
        "are reported under its old path",
        rd.loc,
        detail={"roots": roots, "reached": found},
    )


IN = "observers/inotify.py"
EV = "events.py"
VARIANTS = [
    dict(name="B is_ignored never true", expect="fire", rule="C03/record-predicates-decode-their-flag", edits=[("observers/inotify_c.py", "        return self._mask & InotifyConstants.IN_IGNORED > 0", "        return None")]),
    dict(name="B is_modify tests the attrib bit", expect="fire", rule="C03/record-predicates-decode-their-flag", edits=[("observers/inotify_c.py", "        return self._mask & InotifyConstants.IN_MODIFY > 0", "        return self._mask & InotifyConstants.IN_ATTRIB > 0")]),
    dict(name="B is_directory ignores the ISDIR bit", expect="fire", rule="C03/record-predicates-decode-their-flag", edits=[("observers/inotify_c.py", "        return self.is_delete_self or self.is_move_self or self._mask & InotifyConstants.IN_ISDIR > 0", "        return self.is_delete_self or self.is_move_self")]),
    dict(name="B name accessor returns the path", expect="fire", rule="C03/record-predicates-decode-their-flag", edits=[("observers/inotify_c.py", "        return self._name\n", "        return self._src_path\n")]),
    dict(name="E predicate written with != 0", expect="silent", edits=[("observers/inotify_c.py", "        return self._mask & InotifyConstants.IN_OPEN > 0", "        return self._mask & InotifyConstants.IN_OPEN != 0")]),
    dict(name="B swap Dir/File arms in the delete branch", expect="fire", rule="C03/emission-contract", edits=[(IN, "                cls = DirDeletedEvent if event.is_directory else FileDeletedEvent\n                self.queue_event(cls(src_path))\n                self.queue_event(DirModifiedEvent(os.path.dirname(src_path)))\n            elif event.is_moved_from and full_events:", "                cls = FileDeletedEvent if event.is_directory else DirDeletedEvent\n                self.queue_event(cls(src_path))\n                self.queue_event(DirModifiedEvent(os.path.dirname(src_path)))\n            elif event.is_moved_from and full_events:")]),
    dict(name="B drop the parent event after MOVED_TO", expect="fire", rule="C03/emission-contract", edits=[(IN, "                    self.queue_event(cls(src_path))\n                self.queue_event(DirModifiedEvent(os.path.dirname(src_path)))\n                if event.is_directory and self.watch.is_recursive:", "                    self.queue_event(cls(src_path))\n                if event.is_directory and self.watch.is_recursive:")]),
    dict(name="B swap src/dest of the paired move", expect="fire", rule="C03/emission-contract", edits=[(IN, "self.queue_event(cls(src_path, dest_path))", "self.queue_event(cls(dest_path, src_path))")]),
    dict(name="B emitter marks an event synthetic", expect="fire", rule="C03/", edits=[(IN, "                cls = DirCreatedEvent if event.is_directory else FileCreatedEvent\n                self.queue_event(cls(src_path))\n                self.queue_event(DirModifiedEvent(os.path.dirname(src_path)))\n            elif event.is_delete_self", "                cls = DirCreatedEvent if event.is_directory else FileCreatedEvent\n                self.queue_event(cls(src_path, is_synthetic=True))\n                self.queue_event(DirModifiedEvent(os.path.dirname(src_path)))\n            elif event.is_delete_self")]),
    dict(name="B sub-created events only in normal mode", expect="fire", rule="C03/emission-contract", edits=[(IN, "                if full_events:\n                    cls = DirMovedEvent if event.is_directory else FileMovedEvent\n                    self.queue_event(cls(\"\", src_path))\n                else:\n                    cls = DirCreatedEvent if event.is_directory else FileCreatedEvent\n                    self.queue_event(cls(src_path))\n                self.queue_event(DirModifiedEvent(os.path.dirname(src_path)))\n                if event.is_directory and self.watch.is_recursive:", "                if full_events:\n                    cls = DirMovedEvent if event.is_directory else FileMovedEvent\n                    self.queue_event(cls(\"\", src_path))\n                else:\n                    cls = DirCreatedEvent if event.is_directory else FileCreatedEvent\n                    self.queue_event(cls(src_path))\n                self.queue_event(DirModifiedEvent(os.path.dirname(src_path)))\n                if event.is_directory and self.watch.is_recursive and not full_events:")]),
    dict(name="B sub events for non-recursive watches", expect="fire", rule="C03/emission-contract", edits=[(IN, "                if move_from.is_directory and self.watch.is_recursive:", "                if move_from.is_directory:")]),
    dict(name="B parent event carries the entry path", expect="fire", rule="C03/emission-contract", edits=[(IN, "                self.queue_event(cls(src_path, \"\"))\n                self.queue_event(DirModifiedEvent(os.path.dirname(src_path)))", "                self.queue_event(cls(src_path, \"\"))\n                self.queue_event(DirModifiedEvent(src_path))")]),
    dict(name="B closed event for directories too", expect="fire", rule="C03/emission-contract", edits=[(IN, "            elif not event.is_directory:\n                if event.is_open:", "            elif True:\n                if event.is_open:")]),
    dict(name="B generator marks nothing synthetic", expect="fire", rule="C03/synthetic-only-from-generators", edits=[(EV, "            yield FileCreatedEvent(full_path, is_synthetic=True)", "            yield FileCreatedEvent(full_path)")]),
    dict(name="B non-root delete_self reported", expect="fire", rule="C03/emission-contract", edits=[(IN, "            elif event.is_delete_self and src_path == self.watch.path:", "            elif event.is_delete_self:")]),
    dict(name="B full emitter does not delegate", expect="fire", rule="C03/full-mode-wiring", edits=[(IN, "        super().queue_events(timeout, full_events=events)", "        pass")]),
    dict(name="B full emitter defaults to normal mode", expect="fire", rule="C03/full-mode-wiring", edits=[(IN, "def queue_events(self, timeout: float, *, events: bool = True) -> None:  # type: ignore[override]", "def queue_events(self, timeout: float, *, events: bool = False) -> None:  # type: ignore[override]")]),
    dict(name="B observer always picks the normal emitter", expect="fire", rule="C03/full-mode-wiring", edits=[(IN, "cls = InotifyFullEmitter if generate_full_events else InotifyEmitter", "cls = InotifyEmitter if generate_full_events else InotifyEmitter")]),
    dict(name="E extract an _emit_with_parent helper", expect="silent", edits=[(IN, "                cls = DirCreatedEvent if event.is_directory else FileCreatedEvent\n                self.queue_event(cls(src_path))\n                self.queue_event(DirModifiedEvent(os.path.dirname(src_path)))\n            elif event.is_delete_self", "                cls = DirCreatedEvent if event.is_directory else FileCreatedEvent\n                self._emit_with_parent(cls, src_path)\n            elif event.is_delete_self"), (IN, "    def _decode_path(self, path: bytes | str) -> bytes | str:", "    def _emit_with_parent(self, cls, path) -> None:\n        self.queue_event(cls(path))\n        self.queue_event(DirModifiedEvent(os.path.dirname(path)))\n\n    def _decode_path(self, path: bytes | str) -> bytes | str:")]),
    dict(name="E reorder independent elif arms", expect="silent", edits=[(IN, "            elif event.is_attrib or event.is_modify:\n                cls = DirModifiedEvent if event.is_directory else FileModifiedEvent\n                self.queue_event(cls(src_path))\n            elif event.is_delete or (event.is_moved_from and not full_events):\n                cls = DirDeletedEvent if event.is_directory else FileDeletedEvent\n                self.queue_event(cls(src_path))\n                self.queue_event(DirModifiedEvent(os.path.dirname(src_path)))", "            elif event.is_delete or (event.is_moved_from and not full_events):\n                cls = DirDeletedEvent if event.is_directory else FileDeletedEvent\n                self.queue_event(cls(src_path))\n                self.queue_event(DirModifiedEvent(os.path.dirname(src_path)))\n            elif event.is_attrib or event.is_modify:\n                cls = DirModifiedEvent if event.is_directory else FileModifiedEvent\n                self.queue_event(cls(src_path))")]),
]


def thorough(ctx):
    from ..selftest import thorough as st

    return st(ctx, VARIANTS)
