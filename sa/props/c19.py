"""C19 — event paths keep the caller's path type and the entry's exact name.

Decided: decode discipline of the inotify emitter (every path argument of every emitted event derives from
_decode_path(native path); _decode_path is conditional on the watch path type; reader created on fsencode(watch path); the
root comparison uses the decoded path); Path -> str normalisation; the polling side joins the root as given with entry
names; no raw .decode/.encode on paths.  Not decided: that os.fsdecode round-trips undecodable names (CPython).
"""

from __future__ import annotations

import ast
import re

from ..contract_inotify import classify
from ..emit import inotify_emitter_table
from ..model import AnalysisError, dotted
from ..pse import Cfg, Enumerator

LEVEL_TEXT = (
    "Static analysis. Def-use: the argument terms of every event construction / sub-event generator call on every enumerated path of "
    "InotifyEmitter.queue_events (both modes) are matched against the decode discipline; path enumeration of _decode_path, "
    "on_thread_start, ObservedWatch.__init__, DirectorySnapshot.walk and the polling emitter's root handling; package scan for raw "
    ".decode/.encode calls in the anchored modules."
    ' Also: the watch key carries the stored path itself (value-origin tracing), so the str and bytes spellings of a directory are different watches.'
)

ARG_OK = re.compile(r"^(os\.path\.dirname\()?self\._decode_path\(ev(\[[01]\])?\.src_path\)\)?$|^''$|^\"\"$")


def walk_builds_paths_from_root(P):
    """(holds, location): every path DirectorySnapshot.walk builds is join(<root as given>, <entry of listdir(root)>.name), whether the
    listing is consumed by a comprehension or by a loop, in walk() itself or in a private helper it hands its root to (shared with
    C10: a custom listdir only has to supply names; the snapshot's paths are spelled under the directory that was asked for)."""
    wk = P.find_method("DirectorySnapshot", "walk")
    # every path the walk builds is join(<root as given>, <entry of listdir(root)>.name), whether the listing is consumed by a
    # comprehension or by a loop
    from ..flow import origins as _orig

    rootp0 = ([a.arg for a in wk.node.args.args if a.arg != "self"] or ["root"])[0]
    okj, other, njoin = True, [], 0
    # walk() itself and the private helpers it hands its root to (the listing may be made in one of them)
    for sfi, rootp in P.param_scopes("DirectorySnapshot", "walk", rootp0, skip=("walk", "stat", "listdir")):
        fn = sfi.node
        binders = {}
        for n in ast.walk(fn):
            if isinstance(n, ast.comprehension) and isinstance(n.target, ast.Name):
                binders[n.target.id] = n.iter
            if isinstance(n, ast.For) and isinstance(n.target, ast.Name):
                binders[n.target.id] = n.iter
        joins = [n for n in ast.walk(fn) if isinstance(n, ast.Call) and ast.unparse(n.func) == "os.path.join"]
        njoin += len(joins)
        for j in joins:
            good = len(j.args) == 2 and ast.unparse(j.args[0]) == rootp and isinstance(j.args[1], ast.Attribute) and j.args[1].attr == "name" and isinstance(j.args[1].value, ast.Name)
            if good:
                it = binders.get(j.args[1].value.id)
                good = it is not None and all(b == "self.listdir" or (b == f"param:{rootp}" and w == ("self.listdir",)) for b, w in _orig(fn, it)) and ast.unparse(it).replace(" ", "") in (f"self.listdir({rootp})",) or (it is not None and all(w[-1:] == ("self.listdir",) and b == f"param:{rootp}" for b, w in _orig(fn, it)))
            okj = okj and bool(good)
        # the spelling an entry of the listing carries itself (`entry.path`) is the listdir implementation's, not the root as given
        other += [n for n in ast.walk(fn) if isinstance(n, ast.Attribute) and n.attr == "path" and isinstance(n.value, ast.Name) and n.value.id in binders and "listdir" in ast.unparse(binders[n.value.id])]
        other += [n for n in ast.walk(fn) if isinstance(n, ast.JoinedStr) or (isinstance(n, ast.BinOp) and isinstance(n.op, ast.Add) and rootp in ast.unparse(n))]
    okj = okj and njoin >= 1
    return okj and not other, wk.loc


def run(ctx) -> None:
    P = ctx.P
    RD = ctx.rule("C19/decode-discipline", "every path argument of an event constructed (or generator drained) by the inotify emitter is _decode_path(native src_path), dirname of it, or the empty literal", floor=40)
    RC = ctx.rule("C19/decode-conditional", "_decode_path is the identity when the watch path is bytes and os.fsdecode otherwise; the reader is created on os.fsencode(watch path); the root comparison uses the decoded path", floor=4)
    RP = ctx.rule("C19/path-normalisation", "ObservedWatch turns pathlib.Path into str and nothing else; polling paths are join(root as given, entry.name); the polling root event carries watch.path itself", floor=4)
    RN = ctx.rule("C19/no-raw-codecs", "no .decode()/.encode() on path values in the emitter modules (only os.fsdecode/os.fsencode)", floor=1)

    rows, npaths, fi = inotify_emitter_table(P)
    ctx.count("emitter_paths", npaths)
    nsites = 0
    for r in rows:
        info = classify(r)
        for i, em in enumerate(r.emissions):
            if em.kind not in ("E", "G", "G?"):
                continue
            for j, a in enumerate(em.args):
                nsites += 1
                loc = f"{fi.module.relpath}:{getattr(em.node, 'lineno', fi.node.lineno)}"
                ctx.check(
                    bool(ARG_OK.match(a)),
                    RD,
                    f"kind={info['kind']} isdir={info['isdir']} full={info['full']} emission#{i} {em.cls} arg{j}",
                    f"path argument `{a[:120]}` is not derived through _decode_path(native path): its type would not follow the watch path's type (or the name would be re-encoded)",
                    loc,
                )
            for k, v in em.kwargs.items():
                if k in ("src_path", "dest_path"):
                    ctx.check(bool(ARG_OK.match(v)), RD, f"kind={info['kind']} emission#{i} {em.cls} {k}=", f"path argument `{v[:120]}` is not derived through _decode_path", fi.loc)
        for a, t in r.val.items():
            if "==" in a and "self.watch.path" in a:
                ctx.check("self._decode_path(ev.src_path)" in a, RC, f"root comparison `{a[:80]}`", "the root-deletion test compares the raw (bytes) native path with the watch path: it never matches for str watches", fi.loc)
    ctx.count("constructor_path_arguments", nsites)

    en = Enumerator(Cfg(P))
    dp = P.find_method("InotifyEmitter", "_decode_path")
    if dp is None:
        raise AnalysisError("anchor vanished: InotifyEmitter._decode_path")
    param = [a.arg for a in dp.node.args.args][1]
    ok, msg = True, ""
    seen = set()
    for p in en.run(dp):
        c = p.conds()
        isb = None
        for a, t in c.items():
            if re.fullmatch(r"isinstance\(self\.(watch|_watch)\.path, bytes\)", a):
                isb = t
        if p.outcome[0] != "return" or isb is None:
            ok, msg = False, "_decode_path does not decide on isinstance(self.watch.path, bytes)"
            continue
        rt = ast.unparse(p.outcome[1])
        seen.add(isb)
        if isb and rt != param:
            ok, msg = False, f"bytes watch: returns `{rt}` instead of the path unchanged"
        if not isb and rt != f"os.fsdecode({param})":
            ok, msg = False, f"str watch: returns `{rt}` instead of os.fsdecode({param})"
    ctx.check(ok and seen == {True, False}, RC, "InotifyEmitter._decode_path", msg or "both cases must be handled", dp.loc)
    ots = P.find_method("InotifyEmitter", "on_thread_start")
    okb = False
    for p in en.run(ots):
        for e in p.evs:
            if e.kind == "call" and e.extra.get("func") == "InotifyBuffer":
                okb = (e.extra.get("args") or [""])[0] == "os.fsencode(self.watch.path)"
    ctx.check(okb, RC, "InotifyEmitter.on_thread_start", "the reader is not created on os.fsencode(self.watch.path): native paths would not be bytes", ots.loc)

    # ---- ObservedWatch / polling
    from ..watchpath import NORMALISERS, key_path_component, path_model

    wpm = path_model(P)
    ow = wpm["init"]
    ctx.check(
        wpm["public_normalised"] and wpm["type_preserving"],
        RP,
        "ObservedWatch.__init__ path normalisation",
        f"pathlib.Path is not turned into str / other types are changed: stored {wpm['stored_cases']}, `path` returns {wpm['getter']}",
        ow.loc,
    )
    okwalk, wkloc = walk_builds_paths_from_root(P)
    ctx.check(okwalk, RP, "DirectorySnapshot.walk builds paths from the root as given", "snapshot paths are not all join(root, entry.name) over the entries of listdir(root)", wkloc)
    pe = P.cls("PollingEmitter")
    # every snapshot the emitter takes (in __init__'s lambda, in a method, wherever) is of the watch's path exactly as it was given
    snaps, first = [], []
    for fn in [n for n in ast.walk(pe.node) if isinstance(n, (ast.FunctionDef, ast.Lambda))]:
        own = [n for n in ast.walk(fn) if isinstance(n, ast.Call) and (dotted(n.func) or "").split(".")[-1] == "DirectorySnapshot"]
        if not own or (isinstance(fn, ast.FunctionDef) and any(isinstance(x, ast.Lambda) and any(c in list(ast.walk(x)) for c in own) for x in ast.walk(fn))):
            continue  # (a call inside a lambda is judged with the lambda)
        # locals bound once in this function to a plain attribute chain read as that chain (`watch = self.watch`)
        once: dict[str, list] = {}
        for a in ast.walk(fn):
            if isinstance(a, ast.Assign) and len(a.targets) == 1 and isinstance(a.targets[0], ast.Name):
                once.setdefault(a.targets[0].id, []).append(a.value)
        alias = {k: ast.unparse(v[0]) for k, v in once.items() if len(v) == 1 and dotted(v[0])}
        for n in own:
            a0 = n.args[0] if n.args else next((k.value for k in n.keywords if k.arg == "path"), None)
            t = ast.unparse(a0) if a0 is not None else ""
            head = t.split(".")[0]
            if head in alias:
                t = alias[head] + t[len(head):]
            snaps.append(n)
            first.append(t)
    ctx.check(bool(snaps) and all(f in ("self.watch.path", "self._watch.path") for f in first), RP, "PollingEmitter snapshots watch.path as given", "the polling snapshot is not taken of self.watch.path as given", pe.loc)
    qe = ast.unparse(pe.methods["queue_events"].node)
    ctx.check("DirDeletedEvent(self.watch.path)" in qe, RP, "PollingEmitter root event carries watch.path", "the root-gone event does not carry self.watch.path itself", pe.loc)
    # polling events carry diff paths unchanged
    bad = [m.group(0) for m in re.finditer(r"queue_event\(\w+Event\(([^()]*(os\.fs(en|de)code|str|bytes)\([^)]*\))", qe)]
    ctx.check(not bad, RP, "PollingEmitter passes diff paths unchanged", f"diff paths are converted before being put into events: {bad}", pe.loc)

    # ---- one emitter per path *type*: the watch key carries the path as given
    RK = ctx.rule(
        "C19/watch-identity-separates-path-types",
        "ObservedWatch.key carries the stored path itself (no codec, no normalisation): the str and the bytes spelling of one directory are "
        "different watches, each with its own emitter decoding for its own caller; and `path` returns the stored field unchanged",
        floor=2,
    )
    from ..flow import origins

    owc = P.cls("ObservedWatch")
    kf, pf = owc.methods.get("key"), owc.methods.get("path")
    if kf is None or pf is None:
        raise AnalysisError("anchor vanished: ObservedWatch.key / ObservedWatch.path")
    rets = [n.value for n in ast.walk(kf.node) if isinstance(n, ast.Return) and n.value is not None]
    if not rets or not isinstance(rets[0], ast.Tuple) or not rets[0].elts:
        raise AnalysisError("anchor vanished: ObservedWatch.key does not return a tuple")
    kpc = key_path_component(P)
    comp = kpc["component"]
    okk = kpc["only_field"]
    ctx.check(okk, RK, "ObservedWatch.key path component", f"the key's path component is {comp}: two spellings of one directory that differ only in type (str / bytes) become one watch, the second caller is served by the first caller's emitter and receives paths of the other type", kf.loc)
    ctx.check(wpm["getter_ok"], RK, "ObservedWatch.path returns the stored path", f"`path` returns {wpm['getter']}", pf.loc)

    # ---- synthetic events name the walked entry itself (shared instances with C14)
    RSY = ctx.rule(
        "C19/synthetic-paths-name-the-entry",
        "a synthetic event's path is join(walk root, entry name) exactly as os.walk produced it (same type as the caller's path), and its "
        "old path is the old directory followed by the same relative path (prefix-anchored rewrite, no substring replacement, no string "
        "formatting of path objects)",
        floor=8,
    )
    from .c14 import generators

    RMAP = ctx.rule("C19/watch-maps-hold-the-path-as-given", "the wd->path and path->wd entries an add-watch files hold the path argument itself, by assignment (instances shared with C07): native paths are look-ups in that map, a stale or re-spelled entry names an entry that does not exist", floor=2)
    ctx.borrow("c07", "C07/root-spelling-preserved", RMAP, only=lambda i_: "_add_watch" in i_.construct)
    # ... and the recursive installation walks the path as given: the sub-directories it files are join(<that path>, names)
    from ..pse import Enumerator as _En2
    from ..reader import ReaderCfg as _RC, find_loops as _fl

    adw = P.find_method("Inotify", "_add_dir_watch")
    if adw is None:
        raise AnalysisError("anchor vanished: Inotify._add_dir_watch")
    pth = [a.arg for a in adw.node.args.args][1] if len(adw.node.args.args) > 1 else "path"
    wl = _fl(_En2(_RC(P, fault=True)).run(adw, selfcls="Inotify"), lambda e: e.text.startswith("os.walk("))
    for L in wl:
        try:
            a0 = ast.parse(L.text, mode="eval").body.args[0]
        except (SyntaxError, AttributeError, IndexError):
            continue
        calls = [(dotted(c.func) or "") for c in ast.walk(a0) if isinstance(c, ast.Call)]
        resp = [c for c in calls if c.split(".")[-1] in ("normpath", "abspath", "realpath", "normcase", "expanduser", "expandvars", "relpath", "lower", "casefold")]
        ctx.check(
            not resp,
            RMAP,
            f"_add_dir_watch walks `{ast.unparse(a0)[:50]}`",
            f"the recursive installation walks `{ast.unparse(a0)[:70]}` instead of `{pth}` as given: the sub-directories are filed in the wd->path map under the re-spelled root (absolute for a relative watch path), so events below them carry paths that are not the watched path joined with the entry's relative name, unlike the events of the root itself and of the polling observer",
            f"{adw.module.relpath}:{L.line}",
        )
    if not wl:
        ctx.unresolved.append("_add_dir_watch: no os.walk loop found (spelling of the installed sub-directories not decided)")
    generators(ctx, RSY, RSY, P)

    # ---- native paths name the real entry: they are wd->path look-ups, so the table must be current when a record is resolved
    RNB = ctx.rule(
        "C19/native-paths-name-the-entry",
        "a native record's path is the current name of its directory joined with the record's name: the reader re-keys a renamed directory "
        "and its watched descendants, and prunes only the dying descriptor's entry, before the next record of the read is resolved "
        "(instances shared with C02 / C03)",
        floor=5,
    )
    from .c02 import check_rows

    _sink = ctx.rule("C19/_shared-not-owned", "(rows of the shared bookkeeping contract that C19 does not own)", floor=0)
    n0 = len(ctx.instances)
    check_rows(ctx, _sink, RNB, _sink, RNB, _sink, _sink)
    from .c02 import record_path_from_live_map

    record_path_from_live_map(ctx, RNB)
    ctx.instances[n0:] = [i for i in ctx.instances[n0:] if i.rule != _sink]
    del ctx.rules[_sink], ctx.floors[_sink]

    # ---- ... and that path is spelled by joining, nothing else: the watch's own path when the record has no name
    RSP_ = ctx.rule(
        "C19/record-path-is-the-watch-path-joined-with-the-name",
        "the path of the event built for a native record is `join(<wd's path>, name)` when the record carries a name and the wd's path itself when it does not: not passed through a function that re-spells paths (normpath / abspath / realpath / normcase ...: `./a/x` would become `a/x`, a relative root absolute), and not joined with an empty name (trailing separator)",
        floor=2,
    )
    from ..reader import flag_kind, record_paths
    from .c02 import record_path_term

    RESPELL = ("normpath", "abspath", "realpath", "normcase", "expanduser", "expandvars", "relpath", "lower", "upper", "casefold", "strip", "rstrip", "lstrip")
    bp_, _L, rfi_, _all = record_paths(P, fault=False)
    per: dict[tuple, list] = {}
    for p in bp_:
        t_ = record_path_term(p)
        if t_ is None:
            continue
        nm = p.conds().get("name")
        per.setdefault((flag_kind(p), nm), []).append((t_, p))
    if not per:
        ctx.unresolved.append("read_events: no record path found (the 5th constructor argument of the record's event); spelling rule not decided")
    for (kind, nm), lst in sorted(per.items(), key=str):
        bad = ""
        for t_, p in lst:
            try:
                tt = ast.parse(t_, mode="eval").body
            except SyntaxError:
                continue
            calls = [(dotted(c.func) or (c.func.attr if isinstance(c.func, ast.Attribute) else "")) for c in ast.walk(tt) if isinstance(c, ast.Call)]
            resp = [c for c in calls if c.split(".")[-1] in RESPELL]
            if resp:
                bad = f"the record's path is `{t_[:90]}`: passed through {resp[0]}(), which re-spells it (a watch on `./a` reports `a/x`; `..` components and doubled separators are rewritten), so the event path is no longer the watched path as given joined with the entry's name"
            elif nm is False and isinstance(tt, ast.Call) and (dotted(tt.func) or "").endswith("path.join") and any(isinstance(a, ast.Name) and a.id == "name" for a in tt.args):
                bad = f"a record without a name (an event about the watched directory itself) gets the path `{t_[:90]}`: joined with the empty name it ends in a separator and no longer equals the watched path"
            if bad:
                break
        ctx.check(not bad, RSP_, f"read_events kind={kind} name={'given' if nm else 'empty' if nm is False else 'either'}: record path spelled by joining only ({len(lst)} path(s))", bad, rfi_.loc)

    # ---- raw codecs
    from ..fixtures import FX_CODEC, must_fire, raw_codec_calls

    must_fire("C19/no-raw-codecs", raw_codec_calls, FX_CODEC)
    n = 0
    for mod in ("watchdog.observers.inotify", "watchdog.observers.polling", "watchdog.utils.dirsnapshot", "watchdog.observers.api", "watchdog.events", "watchdog.observers.inotify_buffer"):
        m = P.module(mod)
        for x in raw_codec_calls(m.tree):
            n += 1
            ctx.viol(RN, f"{mod}: {ast.unparse(x)[:80]}", "raw .decode()/.encode() on a value in an emitter module: undecodable names would raise or be mangled (use os.fsdecode/os.fsencode)", f"{m.relpath}:{x.lineno}")
    if n == 0:
        ctx.ok(RN, "no raw codec call in the anchored modules (detector checked on a positive fixture)", "", nontrivial=True)
    ctx.assumptions += ["os.fsdecode/os.fsencode round-trip every file name (surrogateescape)"]


IN = "observers/inotify.py"
API = "observers/api.py"
VARIANTS = [
    dict(name="E path normalised when read (os.fspath in the getter), key through the property", expect="silent", edits=[(API, "import contextlib\n", "import contextlib\nimport os\n"), (API, "        self._path = str(path) if isinstance(path, Path) else path\n", "        self._path = path\n"), (API, '        """The path that this watch monitors."""\n        return self._path\n', '        """The path that this watch monitors."""\n        return os.fspath(self._path)\n')]),
    dict(name="B synthetic moved source by substring replacement", expect="fire", rule="C19/synthetic-paths-name-the-entry", edits=[("events.py", 'renamed_path = src_dir_path + full_path[len(dest_dir_path) :] if src_dir_path else ""', 'renamed_path = full_path.replace(dest_dir_path, src_dir_path) if src_dir_path else ""')]),
    dict(name="B synthetic path formatted into a str", expect="fire", rule="C19/synthetic-paths-name-the-entry", edits=[("events.py", "            full_path = os.path.join(root, directory)  # type: ignore[call-overload]\n            yield DirCreatedEvent(full_path, is_synthetic=True)", "            full_path = f\"{root}{os.sep}{directory}\"\n            yield DirCreatedEvent(full_path, is_synthetic=True)")]),
    dict(name="B watch key decodes the path", expect="fire", rule="C19/watch-identity-separates-path-types", edits=[(API, "        return self.path, self.is_recursive, self.event_filter", "        return os.fsdecode(self.path), self.is_recursive, self.event_filter"), (API, "import queue\n", "import os\nimport queue\n")]),
    dict(name="E key reads the backing field", expect="silent", edits=[(API, "        return self.path, self.is_recursive, self.event_filter", "        return self._path, self.is_recursive, self.event_filter")]),
    dict(name="B raw event.src_path passed to a constructor", expect="fire", rule="C19/decode-discipline", edits=[(IN, "                cls = DirModifiedEvent if event.is_directory else FileModifiedEvent\n                self.queue_event(cls(src_path))", "                cls = DirModifiedEvent if event.is_directory else FileModifiedEvent\n                self.queue_event(cls(event.src_path))")]),
    dict(name="B unconditional fsdecode", expect="fire", rule="C19/decode-conditional", edits=[(IN, "        return path if isinstance(self.watch.path, bytes) else os.fsdecode(path)", "        return os.fsdecode(path)")]),
    dict(name="B str() for every path type", expect="fire", rule="C19/path-normalisation", edits=[(API, "        self._path = str(path) if isinstance(path, Path) else path", "        self._path = str(path)")]),
    dict(name="B parent event from the undecoded path", expect="fire", rule="C19/decode-discipline", edits=[(IN, "                self.queue_event(cls(src_path, \"\"))\n                self.queue_event(DirModifiedEvent(os.path.dirname(src_path)))", "                self.queue_event(cls(src_path, \"\"))\n                self.queue_event(DirModifiedEvent(os.path.dirname(event.src_path)))")]),
    dict(name="B decode with utf-8 replace", expect="fire", rule="C19/", edits=[(IN, "        return path if isinstance(self.watch.path, bytes) else os.fsdecode(path)", "        return path if isinstance(self.watch.path, bytes) else path.decode('utf-8', 'replace')")]),
    dict(name="B root compare uses raw path", expect="fire", rule="C19/decode-conditional", edits=[(IN, "elif event.is_delete_self and src_path == self.watch.path:", "elif event.is_delete_self and event.src_path == self.watch.path:")]),
    dict(name="B sub events generated from raw paths", expect="fire", rule="C19/decode-discipline", edits=[(IN, "for sub_moved_event in generate_sub_moved_events(src_path, dest_path):", "for sub_moved_event in generate_sub_moved_events(move_from.src_path, move_to.src_path):")]),
    dict(name="E inline decode at use", expect="silent", edits=[(IN, "                cls = DirModifiedEvent if event.is_directory else FileModifiedEvent\n                self.queue_event(cls(src_path))", "                cls = DirModifiedEvent if event.is_directory else FileModifiedEvent\n                self.queue_event(cls(self._decode_path(event.src_path)))")]),
    dict(name="E if/else form of _decode_path", expect="silent", edits=[(IN, "        return path if isinstance(self.watch.path, bytes) else os.fsdecode(path)", "        if isinstance(self.watch.path, bytes):\n            return path\n        return os.fsdecode(path)")]),
]


def thorough(ctx):
    from ..selftest import thorough as st

    return st(ctx, VARIANTS)
