"""C16 — the event queue drops only true consecutive duplicates.

Decided: the duplicate bookkeeping is written only inside the primitives queue.Queue invokes with its mutex held; it is
reset on dequeue under a comparison with the dequeued item; the skip decision is a function of (item, last item) only and
has the stated truth table; event equality is the generated dataclass equality over all fields, for every event class.
"""

from __future__ import annotations

import ast
import re

from ..model import AnalysisError, dotted, norm_stmt
from ..pse import NORMAL, Cfg, Enumerator
from ..threads import ThreadCfg

LEVEL_TEXT = (
    "Static analysis. Ownership rule: every write of the duplicate-bookkeeping field in the whole package lies in _init/_put/_get "
    "of the queue class (the primitives CPython's queue.Queue calls with its mutex held); path enumeration of put/_put/_get for "
    "the delegation truth table, the reset-on-dequeue condition and exactly-once delegation to the base primitives; structural "
    "rules on the event dataclass hierarchy (generated __eq__, no compare=False, no subclass override, no new fields)."
)

PRIMS = ("_init", "_put", "_get")


def empty_marker(P) -> str:
    """The value that means 'no item remembered': what _init stores in the field -- None, or a module-level sentinel object."""
    q = P.cls("SkipRepeatsQueue")
    mf = q.methods.get("_init")
    if mf is None:
        return "None"
    vals = set()
    for p in Enumerator(ThreadCfg(P, follow_attrs=False)).run(mf, selfcls="SkipRepeatsQueue"):
        for e in p.evs:
            if e.kind == "store" and e.extra.get("attr") == "_last_item":
                vals.add(e.extra.get("value"))
    if len(vals) != 1:
        return "None"
    v = vals.pop()
    if v == "None":
        return v
    c = q.module.consts.get(v)
    # a sentinel: a module-level name bound to a fresh object() (compared by identity only)
    if c is not None and isinstance(c, ast.Call) and ast.unparse(c.func) == "object" and not c.args:
        return v
    return "None"


def queue_bookkeeping(ctx, RB, RD, RR):
    """Ownership of the duplicate bookkeeping, delegation of the primitives to the FIFO base, reset on dequeue (shared with
    C01 / C04: any of them failing makes the observer's event queue drop or duplicate an event)."""
    P = ctx.P
    field = "_last_item"
    q = P.cls("SkipRepeatsQueue")
    mro = P.mro("SkipRepeatsQueue")
    ctx.check(any(b in ("queue.Queue", "Queue") for b in mro) and not any("Lifo" in b or "Priority" in b for b in mro), RD, "SkipRepeatsQueue bases", f"bases {mro}: the FIFO base queue.Queue is required", q.loc)
    for sub in P.subclasses("SkipRepeatsQueue", strict=True):
        ci = P.classes[sub]
        over = [m for m in ci.methods if m in ("put", "get", "_put", "_get", "_init", "put_nowait", "get_nowait", "_qsize")]
        ctx.check(not over, RD, f"{sub} overrides", f"{sub} overrides queue primitives {over}", ci.loc)

    # ---- ownership of the bookkeeping field: whole package
    field = "_last_item"
    from ..fixtures import FX_WRITE, field_writes, must_fire

    must_fire("C16/bookkeeping-in-critical-section", field_writes, FX_WRITE, field)
    writes = []
    for m in P.modules.values():
        for cname, mname, n in field_writes(m.tree, field):
            writes.append((cname or "<module>", mname, norm_stmt(n), f"{m.relpath}:{n.lineno}"))
    if not writes:
        # no shadow field at all: the other way to know "the last enqueued, still pending item" is the tail of the base queue's
        # own deque -- decided by the tail-peek rules
        return tail_peek_design(ctx, RB, RD, RR, q)
    # a private helper of the queue class counts as part of the primitives if every call of it, anywhere in the package, is made
    # from a primitive (or from another such helper): it then runs only with the queue's mutex held
    allowed = set(PRIMS)
    changed = True
    while changed:
        changed = False
        for h in q.methods:
            if h in allowed or not h.startswith("_") or h.startswith("__"):
                continue
            sites = []
            for m in P.modules.values():
                for cn in [n for n in ast.walk(m.tree) if isinstance(n, ast.ClassDef)] + [None]:
                    fns = [f for f in (cn.body if cn is not None else m.tree.body) if isinstance(f, (ast.FunctionDef, ast.AsyncFunctionDef))]
                    for f in fns:
                        for x in ast.walk(f):
                            if isinstance(x, ast.Call) and isinstance(x.func, ast.Attribute) and x.func.attr == h:
                                sites.append((cn.name if cn is not None else None, f.name))
            if sites and all(c_ in P.subclasses("SkipRepeatsQueue") and f_ in allowed for c_, f_ in sites):
                allowed.add(h)
                changed = True
    ctx.extra["mutex_protected_methods"] = sorted(allowed)
    for c, mname, stmt, loc in writes:
        ctx.check(
            mname in allowed and c in P.subclasses("SkipRepeatsQueue"),
            RB,
            f"{c}.{mname}: {stmt}",
            f"_last_item written in {c}.{mname}, outside the mutex-protected primitives: a concurrent get()/put() can interleave with it (lost or wrongly dropped events)",
            loc,
        )

    en = Enumerator(ThreadCfg(P, follow_attrs=False))
    EMPTY = empty_marker(P)
    ctx.extra["nothing_remembered_marker"] = EMPTY
    # ---- _put / _get delegate once
    for prim, base_call in (("_put", "super()._put"), ("_get", "super()._get"), ("_init", "super()._init")):
        mf = q.methods.get(prim)
        if mf is None:
            # the base primitive is used as is: nothing to delegate; the ownership rule decides whether that is enough
            ctx.ok(RD, f"SkipRepeatsQueue.{prim} (inherited from the base queue)", q.loc, nontrivial=False)
            if prim == "_put":
                ctx.viol(RB, "SkipRepeatsQueue._put records the enqueued item", "there is no _put override: the enqueued item is not recorded inside the queue's critical section", q.loc)
            if prim == "_get":
                ctx.viol(RR, "SkipRepeatsQueue._get", "there is no _get override: _last_item is never cleared when its item is dequeued", q.loc)
            continue
        paths = en.run(mf, selfcls="SkipRepeatsQueue")
        ok = all(len([e for e in p.evs if e.kind == "call" and e.extra.get("func") == base_call]) == 1 for p in paths)
        ctx.check(ok, RD, f"SkipRepeatsQueue.{prim}", f"{prim} does not call {base_call}() exactly once on every path (an item would be lost or duplicated)", mf.loc)
        if prim == "_put":
            ok2 = all(any(e.kind == "store" and e.extra.get("attr") == field and e.extra.get("value") == "item" for e in p.evs) for p in paths)
            ctx.check(ok2, RB, "SkipRepeatsQueue._put records the enqueued item", "_put does not record the item it enqueued as _last_item", mf.loc)
        if prim == "_get":
            ok3 = True
            msg = ""
            for p in paths:
                cmp_true = [a for a, t in p.conds().items() if field in a and ("super()._get()" in a) and t]
                cmp_false = [a for a, t in p.conds().items() if field in a and ("super()._get()" in a) and not t]
                resets = [e for e in p.evs if e.kind == "store" and e.extra.get("attr") == field and e.extra.get("value") == EMPTY]
                other = [e for e in p.evs if e.kind == "store" and e.extra.get("attr") == field and e.extra.get("value") != EMPTY]
                if cmp_true and not resets and other:
                    ok3, msg = False, f"the dequeued item is the remembered one and _last_item is set to `{other[0].extra.get('value')}`, which is not the 'nothing remembered' marker `{EMPTY}` that _init stores: the two states 'fresh queue' and 'tail consumed' are told apart by put() (an item equal to one marker, e.g. None, is dropped or accepted depending on the history)"
                elif cmp_true and not resets:
                    ok3, msg = False, "the dequeued item is the remembered one but _last_item is not cleared: an equal item put next is dropped although nothing is pending"
                if resets and not cmp_true:
                    ok3, msg = False, "_last_item is cleared although the dequeued item is not the remembered one: a duplicate of the still-pending last item is then accepted"
                if not cmp_true and not cmp_false:
                    ok3, msg = False, "_get does not compare the dequeued item with _last_item"
                rets = [e for e in p.evs if e.kind == "return"]
                if not rets or "super()._get()" not in rets[-1].text:
                    ok3, msg = False, "_get does not return the item it dequeued"
            ctx.check(ok3, RR, "SkipRepeatsQueue._get", msg, mf.loc)

    return q


DEQ = "self.queue"  # queue.Queue's own deque: _put appends on the right, _get pops on the left, both under self.mutex


def _uses_tail_peek(P) -> bool:
    q = P.cls("SkipRepeatsQueue")
    from ..fixtures import field_writes

    has_shadow = any(field_writes(m.tree, "_last_item") for m in P.modules.values())
    reads_deque = any(isinstance(n, ast.Attribute) and n.attr == "queue" and isinstance(n.value, ast.Name) and n.value.id == "self" for mf in q.methods.values() for n in ast.walk(mf.node))
    return not has_shadow and reads_deque


def tail_peek_design(ctx, RB, RD, RR, q):
    """The queue keeps no record of its own: the item a new one is compared with is the tail of queue.Queue's deque.  Then
    (i) the primitives must be the base's (an override must delegate exactly once): append right / pop left is what makes the tail
    'the last enqueued item that is still pending'; (ii) every access to the deque outside the primitives is made with the queue's
    mutex held, the emptiness test and the tail read in one critical section (otherwise a get() in between empties it and the
    tail read raises: the item is neither enqueued nor a duplicate); (iii) nothing to reset on dequeue."""
    P = ctx.P
    from ..pse import walk_with_locks

    en = Enumerator(ThreadCfg(P, follow_attrs=False))
    for prim, base_call in (("_put", "super()._put"), ("_get", "super()._get"), ("_init", "super()._init")):
        mf = q.methods.get(prim)
        if mf is None:
            ctx.ok(RD, f"SkipRepeatsQueue.{prim} (inherited from the base queue)", q.loc)
            continue
        paths = en.run(mf, selfcls="SkipRepeatsQueue")
        ok = all(len([e for e in p.evs if e.kind == "call" and e.extra.get("func") == base_call]) == 1 for p in paths)
        ctx.check(ok, RD, f"SkipRepeatsQueue.{prim}", f"{prim} does not call {base_call}() exactly once on every path (an item would be lost or duplicated)", mf.loc)
    # An index read of the deque made without the mutex can fail at any time (a concurrent get() may have emptied it, whatever an
    # earlier emptiness test said): outside the mutex such a read raises IndexError in this model, and the rule is that none escapes
    # put().  A single tail read under `except IndexError` is fine; "test non-empty, then read the tail" without the mutex is not.
    class TailCfg(ThreadCfg):
        def raises(self, kind, text, node, st):
            if kind == "subscript" and st.evs and st.evs[-1].kind == "subscript" and st.evs[-1].extra.get("container") == DEQ:
                held = 0
                for e_ in st.evs:
                    if e_.kind == "acquire" and e_.text == "self.mutex":
                        held += 1
                    elif e_.kind == "release" and e_.text == "self.mutex":
                        held -= 1
                nonempty = any(st.val.get(a_) is True for a_ in (DEQ, f"len({DEQ}) > 0", f"bool({DEQ})")) or st.val.get(f"len({DEQ}) == 0") is False
                if held > 0 and nonempty:
                    return ()
                return ["IndexError"]
            return ()

    nacc = 0
    pf_ = q.methods.get("put")
    if pf_ is None:
        raise AnalysisError("anchor vanished: SkipRepeatsQueue.put")
    tpaths = Enumerator(TailCfg(P, follow_attrs=False)).run(pf_, selfcls="SkipRepeatsQueue")
    nacc = sum(1 for p in tpaths for e in p.flat() if e.kind == "subscript" and e.extra.get("container") == DEQ)
    esc = [p for p in tpaths if p.outcome[0] == "raise" and str(p.outcome[1]).startswith("IndexError")]
    if esc:
        r_ = [e for e in esc[0].evs if e.kind == "raised"]
        ctx.viol(
            RB,
            "SkipRepeatsQueue.put: tail read of the base deque",
            f"`{r_[-1].extra.get('at', 'self.queue[-1]') if r_ else 'self.queue[-1]'}` is read without the queue's mutex and its IndexError is not handled: a get() that empties the deque between the emptiness test and this read makes put() raise — the item is neither enqueued nor a duplicate (lost), and the producer thread dies [{esc[0].sig()[:80]}]",
            f"{pf_.module.relpath}:{r_[-1].line if r_ else pf_.node.lineno}",
        )
    else:
        ctx.ok(RB, f"SkipRepeatsQueue.put: {nacc} tail reads of the base deque, none can raise out of put()", pf_.loc)
    # writes to the deque outside the primitives are never fine
    nw0 = len([i for i in ctx.instances if not i.ok])
    for mname, mf in q.methods.items():
        if mname in PRIMS:
            continue
        for n_ in ast.walk(mf.node):
            if isinstance(n_, ast.Call) and isinstance(n_.func, ast.Attribute) and ast.unparse(n_.func.value) == DEQ and n_.func.attr in ("append", "appendleft", "pop", "popleft", "clear", "remove", "insert", "extend", "rotate"):
                ctx.viol(RB, f"SkipRepeatsQueue.{mname}: {ast.unparse(n_)[:50]}", "the base queue's deque is changed outside the primitives queue.Queue runs under its mutex", f"{mf.module.relpath}:{n_.lineno}")
    if len([i for i in ctx.instances if not i.ok]) == nw0:
        ctx.ok(RB, "SkipRepeatsQueue: the base deque is changed only by the base primitives", q.loc)
    ctx.ok(RR, "nothing to reset on dequeue (the tail leaves the deque with the item)", q.loc, nontrivial=False)
    return q


def skip_decision_tail_peek(ctx, RS, q):
    """put() delegates iff not (deque non-empty and item == tail); reads only the item and the deque."""
    P = ctx.P
    class _TC(ThreadCfg):
        def raises(self, kind, text, node, st):
            # an index read of the deque can find it empty (decided by the critical-section rule whether that may escape)
            if kind == "subscript" and st.evs and st.evs[-1].kind == "subscript" and st.evs[-1].extra.get("container") == DEQ and not any(st.val.get(a_) is True for a_ in (DEQ, f"len({DEQ}) > 0", f"bool({DEQ})")):
                return ["IndexError"]
            return ()

    en = Enumerator(_TC(P, follow_attrs=False))
    pf = q.methods.get("put")
    if pf is None:
        raise AnalysisError("anchor vanished: SkipRepeatsQueue.put")
    paths = en.run(pf, selfcls="SkipRepeatsQueue")
    ctx.count("paths", len(paths))
    pitem = ([a.arg for a in pf.node.args.args if a.arg != "self"] or ["item"])[0]
    ok, msg, n = True, "", 0
    foreign: set = set()
    for p in paths:
        if p.outcome[0] == "raise":
            continue
        n += 1
        c = p.conds()
        nonempty = None
        for a, t in c.items():
            if a in (DEQ, f"len({DEQ}) > 0", f"len({DEQ})", f"bool({DEQ})"):
                nonempty = t
            elif a in (f"len({DEQ}) == 0", f"not {DEQ}"):
                nonempty = not t
        eq = next((t for a, t in c.items() if a in (f"{pitem} == {DEQ}[-1]", f"{DEQ}[-1] == {pitem}")), None)
        if any(e.kind == "caught" and e.text.startswith("IndexError") for e in p.evs):
            nonempty = False  # the tail read failed and was absorbed: the deque was empty
        elif eq is not None and nonempty is None and any(e.kind == "subscript" and e.extra.get("container") == DEQ for e in p.evs):
            nonempty = True  # the tail was read (the read did not fail)
        foreign |= {a for a in c if not (re.sub(r"\bself\.queue\b", "", a).replace(pitem, "").strip(" ()[]-1=<>!0lenbotn") == "")}
        deleg = [e for e in p.evs if e.kind == "call" and e.extra.get("func") == "super().put"]
        if eq is not None and nonempty is not True:
            ok, msg = False, "the tail is read on a path that has not established that the deque is non-empty"
        dup = nonempty is True and eq is True
        if dup and deleg:
            ok, msg = False, f"put() enqueues a duplicate of the pending last item (path: {p.sig()})"
        if not dup and len(deleg) != 1:
            ok, msg = False, f"put() drops an item that is not a duplicate of the pending last item (path: {p.sig()})"
        for d in deleg:
            if (d.extra.get("args") or [""])[0] != pitem:
                ok, msg = False, "put() delegates something other than the item"
    ctx.check(not foreign, RS, "SkipRepeatsQueue.put decision inputs", f"the skip decision reads something other than the item and the deque: {sorted(foreign)[:3]}", pf.loc)
    ctx.check(ok and n >= 2, RS, "SkipRepeatsQueue.put truth table (tail peek)", msg or "put() has fewer than two normal paths: no decision is made", pf.loc)
    ctx.sample({"put_paths": [p.sig() for p in paths]})


def skip_decision(ctx, RS, q=None):
    """put() delegates iff (_last_item is None or item != _last_item) and reads nothing else (shared with C01 / C04: a queue that
    skips anything but a pending duplicate drops an event)."""
    P = ctx.P
    field = "_last_item"
    q = q or P.cls("SkipRepeatsQueue")
    if _uses_tail_peek(P):
        return skip_decision_tail_peek(ctx, RS, q)
    en = Enumerator(ThreadCfg(P, follow_attrs=False))
    pf = q.methods.get("put")
    if pf is None:
        raise AnalysisError("anchor vanished: SkipRepeatsQueue.put")
    paths = en.run(pf, selfcls="SkipRepeatsQueue")
    ctx.count("paths", len(paths))
    # decided on the atoms of the enumerated paths (helpers inlined, locals substituted): nothing but item and _last_item
    pitem = ([a.arg for a in pf.node.args.args if a.arg != "self"] or ["item"])[0]
    EMPTY = empty_marker(P)
    foreign = set()
    for p in paths:
        for a in p.conds():
            names = set(re.findall(r"[A-Za-z_][\w.]*", a)) - {"is", "None", "not", "in", "and", "or", EMPTY}
            if not names <= {pitem, f"self.{field}"}:
                foreign.add(a)
    ctx.check(not foreign, RS, "SkipRepeatsQueue.put decision inputs", f"the skip decision reads something other than the item and _last_item: {sorted(foreign)[:3]}", pf.loc)
    ok, msg = True, ""
    for p in paths:
        deleg = [e for e in p.evs if e.kind == "call" and e.extra.get("func") == "super().put"]
        a = p.conds().get(f"self.{field} is {EMPTY}")
        b = None
        for k, v in p.conds().items():
            if re.fullmatch(rf"{pitem} == self\.{field}|self\.{field} == {pitem}", k):
                b = v
        should = (a is True) or (b is False)
        if a is None and b is None:
            ok, msg = False, "put() does not test _last_item at all"
            break
        if a is False and b is None:
            # the path knows that something is pending but never compares the item with it
            if not deleg:
                ok, msg = False, "put() drops every item while another one is pending, whether or not it is a duplicate (the equality test is missing on this path)"
            continue
        if should and len(deleg) != 1:
            ok, msg = False, f"put() drops an item that is not a duplicate of the pending last item (path: {p.sig()})"
        if not should and deleg:
            ok, msg = False, f"put() enqueues a duplicate of the pending last item (path: {p.sig()})"
        for d in deleg:
            if (d.extra.get("args") or [""])[0] != "item":
                ok, msg = False, "put() delegates something other than the item"
    ctx.check(ok, RS, "SkipRepeatsQueue.put truth table", msg, pf.loc)
    ctx.sample({"put_paths": [p.sig() for p in paths]})



def run(ctx) -> None:
    P = ctx.P
    RB = ctx.rule("C16/bookkeeping-in-critical-section", "_last_item is written only inside _init/_put/_get (run by queue.Queue with its mutex held)", floor=2)
    RD = ctx.rule("C16/primitives-delegate", "_put and _get delegate exactly once to the base FIFO primitive; the base is queue.Queue", floor=3)
    RR = ctx.rule("C16/reset-on-dequeue", "_get clears _last_item exactly when the dequeued item is that item", floor=1)
    RS = ctx.rule("C16/skip-decision-local", "put() delegates iff (_last_item is None or item != _last_item); the decision reads only item and _last_item", floor=2)
    RE = ctx.rule("C16/event-equality", "events are equal iff same class and same field values: generated dataclass __eq__, no compare=False, no subclass __eq__/__hash__/new fields", floor=12)

    q = queue_bookkeeping(ctx, RB, RD, RR)
    skip_decision(ctx, RS, q)

    # ---- the deque under the event queue is changed only through the queue's own primitives: a rewrite from outside bypasses _get and
    # leaves _last_item pointing at an item that is no longer queued (every later equal item is dropped)
    ROWN = ctx.rule("C16/queue-internals-private", "no code outside the queue classes reads or writes the `queue` / `mutex` internals of an event queue", floor=1)
    qcls = {"SkipRepeatsQueue"} | set(P.subclasses("SkipRepeatsQueue"))
    outside = []
    for m_ in P.modules.values():
        for c_ in [n for n in ast.walk(m_.tree) if isinstance(n, ast.ClassDef)] + [None]:
            if c_ is not None and c_.name in qcls:
                continue
            body_ = c_.body if c_ is not None else [n for n in m_.tree.body if isinstance(n, (ast.FunctionDef, ast.AsyncFunctionDef))]
            for fn_ in [n for n in body_ if isinstance(n, (ast.FunctionDef, ast.AsyncFunctionDef))]:
                for n in ast.walk(fn_):
                    if isinstance(n, ast.Attribute) and n.attr in ("queue", "mutex", "not_empty", "not_full", "unfinished_tasks") and "queue" in ast.unparse(n.value).lower():
                        outside.append((m_.relpath, n.lineno, ast.unparse(n)))
    for rel_, ln_, txt_ in outside:
        ctx.viol(ROWN, f"`{txt_}`", f"`{txt_}` reaches into the queue's internals from outside the queue class: items changed there bypass _put/_get and the remembered last item no longer describes the tail", f"{rel_}:{ln_}")
    if not outside:
        ctx.ok(ROWN, f"{len(P.modules)} modules scanned: the event queue's internals are touched only by the queue classes", P.cls("SkipRepeatsQueue").loc)
    # ---- event equality
    evm = P.module("watchdog.events")
    base = evm.classes.get("FileSystemEvent")
    if base is None:
        raise AnalysisError("anchor vanished: FileSystemEvent")
    dec = [d for d in base.node.decorator_list]
    dtxt = " ".join(ast.unparse(d) for d in dec)
    ctx.check("dataclass" in dtxt and "eq=False" not in dtxt.replace(" ", ""), RE, "FileSystemEvent is a dataclass with generated __eq__", f"decorators: {dtxt or 'none'}", base.loc)
    for n in base.node.body:
        if isinstance(n, ast.AnnAssign) and isinstance(n.target, ast.Name):
            v = ast.unparse(n.value) if n.value is not None else ""
            ctx.check("compare=False" not in v.replace(" ", ""), RE, f"FileSystemEvent.{n.target.id} compared", f"field {n.target.id} is excluded from equality ({v})", f"{evm.relpath}:{n.lineno}")
    ctx.check(not any(m in base.methods for m in ("__eq__", "__ne__", "__hash__")), RE, "FileSystemEvent no hand-written identity methods", "FileSystemEvent defines its own __eq__/__ne__/__hash__", base.loc)
    for c in P.subclasses("FileSystemEvent", strict=True):
        ci = P.classes[c]
        bad = [m for m in ci.methods if m in ("__eq__", "__ne__", "__hash__")]
        newf = [n.target.id for n in ci.node.body if isinstance(n, ast.AnnAssign) and isinstance(n.target, ast.Name)]
        redec = [ast.unparse(d) for d in ci.node.decorator_list if "dataclass" in ast.unparse(d)]
        ctx.check(
            not bad and not newf and not redec,
            RE,
            f"{c} inherits generated equality",
            f"{c}: overrides {bad}, new fields {newf}, re-decorated {redec}",
            ci.loc,
        )
    ctx.assumptions += [
        "CPython's queue.Queue calls _init/_put/_get only with its mutex held and put()/get() are otherwise unchanged",
        "dataclass-generated __eq__ compares class identity and the tuple of compared fields",
    ]


BR = "utils/bricks.py"
EV = "events.py"
VARIANTS = [
    dict(name="B _last_item update moved into put()", expect="fire", rule="C16/bookkeeping-in-critical-section", edits=[(BR, "            super().put(item, block, timeout)\n\n    def _put(self, item: Any) -> None:\n        super()._put(item)\n        self._last_item = item", "            super().put(item, block, timeout)\n            self._last_item = item\n\n    def _put(self, item: Any) -> None:\n        super()._put(item)")]),
    dict(name="B never reset on dequeue", expect="fire", rule="C16/reset-on-dequeue", edits=[(BR, "        if item is self._last_item:\n            self._last_item = None\n", "")]),
    dict(name="B always reset on dequeue", expect="fire", rule="C16/reset-on-dequeue", edits=[(BR, "        if item is self._last_item:\n            self._last_item = None\n", "        self._last_item = None\n")]),
    dict(name="B skip when last is None too", expect="fire", rule="C16/skip-decision-local", edits=[(BR, "if self._last_item is None or item != self._last_item:", "if self._last_item is not None and item != self._last_item:")]),
    dict(name="B skip whenever something is pending", expect="fire", rule="C16/skip-decision-local", edits=[(BR, "if self._last_item is None or item != self._last_item:", "if self._last_item is None:")]),
    dict(name="E None test dropped (item != None is always true for events)", expect="silent", edits=[(BR, "if self._last_item is None or item != self._last_item:", "if item != self._last_item:")]),
    dict(name="B compare=False on dest_path", expect="fire", rule="C16/event-equality", edits=[(EV, '    dest_path: bytes | str = ""', '    dest_path: bytes | str = field(default="", compare=False)')]),
    dict(name="B subclass __eq__ ignoring class", expect="fire", rule="C16/event-equality", edits=[(EV, 'class FileMovedEvent(FileSystemMovedEvent):\n    """File system event representing file movement on the file system."""\n', 'class FileMovedEvent(FileSystemMovedEvent):\n    """File system event representing file movement on the file system."""\n\n    def __eq__(self, other: object) -> bool:\n        return isinstance(other, FileSystemEvent) and self.src_path == other.src_path\n\n    __hash__ = FileSystemEvent.__hash__\n')]),
    dict(name="B _put skips base primitive", expect="fire", rule="C16/primitives-delegate", edits=[(BR, "        super()._put(item)\n        self._last_item = item", "        self._last_item = item")]),
    dict(name="B LifoQueue base", expect="fire", rule="C16/primitives-delegate", edits=[(BR, "class SkipRepeatsQueue(queue.Queue):", "class SkipRepeatsQueue(queue.LifoQueue):")]),
    dict(name="E != spelled as not ==", expect="silent", edits=[(BR, "if self._last_item is None or item != self._last_item:", "if self._last_item is None or not (item == self._last_item):")]),
    dict(name="E early return form", expect="silent", edits=[(BR, "        if self._last_item is None or item != self._last_item:\n            super().put(item, block, timeout)", "        if self._last_item is not None and item == self._last_item:\n            return\n        super().put(item, block, timeout)")]),
]


def thorough(ctx):
    from ..selftest import thorough as st

    return st(ctx, VARIANTS)
