"""C01 — replaying the native (inotify) event stream reproduces the real directory tree.

Not decided: the property itself (all histories x all timings x kernel behaviour).
Decided — two necessary conditions: (1) every tree-changing native kind is translated, on every path, into a created /
deleted / moved event that names the entry itself (moved: source and destination in that order), before any synthetic
descendant event, and a directory that appears with content gets one simulated create per walked entry;
(2) no stage between kernel and handler reorders or drops.
"""

from __future__ import annotations

import ast
import re

from ..contract_inotify import TREE_CHANGING, classify, role_of
from ..emit import inotify_emitter_table
from ..model import AnalysisError, dotted
from ..reader import ReaderCfg, find_loops, flag_kind, record_paths

LEVEL_TEXT = (
    "Static analysis of two necessary conditions. (1) From the enumerated paths of InotifyEmitter.queue_events (both modes) and of the "
    "reader's simulate closure: every tree-changing abstract native kind x IN_ISDIR has a primary created/deleted/moved event naming the "
    "entry itself, before synthetic ones. (2) Structural FIFO rules on every container and loop of the pipeline kernel fd -> reader -> "
    "delay queue -> emitter -> event queue -> dispatcher (append / extend / in-place replace / popleft only; FIFO queue base; single "
    "consumer; top-down walks)."
    " Also: each simulated record carries the walked entry's own name, join(walk root, name) as path, and the descriptor of the watch just added (directories) or of the parent looked up by dirname (files)."
)

WANT = {  # kind -> (family for normal mode, family for full mode)
    "tuple": ("Moved", "Moved"),
    "is_moved_to": ("Created", "Moved"),
    "is_moved_from": ("Deleted", "Moved"),
    "is_delete": ("Deleted", "Deleted"),
    "is_create": ("Created", "Created"),
    "is_delete_self": ("Deleted", "Deleted"),
}
ORDER_BAD = ("insert", "sort", "reverse", "pop", "appendleft", "remove", "clear", "rotate", "extendleft")


def list_ops(fn_node: ast.AST, name: str) -> dict[str, int]:
    ops: dict[str, int] = {}
    for n in ast.walk(fn_node):
        if isinstance(n, ast.Call) and isinstance(n.func, ast.Attribute) and dotted(n.func.value) == name:
            ops[n.func.attr] = ops.get(n.func.attr, 0) + 1
        if isinstance(n, ast.Delete):
            for t in n.targets:
                if isinstance(t, ast.Subscript) and dotted(t.value) == name:
                    ops["del[]"] = ops.get("del[]", 0) + 1
        if isinstance(n, (ast.Assign, ast.AugAssign)):
            tg = n.targets if isinstance(n, ast.Assign) else [n.target]
            for t in tg:
                if isinstance(t, ast.Subscript) and dotted(t.value) == name:
                    k = "[i:j]=" if isinstance(t.slice, ast.Slice) else "[i]="
                    ops[k] = ops.get(k, 0) + 1
                if isinstance(t, ast.Name) and t.id == name and isinstance(n, ast.AugAssign):
                    ops["augassign"] = ops.get("augassign", 0) + 1
    return ops


def run(ctx) -> None:
    P = ctx.P
    RT = ctx.rule("C01/tree-changing-complete", "every tree-changing native kind (x IN_ISDIR, both emitter modes) emits a created/deleted/moved event of the entry's flavour naming the entry itself (paired move: source then destination), before any synthetic descendant event; new directories get one simulated create per walked directory and file", floor=20)
    RO = ctx.rule("C01/order-preserving-pipeline", "no stage between kernel and handler reorders or drops: lists are only appended to / extended / replaced in place, loops iterate in order, the delay queue is append/popleft, the event queue's base is the FIFO queue.Queue and its primitives delegate, one consumer loop per queue, walks are top-down", floor=9)

    RW = ctx.rule("C01/every-directory-is-watched", "a change can only reach the stream if its directory has a kernel watch under its current name: the reader's bookkeeping contract (instances shared with C02) — install on create / arrival, re-key on rename, prune only the dying descriptor's entry, initial recursive installation", floor=10)
    from .c02 import check_rows

    check_rows(ctx, RW, RW, RW, RW, RW, RW)
    from .c02 import record_path_from_live_map

    record_path_from_live_map(ctx, RW)
    from .c02 import failed_add_watch_is_a_failure

    failed_add_watch_is_a_failure(ctx, RW)
    RFS = ctx.rule(
        "C01/threads-survive-vanished-paths",
        "every filesystem call that raises for a missing path, made on the emitter's or the reader's thread, sits inside a handler for OSError (instances shared with C07): a directory may be renamed again right after it arrived, and an OSError escaping the walk of its arrival path ends the thread -- the move or deletion that follows, and everything after it, is never delivered, so the replayed tree keeps a phantom entry",
        floor=2,
    )
    from ..oserr import check as _fs_check

    _fs_check(ctx, RFS, [("InotifyEmitter", "queue_events"), ("InotifyBuffer", "run")], "the events that follow are never delivered and the replayed tree diverges from the disk")

    rows, npaths, fi = inotify_emitter_table(P)
    ctx.count("emitter_paths", npaths)
    covered = set()
    for r in rows:
        info = classify(r)
        kind, isdir, full = info["kind"], info["isdir"], info["full"]
        if info["inactive"] or kind not in TREE_CHANGING:
            continue
        if kind == "is_delete_self" and info["root"] is not True:
            continue
        fam = WANT[kind][1 if full else 0]
        prim = [(i, em) for i, em in enumerate(r.emissions) if em.kind == "E" and em.cls.endswith(fam + "Event") and not em.cls.endswith("ModifiedEvent")]
        construct = f"kind={kind} isdir={isdir} full={full} recursive={info['rec']}"
        loc = fi.loc
        ok, msg = True, ""
        if not prim:
            ok, msg = False, f"no {fam} event on this path (emits: {r.brief()[:120]}): a replay misses this change"
        else:
            i, em = prim[0]
            want_cls = ("Dir" if isdir else "File") + fam + "Event" if isdir is not None else None
            roles = [role_of(a) for a in em.args]
            if want_cls and em.cls != want_cls:
                ok, msg = False, f"{em.cls} emitted for an entry whose IN_ISDIR says {'directory' if isdir else 'file'}"
            elif kind == "tuple":
                if roles != [("self", "ev[0]"), ("self", "ev[1]")]:
                    ok, msg = False, f"paired move carries {roles}; expected (source, destination) of the two halves in that order"
            elif fam == "Moved":
                exp = [("empty",), ("self", "ev")] if kind == "is_moved_to" else [("self", "ev"), ("empty",)]
                if roles != exp:
                    ok, msg = False, f"half move carries {roles}, expected {exp}"
            elif roles[:1] != [("self", "ev")]:
                ok, msg = False, f"{em.cls} names {roles} instead of the entry itself"
            gens = [j for j, e2 in enumerate(r.emissions) if e2.kind in ("G", "G?")]
            if ok and gens and min(gens) < i:
                ok, msg = False, "synthetic descendant events precede the event of the directory itself"
            if ok and len(prim) > 1:
                ok, msg = False, f"{len(prim)} {fam} events for one native record"
            # a directory that arrives or is renamed under a recursive watch brings descendants with it: on such a path the matching
            # sub-event generator is emitted in full, with the same path(s) as the directory's own event (the descendants' creations /
            # moves exist in the stream nowhere else)
            if ok and isdir is True and info["rec"] is True and ((kind == "tuple") or (fam == "Created") or (kind == "is_moved_to" and fam == "Moved")):
                want_gen = "generate_sub_moved_events" if kind == "tuple" else "generate_sub_created_events"
                full_gens = [e2 for e2 in r.emissions if e2.kind == "G" and e2.cls == want_gen]
                if not full_gens:
                    ok, msg = False, f"a directory {'renamed' if kind == 'tuple' else 'arriving'} under a recursive watch is reported without its descendants on this path (no complete {want_gen}(...) emission; emits: {r.brief()[:140]}): what lies below it is in no event of the stream"
                elif kind == "tuple" and [role_of(a) for a in full_gens[0].args] != [("self", "ev[0]"), ("self", "ev[1]")]:
                    ok, msg = False, f"{want_gen} is given {[role_of(a) for a in full_gens[0].args]}, expected the (source, destination) of the two halves"
                elif kind != "tuple" and [role_of(a) for a in full_gens[0].args][:1] != [("self", "ev")]:
                    ok, msg = False, f"{want_gen} walks {[role_of(a) for a in full_gens[0].args]}, expected the arriving directory itself"
        ctx.check(ok, RT, construct, msg, loc, {"emits": r.brief()})
        covered.add((kind, isdir, full))
    for kind in WANT:
        for full in (False, True):
            for isdir in (True, False):
                if kind == "is_delete_self" and not isdir:
                    continue
                ctx.check((kind, isdir, full) in covered, RT, f"coverage kind={kind} isdir={isdir} full={full}", "no path of the translation handles this tree-changing kind", fi.loc)

    # simulated creates for the contents of a new directory
    bp, L, rfi, _all = record_paths(P, fault=False)
    from ..model import nested_function, returned_name

    RL = returned_name(rfi.node)  # the list read_events returns
    simf = nested_function(rfi.node, lambda f: any(isinstance(n, ast.Call) and dotted(n.func) == "os.walk" for n in ast.walk(f)))
    simnode = simf
    if simnode is None:
        # ... or a method of the reader that read_events calls on self and that walks a tree and returns a list
        for hf in P.self_closure("Inotify", "read_events")[1:]:
            if any(isinstance(n, ast.Call) and dotted(n.func) == "os.walk" for n in ast.walk(hf.node)) and returned_name(hf.node) is not None:
                simnode = hf.node
                break
    SL = returned_name(simnode) if simnode is not None else None  # the list of simulated records
    sim_is_generator = simnode is not None and any(isinstance(n, (ast.Yield, ast.YieldFrom)) for n in ast.walk(simnode))
    if RL is None or (SL is None and not sim_is_generator):
        raise AnalysisError("read_events: returned list / simulated-events list not identified")
    found_sim = False
    for p in bp:
        if flag_kind(p) != "is_create" or p.conds().get("rec.is_directory") is not True or p.conds().get("self.is_recursive") is not True:
            continue
        evs = p.evs
        own = lambda e: "InotifyEvent(" in (e.extra.get("args") or [""])[0]  # noqa: E731
        idx_app = [i for i, e in enumerate(evs) if e.kind == "call" and e.extra.get("func") in (f"{RL}.append", f"{RL}.extend") and own(e)]
        idx_ext = [i for i, e in enumerate(evs) if e.kind == "call" and e.extra.get("func") == f"{RL}.extend" and not own(e)]
        walks = [e for e in evs if e.kind == "loop" and e.text.startswith("os.walk(")]
        if not walks:
            continue
        found_sim = True
        # the contents arrive by one extend of the simulated records, or (a generator drained in place) by the walk loop itself
        idx_walk = [i for i, e in enumerate(evs) if e.kind == "loop" and e.text.startswith("os.walk(") and any(y.kind == "call" and y.extra.get("func") == f"{RL}.append" for b_ in e.extra["paths"] for y in b_.flat())]
        idx_ext = idx_ext or idx_walk
        ok = bool(idx_app) and bool(idx_ext) and min(idx_app) < min(idx_ext)
        ctx.check(ok, RT, "new directory: own record before its simulated contents", "the directory's own create is not appended before the simulated creates of its contents", rfi.loc)
        W = walks[0]
        wnode = W.node.iter
        td = not any(k.arg == "topdown" and not (isinstance(k.value, ast.Constant) and k.value.value is True) for k in getattr(wnode, "keywords", []))
        ctx.check(td, RO, "_recursive_simulate walks top-down", "bottom-up walk: simulated creates of children precede their parents", rfi.loc)
        kinds = {"dirs": False, "files": False}
        why: list[str] = []

        def listing_of(text: str):
            """(which, walk-root text) if `text` is one of the walk's listings, or an eager copy of it in the same order"""
            mcopy = re.fullmatch(r"(?:list|tuple)\((.+)\)|(.+)\[:\]|(.+)\.copy\(\)", text)
            lt = next(g for g in mcopy.groups() if g) if mcopy else text
            which = "dirs" if lt.endswith("[1]") else "files" if lt.endswith("[2]") else None
            return (which, lt[: -len("[1]")] + "[0]") if which else (None, None)

        # one production per (iteration of the walk, listed entry): the record(s) made for the entry, the conditions it was made
        # under, whether a failure was absorbed for it.  The record may be appended in a loop over the listing, or be the element of
        # a comprehension over the listing (assigned, returned by a helper, or handed to extend / +=).
        prods = {"dirs": [], "files": []}
        for b in W.extra["paths"]:
            bc = b.conds()
            for x in b.evs:
                if x.kind == "loop":
                    which, wroot = listing_of(x.text)
                    if which is None:
                        continue
                    for bb in x.extra["paths"]:
                        if bb.outcome[0] == "raise":
                            continue
                        recs = []
                        for y in bb.evs:
                            if y.kind == "call" and y.extra.get("func", "").endswith(".append"):
                                t_ = y.extra.get("term")
                                if isinstance(t_, ast.Call) and t_.args:
                                    recs.append(t_.args[0])
                        watched = [y.text for y in bb.evs if y.kind == "call" and y.extra.get("func") == "inotify_add_watch"]
                        prods[which].append(dict(watched=watched, elem=f"$elem({x.text})", wroot=wroot, recs=recs, conds={**bc, **bb.conds()}, absorbed=any(y.kind == "caught" for y in bb.evs) or bb.outcome == ("continue",), skipped=(not recs and bb.outcome == ("continue",)), own=bb.conds()))
                else:
                    t_ = x.extra.get("term") if x.kind in ("assign", "call", "return") else None
                    for comp in [n for n in ast.walk(t_) if isinstance(n, (ast.ListComp, ast.GeneratorExp))] if isinstance(t_, ast.AST) else []:
                        if len(comp.generators) != 1 or not isinstance(comp.generators[0].target, ast.Name):
                            continue
                        itxt = ast.unparse(comp.generators[0].iter)
                        which, wroot = listing_of(itxt)
                        if which is None or any(d["elem"] == f"$elem({itxt})" and d.get("comp") for d in prods[which]):
                            continue
                        from ..pse import rewrite as _rw

                        tgt = comp.generators[0].target.id
                        rec = _rw(comp.elt, lambda n: ast.Call(ast.Name("$elem", ast.Load()), [comp.generators[0].iter], []) if isinstance(n, ast.Name) and n.id == tgt else None)
                        prods[which].append(dict(elem=f"$elem({itxt})", wroot=wroot, recs=[rec], conds=dict(bc), absorbed=False, skipped=False, own={}, comp=True, filtered=bool(comp.generators[0].ifs)))
        for which in ("dirs", "files"):
            good = bool(prods[which])
            for d in prods[which]:
                if d.get("filtered"):
                    good = False
                    why.append(f"{which}: entries are filtered before a record is made for them")
                if len(d["recs"]) != 1 and not d["absorbed"] and not (which == "files" and not d["recs"] and not d.get("comp")):
                    good = False  # (a file entry without a record is judged below: allowed only when its parent has no watch)
                for rec in d["recs"]:
                    a = ast.unparse(rec)
                    if "IN_CREATE" not in a or (("IN_ISDIR" in a) != (which == "dirs")):
                        good = False
                    # the simulated record names the walked entry: name = the loop element, path = join(walk root, element),
                    # a watch was added for the entry (directories) / descriptor = the parent's watch looked up by dirname(path) (files)
                    if isinstance(rec, ast.Call) and len(rec.args) >= 5:
                        elem, wroot = d["elem"], d["wroot"]
                        path = f"os.path.join({wroot}, {elem})"
                        a0, a3, a4 = ast.unparse(rec.args[0]), ast.unparse(rec.args[3]), ast.unparse(rec.args[4])
                        if a3 != elem or a4 != path:
                            good = False
                            why.append(f"{which}: record carries name `{a3[-40:]}` / path `{a4[-60:]}` instead of the walked entry and join(walk root, entry)")
                        # (which descriptor the simulated record of a directory carries is not observable: nothing reads it; what
                        # matters is that the directory got its watch before its record was made)
                        if which == "dirs" and not any("inotify_add_watch(" in t and path in t for t in [a0, *d.get("watched", [])]):
                            good = False
                            why.append("dirs: no watch is added for the walked directory before its record is made")
                        if which == "files":
                            # the parent of join(walk root, name) is the walk root (os.walk hands out plain names): either spelling
                            lookups = (f"self._wd_for_path.get(os.path.dirname({path}))", f"self._wd_for_path.get({wroot})", f"self._wd_for_path[os.path.dirname({path})]", f"self._wd_for_path[{wroot}]")
                            if a0 not in lookups:
                                good = False
                                why.append("files: the record's descriptor is not the parent's watch looked up under dirname(path)")
                            elif a0 in lookups[:2] and d["conds"].get(f"{a0} is None") is not False:
                                good = False
                                why.append("files: a record is built although the parent's watch was not found (descriptor None)")
                            elif a0 in lookups[2:] and d["conds"].get(a0[len("self._wd_for_path[") : -1] + " in self._wd_for_path") is not True:
                                good = False
                                why.append("files: the parent's watch is read by index without a membership test (KeyError for a parent that could not be watched)")
                    else:
                        good = False
                if (d["skipped"] or (not d["recs"] and not d["absorbed"] and not d.get("comp"))) and which == "files":
                    if not any((k.startswith("self._wd_for_path.get(") and k.endswith(" is None") and v is True) or (k.endswith(" in self._wd_for_path") and v is False) for k, v in d["own"].items()):
                        good = False
                        why.append("files: an entry is skipped although its parent's watch exists")
            kinds[which] = good
        ctx.check(kinds["dirs"] and kinds["files"], RT, "new directory: one simulated create per walked directory and file", f"simulated creates missing, mis-flavoured or mis-addressed (dirs ok={kinds['dirs']}, files ok={kinds['files']}): " + "; ".join(sorted(set(why)))[:400], rfi.loc)
        break
    if not found_sim:
        from .c02 import deferred_walk

        if deferred_walk(_all):
            ctx.unresolved.append("the contents walk of a new directory is not on the record's own path (deferred): its per-entry structure is not decided here")
            ctx.ok(RT, "new directory: simulated creates (deferred walk, unresolved)", rfi.loc, nontrivial=False)
        else:
            ctx.viol(RT, "new directory: one simulated create per walked directory and file", "no walk of a newly created directory's contents found", rfi.loc)

    # ---------------------------------------------------------------- pipeline stages
    def stage(name, ok, msg, loc, detail=None):
        ctx.check(ok, RO, name, msg, loc, detail)

    ops = list_ops(rfi.node, RL)
    if "[i:j]=" in ops:
        ctx.unresolved.append(f"{RL} is also filled by slice assignment (positional insertion): whether kernel order is kept depends on index arithmetic, not decided")
    stage("reader: returned event list", set(ops) <= {"append", "extend", "[i:j]="} and bool(set(ops) & {"append", "extend"}), f"operations on {RL}: {ops}", rfi.loc, ops)
    ops = list_ops(simnode, SL) if SL is not None else {"append": ["(records are yielded in walk order and appended by the consumer)"]}
    stage("reader: simulated events list", set(ops) <= {"append", "extend", "augassign"}, f"operations on the simulated list: {ops}", rfi.loc, ops)  # x += more extends x in place, at its end
    gf = P.find_method("InotifyBuffer", "_group_events")
    GL = returned_name(gf.node)
    if GL is None:
        raise AnalysisError("_group_events: returned list not identified")
    ops = list_ops(gf.node, GL)
    stage("buffer: grouped list", set(ops) <= {"append", "extend", "[i]="} and ops.get("append", 0) >= 1, f"operations on {GL}: {ops}", gf.loc, ops)
    rf = P.find_method("InotifyBuffer", "run")
    # the hand-over loop (a `for`, or the loop a comprehension over the hand-overs abbreviates) iterates the grouped list as it is
    from ..pse import Enumerator as _En
    from ..threads import ThreadCfg as _TC

    hl = find_loops(_En(_TC(P, follow_attrs=False, no_inline={"read_events", "_group_events", "put", "should_keep_running"})).run(rf, selfcls="InotifyBuffer"), lambda e: "_group_events(" in e.text and e.extra.get("kind") == "for")
    stage("buffer: hand-over loop in order", bool(hl) and not any(re.match(r"(reversed|sorted)\(", h.text) for h in hl), "hand-over loop iterates a reordered view" if hl else "no loop over the grouped events found in InotifyBuffer.run", rf.loc)
    dq = P.cls("DelayedQueue")
    qops = {}
    own = P.public_owners("DelayedQueue")  # an operation in a private helper counts for the public operations that call the helper
    for m, mf in dq.methods.items():
        for k, v in list_ops(mf.node, "self._queue").items():
            qops.setdefault(k, []).extend(own[m])
    stage("delay queue: append/popleft", "put" in qops.get("append", []) and "get" in qops.get("popleft", []) and not any(k in qops for k in ORDER_BAD if k != "remove"), f"deque operations: {qops}", dq.loc, qops)
    # the delay queue hands out exactly the element it validated (shared instance with C17/C08): otherwise an element pulled out
    # by remove() is delivered again, or the element that took its place is popped and dropped
    from .c17 import get_paths, revalidate_head

    qpaths, qci = get_paths(P)
    revalidate_head(ctx, RO, qpaths, qci)
    from .c17 import deque_unbounded

    okb, whyb, locb = deque_unbounded(P)
    ctx.check(okb, RO, "delay queue: no element is dropped for want of room (unbounded deque)", whyb, locb)
    # stages decided by other properties' rules, shared here because a violation of any of them is a dropped / duplicated /
    # reordered event of this pipeline: the grouping places every record once, the hand-over puts every element once (C08), the
    # event queue skips nothing but a pending duplicate (C16)
    from .c16 import queue_bookkeeping, skip_decision

    queue_bookkeeping(ctx, RO, RO, RO)
    skip_decision(ctx, RO)
    er = P.find_method("EventEmitter", "run")
    whiles = [n for n in ast.walk(er.node) if isinstance(n, ast.While)]
    calls = [n for n in ast.walk(er.node) if isinstance(n, ast.Call) and dotted(n.func) == "self.queue_events"]
    stage("emitter: one translation call per loop turn", len(whiles) == 1 and len(calls) == 1, f"{len(whiles)} loops / {len(calls)} queue_events calls in EventEmitter.run", er.loc)
    sq = P.cls("SkipRepeatsQueue")
    mro = P.mro("SkipRepeatsQueue")
    stage("event queue: FIFO base", any(b in ("queue.Queue", "Queue") for b in mro) and not any(("Lifo" in b or "Priority" in b) for b in mro), f"bases {mro}", sq.loc)
    for prim in ("_put", "_get"):
        mf = sq.methods.get(prim)
        ok = mf is None or sum(1 for n in ast.walk(mf.node) if isinstance(n, ast.Call) and isinstance(n.func, ast.Attribute) and n.func.attr == prim and isinstance(n.func.value, ast.Call) and dotted(n.func.value.func) == "super") == 1
        stage(f"event queue: {prim} delegates to the FIFO base", ok, f"{prim} does not delegate exactly once to super().{prim}", sq.loc)
    # single consumer
    sites = []
    for m in P.modules.values():
        for n in ast.walk(m.tree):
            if isinstance(n, ast.Call) and isinstance(n.func, ast.Attribute) and n.func.attr == "dispatch_events":
                sites.append(f"{m.relpath}:{n.lineno}")
    stage("dispatcher: single consumer loop", len(sites) == 1, f"dispatch_events called from {sites}", P.find_method("EventDispatcher", "run").loc)
    gets = []
    de = P.find_method("BaseObserver", "dispatch_events")
    for n in ast.walk(de.node):
        if isinstance(n, ast.Call) and isinstance(n.func, ast.Attribute) and n.func.attr in ("get", "get_nowait") and dotted(n.func.value) in ("event_queue", "self.event_queue", "self._event_queue"):
            gets.append(n)
    stage("dispatcher: one dequeue per dispatch", len(gets) == 1, f"{len(gets)} dequeues in dispatch_events", de.loc)
    ctx.assumptions += ["the kernel delivers inotify records in order", "queue.Queue and collections.deque are FIFO", "pacing condition of the property (directory operations drain before their contents are touched)"]


IN = "observers/inotify.py"
IC = "observers/inotify_c.py"
IB = "observers/inotify_buffer.py"
DQ = "utils/delayed_queue.py"
VARIANTS = [
    dict(name="B simulated file creates only when the parent is unknown", expect="fire", rule="C01/tree-changing-complete", edits=[(IC, "                    if wd_parent_dir is None:\n", "                    if wd_parent_dir is not None:\n")]),
    dict(name="B simulated file path joined the wrong way round", expect="fire", rule="C01/tree-changing-complete", edits=[(IC, "                    full_path = os.path.join(root, filename)\n", "                    full_path = os.path.join(filename, root)\n")]),
    dict(name="B simulated file records re-use the last directory's path", expect="fire", rule="C01/tree-changing-complete", edits=[(IC, "                    full_path = os.path.join(root, filename)\n                    wd_parent_dir", "                    wd_parent_dir")]),
    dict(name="B simulated directory record named after the walk root", expect="fire", rule="C01/tree-changing-complete", edits=[(IC, "                            0,\n                            dirname,\n                            full_path,", "                            0,\n                            root,\n                            full_path,")]),
    dict(name="B popleft -> pop in DelayedQueue.get", expect="fire", rule="C01/order-preserving-pipeline", edits=[(DQ, "self._queue.popleft()", "self._queue.pop()")]),
    dict(name="B create branch emits only the parent event", expect="fire", rule="C01/tree-changing-complete", edits=[(IN, "                cls = DirCreatedEvent if event.is_directory else FileCreatedEvent\n                self.queue_event(cls(src_path))\n                self.queue_event(DirModifiedEvent(os.path.dirname(src_path)))\n            elif event.is_delete_self", "                self.queue_event(DirModifiedEvent(os.path.dirname(src_path)))\n            elif event.is_delete_self")]),
    dict(name="B event_list.insert(0, ...)", expect="fire", rule="C01/order-preserving-pipeline", edits=[(IC, "                event_list.append(inotify_event)\n", "                event_list.insert(0, inotify_event)\n")]),
    dict(name="B sub events before the moved event", expect="fire", rule="C01/tree-changing-complete", edits=[(IN, "                self.queue_event(cls(src_path, dest_path))\n                self.queue_event(DirModifiedEvent(os.path.dirname(src_path)))\n                self.queue_event(DirModifiedEvent(os.path.dirname(dest_path)))\n                if move_from.is_directory and self.watch.is_recursive:\n                    for sub_moved_event in generate_sub_moved_events(src_path, dest_path):\n                        self.queue_event(sub_moved_event)", "                if move_from.is_directory and self.watch.is_recursive:\n                    for sub_moved_event in generate_sub_moved_events(src_path, dest_path):\n                        self.queue_event(sub_moved_event)\n                self.queue_event(cls(src_path, dest_path))\n                self.queue_event(DirModifiedEvent(os.path.dirname(src_path)))\n                self.queue_event(DirModifiedEvent(os.path.dirname(dest_path)))")]),
    dict(name="B paired move src/dest swapped", expect="fire", rule="C01/tree-changing-complete", edits=[(IN, "self.queue_event(cls(src_path, dest_path))", "self.queue_event(cls(dest_path, src_path))")]),
    dict(name="B simulated files not reported", expect="fire", rule="C01/tree-changing-complete", edits=[(IC, "                        filename,\n                        full_path,\n                    )\n                    events.append(e)", "                        filename,\n                        full_path,\n                    )")]),
    dict(name="B grouped events handed over in reverse", expect="fire", rule="C01/order-preserving-pipeline", edits=[(IB, "for inotify_event in grouped_events:", "for inotify_event in reversed(grouped_events):")]),
    dict(name="B LifoQueue base", expect="fire", rule="C01/order-preserving-pipeline", edits=[("utils/bricks.py", "class SkipRepeatsQueue(queue.Queue):", "class SkipRepeatsQueue(queue.LifoQueue):")]),
    dict(name="B unpaired moved_from of a dir typed as file", expect="fire", rule="C01/tree-changing-complete", edits=[(IN, "            elif event.is_delete or (event.is_moved_from and not full_events):\n                cls = DirDeletedEvent if event.is_directory else FileDeletedEvent", "            elif event.is_delete or (event.is_moved_from and not full_events):\n                cls = DirDeletedEvent if event.is_directory and event.is_delete else FileDeletedEvent")]),
    dict(name="E rename locals in the emitter", expect="silent", edits=[(IN, "            src_path = self._decode_path(event.src_path)\n            if event.is_moved_to:", "            src_path = self._decode_path(event.src_path)\n            entry = src_path\n            if event.is_moved_to:")]),
    dict(name="E extend([e]) for append(e)", expect="silent", edits=[(IC, "                event_list.append(inotify_event)\n", "                event_list.extend([inotify_event])\n")]),
]


def thorough(ctx):
    from ..selftest import thorough as st

    return st(ctx, VARIANTS)
