"""C17 — delay queue: FIFO, loses or duplicates nothing; close() unblocks.

Decided: lock discipline (incl. explicit acquire/release on every path), monitor discipline, no sleep under the lock,
re-validation of the head after re-acquiring, closed => end marker, FIFO container operations.
"Never before its delay" is decided in its structural part (rule delay-elapsed-before-hand-out): on every path that hands
out a delayed head, the last blocking operation is followed by a test that `insert time + delay - now` is not positive, `now`
being read after that operation from the clock put() stamps with.  What the clock returns is not modelled.
"""

from __future__ import annotations

import ast
import re

from ..model import AnalysisError, dotted
from ..pse import NORMAL, Cfg, Enumerator, snap_canon, snapshot_names, walk_with_locks
from ..threads import ThreadCfg, guarded_by, lock_aliases

LEVEL_TEXT = (
    "Static analysis. Every path of DelayedQueue.put/get/remove/close is enumerated (loops summarised); lock sets are tracked "
    "through `with`, explicit acquire/release and Condition aliases; rules: deque accessed only under the lock, every acquire "
    "released on every path, untimed wait only in a predicate loop whose predicate the notifiers write, writers notify under the "
    "lock, no sleep while holding the lock, head re-validated by identity after re-acquiring, closed => None, append/popleft only."
    " Also the structural part of 'never before its delay': after the last blocking operation on the path to popleft a comparison establishes insert time + delay_sec - now <= 0 (linear form), with now read after that operation from the clock put() stamps with."
)

CLS = "DelayedQueue"
NONRAISING = {"self._queue.append", "time.time", "len", "bool", "self._queue.popleft"}  # (bool / len of a deque cannot raise)


class QCfg(ThreadCfg):
    """Private helpers of the queue class are inlined (the critical sections may be split over helper methods)."""

    freeze_locals = True
    desugar_next_search = True  # remove() may find its element with next(<generator with the predicate>, None)

    def __init__(self, P):
        super().__init__(P, follow_attrs=False)

    def consistent(self, val):
        # the deque holds the tuples put() appends: an element of it is never None
        return not any(v is True and re.fullmatch(r"self\._queue\[-?\d+\] is None", a) for a, v in val.items())


def is_deletion(e) -> bool:
    """An element is taken out of the deque at a place other than its head: `del self._queue[i]`, or `self._queue.remove(v)`
    (deque.remove takes out the first element equal to v; the rules require v to be the element just found)."""
    return (e.kind == "del" and e.extra.get("container") == "self._queue") or (e.kind == "call" and e.extra.get("func") == "self._queue.remove")


HEAD = "self._queue[0]"


def snap_component(t: str) -> str:
    """A component of a snapshot is the snapshot of the component: snap<X>[k] == snap<X[k]>."""
    m = re.fullmatch(r"snap<(.+)>((?:\[-?\d+\])+)", t)
    return f"snap<{m.group(1)}{m.group(2)}>" if m else t


def walk_body(ps):
    for p in ps:
        yield p
        for e in p.evs:
            if e.kind == "loop":
                yield from walk_body(e.extra["paths"])


def revalidate_head(ctx, RV, gpaths, ci):
    """The head read before the lock was dropped must be compared by identity with the current head, under the lock,
    before popleft (shared by C17 and C08: without it an element pulled out by remove() is delivered as well)."""
    npop = 0
    for p in walk_body(gpaths):
        pops = [i for i, e in enumerate(p.evs) if e.kind == "call" and re.fullmatch(r"self\._queue\.(popleft|pop)", e.extra.get("func", ""))]
        for i in pops:
            npop += 1
            acq = max([j for j, e in enumerate(p.evs[:i]) if e.kind == "acquire"], default=None)
            conds = [e for e in p.evs[(acq or 0) : i] if e.kind == "cond" and e.extra.get("truth")]
            # frozen locals are read through what they are snapshots of: the element component of the head read earlier
            snaps = snapshot_names(p.evs[:i])
            cur = f"{HEAD}[0]"
            ident = []
            for c in conds:
                mm = re.fullmatch(r"(.+) is (.+)", c.text)
                if mm:
                    a, b = (snap_canon(x, snaps) for x in mm.groups())
                    # identity of the element component, or of the whole entry put() appended (a fresh tuple per put: the stronger test)
                    if {a, b} in ({cur, f"snap<{cur}>"}, {HEAD, f"snap<{HEAD}>"}):
                        ident.append(c)
            validated = {n for c in ident for n in re.findall(r"\w+'", c.text)}
            ctx.check(
                acq is not None and bool(ident),
                RV,
                f"{CLS}.get popleft",
                "popleft() is not preceded, in the same critical section, by an identity comparison of the current head with the head read "
                "before the lock was dropped: an element removed by remove() meanwhile is returned as well (duplicate), or another element is "
                "handed out before its delay (its partner then arrives unpaired)",
                f"{ci.module.relpath}:{p.evs[i].line}",
                {"conds_in_section": [c.text for c in conds]},
            )
            ret = [e for e in p.evs[i:] if e.kind == "return" and e.depth == 0]  # of get() itself, not of a helper inlined into it
            # (the element component of what popleft() itself returned is the head that was just validated, in the same critical section)
            popped_itself = bool(ret) and bool(ident) and re.fullmatch(r"self\._queue\.(popleft\(\)|pop\(0\))\[0\]", ret[0].text) is not None
            ctx.check(popped_itself or (bool(ret) and snap_component(snap_canon(ret[0].text, snaps)) == f"snap<{cur}>" and set(re.findall(r"\w+'", ret[0].text)) <= validated), RV, f"{CLS}.get returns the validated head", "get() does not return the element it validated", f"{ci.module.relpath}:{p.evs[i].line}")
    if npop == 0:
        raise AnalysisError("anchor vanished: no popleft in DelayedQueue.get")


def put_layout(P):
    """(index of the insert-time component, index of the delay flag, clock function text) of the tuples put() appends."""
    ci = P.cls(CLS)
    fi = ci.methods.get("put")
    if fi is None:
        raise AnalysisError("anchor vanished: DelayedQueue.put")
    params = [a.arg for a in fi.node.args.args + fi.node.args.kwonlyargs if a.arg != "self"]
    for n in ast.walk(fi.node):
        if isinstance(n, ast.Call) and isinstance(n.func, ast.Attribute) and n.func.attr == "append" and dotted(n.func.value) == "self._queue" and n.args:
            tup = n.args[0]
            if isinstance(tup, ast.Name):  # the entry is built in a local first
                vals = [a.value for a in ast.walk(fi.node) if isinstance(a, ast.Assign) and len(a.targets) == 1 and isinstance(a.targets[0], ast.Name) and a.targets[0].id == tup.id]
                tup = vals[0] if len(vals) == 1 else tup
            if not isinstance(tup, ast.Tuple):
                continue
            t_idx = d_idx = clock = None
            for i, el in enumerate(tup.elts):
                if isinstance(el, ast.Call) and dotted(el.func) in ("time.time", "time.monotonic", "time.perf_counter"):
                    t_idx, clock = i, dotted(el.func)
                elif isinstance(el, ast.Name) and len(params) > 1 and el.id == params[1]:
                    d_idx = i
            if t_idx is not None and d_idx is not None:
                return t_idx, d_idx, clock
    raise AnalysisError("anchor vanished: put() does not append (element, clock(), delay)")


def linear(t, atoms):
    """Coefficients of `t` over the atom classifier `atoms(node) -> name | None`; None if `t` is not linear in them."""
    if isinstance(t, ast.BinOp) and isinstance(t.op, (ast.Add, ast.Sub)):
        a, b = linear(t.left, atoms), linear(t.right, atoms)
        if a is None or b is None:
            return None
        sign = 1 if isinstance(t.op, ast.Add) else -1
        out = dict(a)
        for k, v in b.items():
            out[k] = out.get(k, 0) + sign * v
        return out
    if isinstance(t, ast.UnaryOp) and isinstance(t.op, ast.USub):
        a = linear(t.operand, atoms)
        return None if a is None else {k: -v for k, v in a.items()}
    if isinstance(t, ast.Constant) and isinstance(t.value, (int, float)) and t.value == 0:
        return {}
    k = atoms(t)
    return None if k is None else {k: 1}


def delay_elapsed(ctx, RD, P, gpaths, ci):
    t_idx, d_idx, clock = put_layout(P)
    ctx.extra["queue_tuple_layout"] = {"insert_time": t_idx, "delay_flag": d_idx, "clock": clock}

    def atoms(n):
        txt = ast.unparse(n)
        if txt == f"self._queue[0][{t_idx}]":
            return "insert"
        if txt == "self.delay_sec":
            return "delay"
        if isinstance(n, ast.Call) and dotted(n.func) == clock and not n.args:
            return "now"
        return None

    def elapsed_fact(term, truth, env):
        """True iff the decided comparison establishes insert + delay - now <= 0 (boundary-insensitive)."""
        if isinstance(term, ast.UnaryOp) and isinstance(term.op, ast.Not):
            return elapsed_fact(term.operand, not truth, env)
        if not (isinstance(term, ast.Compare) and len(term.ops) == 1):
            return False
        op = term.ops[0]
        if not isinstance(op, (ast.Gt, ast.GtE, ast.Lt, ast.LtE)):
            return False

        class _S(ast.NodeTransformer):
            def visit_Name(self, n):
                return env.get(n.id, n)

        import copy

        diff = ast.BinOp(_S().visit(copy.deepcopy(term.left)), ast.Sub(), _S().visit(copy.deepcopy(term.comparators[0])))
        lf = linear(diff, atoms)
        if lf is None:
            return False
        lf = {k: v for k, v in lf.items() if v}
        positive = isinstance(op, (ast.Gt, ast.GtE)) == bool(truth)  # the established fact is  diff > 0  (True) or diff < 0 (False)
        if lf == {"insert": 1, "delay": 1, "now": -1}:
            return not positive
        if lf == {"insert": -1, "delay": -1, "now": 1}:
            return positive
        return False

    def blocking(e):
        if e.kind == "wait":
            return True
        if e.kind == "call" and e.extra.get("func", "") in ("time.sleep", "sleep"):
            return True
        return False

    def loop_env(L):
        """For a loop that blocks: the variables re-assigned, after the last blocking operation of every iteration, from a fresh
        clock read -> their defining terms (keyed by the engine's name for the value after the loop)."""
        env = {}
        line = None
        for b in L.extra["paths"]:
            if b.outcome is not NORMAL and b.outcome[0] not in ("continue",):
                continue
            last_block = max([i for i, e in enumerate(b.evs) if blocking(e)], default=-1)
            for i, e in enumerate(b.evs):
                if e.kind == "assign" and i > last_block and isinstance(e.extra.get("term"), ast.AST):
                    env.setdefault(e.extra["name"], []).append(e.extra["term"])
        return env

    # the stamp is taken inside the critical section that inserts the element: a stamp read before the lock was obtained is
    # older than the insertion by however long the producer waited for the lock, and that wait comes off the delay
    pf = ci.methods.get("put")
    al = lock_aliases(P, CLS)
    nstamp, okst = 0, True
    for e, held, _p in walk_with_locks(Enumerator(QCfg(P)).run(pf, selfcls=CLS), lambda t: al.get(t, t)):
        if e.kind == "call" and e.extra.get("func") == clock:
            nstamp += 1
            if held.get("self._lock", 0) <= 0:
                okst = False
    ctx.check(okst and nstamp >= 1, RD, f"{CLS}.put stamps the element with the queue lock held", "the insertion time is read before the queue lock is held (or not at all): time spent waiting for the lock -- e.g. while remove() runs its predicate -- is subtracted from the delay get() enforces, and a MOVED_FROM is handed out early", pf.loc)

    ninst = 0
    for p in walk_body(gpaths):
        pops = [i for i, e in enumerate(p.evs) if e.kind == "call" and re.fullmatch(r"self\._queue\.(popleft|pop)", e.extra.get("func", ""))]
        if not pops:
            continue
        i = pops[0]
        flag = [e for e in p.evs[:i] if e.kind == "cond" and e.text == f"self._queue[0][{d_idx}]"]
        if flag and not flag[-1].extra.get("truth"):
            continue  # an element without delay
        heads = [j for j, e in enumerate(p.evs[:i]) if e.kind == "subscript" and e.extra.get("container") == "self._queue" and e.extra.get("key") == "0"]
        start = heads[0] if heads else 0
        last_block = None
        env = {}
        for j in range(start, i):
            e = p.evs[j]
            if blocking(e):
                last_block, env = j, {}
            elif e.kind == "loop" and any(blocking(x) for b in walk_body(e.extra["paths"]) for x in b.evs):
                last_block = j
                env = {}
                for name, terms in loop_env(e).items():
                    if len({ast.unparse(t) for t in terms}) == 1:
                        for k in (f"{name}@afterL{getattr(e.node, 'lineno', 0)}",):
                            env[k] = terms[0]
        ok = False
        for j in range((last_block if last_block is not None else start) + 1, i):
            e = p.evs[j]
            if e.kind == "cond" and isinstance(e.extra.get("term"), ast.AST) and elapsed_fact(e.extra["term"], e.extra.get("truth"), env):
                ok = True
        ninst += 1
        blk = p.evs[last_block] if last_block is not None else None
        ctx.check(
            ok,
            RD,
            f"{CLS}.get hand-out after {('`' + (blk.raw or blk.text)[:50] + '`') if blk is not None else 'no blocking operation'}",
            "a delayed head is popped on a path where, after the last blocking operation"
            + (f" `{(blk.raw or blk.text)[:60]}`" if blk is not None else "")
            + f", nothing establishes `self._queue[0][{t_idx}] + self.delay_sec - {clock}() <= 0`: a notify (any later put) or an early wake-up hands the "
            "first half of a move out before its partner had the full delay to arrive (the rename is delivered as two unpaired halves)",
            f"{ci.module.relpath}:{p.evs[i].line}",
            {"path_tail": [x.text[:70] for x in p.evs[max(start, i - 12) : i] if x.kind in ("cond", "call", "wait", "loop")]},
        )
    if ninst == 0:
        raise AnalysisError("anchor vanished: get() never pops a delayed head")


def remove_is_exhaustive(ctx, R, P, ci, accept_shadow_counter: bool) -> None:
    """remove() may return None only after the loop over the live deque ran to its end (nothing matched).  A fast path that gives
    up earlier on the strength of derived state is, for the queue's own contract (C17), a different function: an element the
    predicate would match is not found.  For the pairing property (C08) such a fast path is acceptable if the derived state is a
    counter kept coherent with the deque: incremented in the critical section of the append, and decremented exactly in the critical
    sections that actually take an element out (`accept_shadow_counter`)."""
    al = lock_aliases(P, CLS)
    canon = lambda t: al.get(t, t)  # noqa: E731
    rm = ci.methods.get("remove")
    if rm is None:
        raise AnalysisError("anchor vanished: DelayedQueue.remove")
    paths = Enumerator(QCfg(P)).run(rm, selfcls=CLS)
    n = 0
    for p in paths:
        if not (p.outcome is NORMAL or (p.outcome[0] == "return" and (p.outcome[1] is None or render_none(p.outcome[1])))):
            continue
        n += 1
        scanned = any(e.kind == "loop" and "self._queue" in e.text for e in p.evs) and not any(e.kind == "final_iter" for e in p.evs)
        cc = p.conds()
        empty = cc.get("0 < len(self._queue)") is False or cc.get("len(self._queue) > 0") is False or cc.get("len(self._queue) == 0") is True or cc.get("self._queue") is False or cc.get("len(self._queue)") is False
        scanned = scanned or empty  # nothing to scan
        if scanned:
            ctx.ok(R, f"{CLS}.remove gives up only after scanning the live deque [{p.sig()[:50]}]", rm.loc)
            continue
        guards = [e for e in p.evs if e.kind == "cond" and re.fullmatch(r"self\.(_\w+)( (==|<=) 0)?", e.text) and not e.text.startswith("self._queue")]
        fld = guards[-1].text.split(" ")[0].split(".")[1] if guards else None
        why = "remove() returns None on a path that never looks at the queued elements" + (f" (guarded by `{guards[-1].text}` = {guards[-1].extra.get('truth')})" if guards else "")
        if accept_shadow_counter and fld:
            okc, msg = shadow_counter_coherent(P, ci, fld, canon)
            ctx.check(okc, R, f"{CLS}.remove fast path on `{fld}`", why + f": acceptable only if `{fld}` counts queued elements coherently, but {msg} -- the counter drifts, the fast path then skips the scan although a partner is waiting, and both halves of a rename are delivered alone", rm.loc)
        else:
            ctx.viol(R, f"{CLS}.remove gives up without scanning [{p.sig()[:50]}]", why + ": an element the predicate would match is not found (the queue's remove() is no longer 'the first element for which the predicate holds')", rm.loc)
    if n == 0:
        raise AnalysisError("DelayedQueue.remove: no path returns None")


def shadow_counter_coherent(P, ci, fld, canon):
    """(ok, message): every critical section (and every loop iteration inside one) changes `self.<fld>` as often as it changes the
    deque's population, in the same direction, with the queue lock held."""

    def scan(m, p, held0):
        held = held0
        cnt = {"inc": 0, "dec": 0, "add": 0, "rem": 0}

        def settle():
            ok = cnt["inc"] == cnt["add"] and cnt["dec"] == cnt["rem"]
            return ok, f"{m}(): one critical section changes `{fld}` by +{cnt['inc']}/-{cnt['dec']} but the deque by +{cnt['add']}/-{cnt['rem']} elements [{p.sig()[:60]}]"

        for e in p.evs:
            if e.kind == "acquire":
                held += 1
                if held == 1:
                    cnt = dict.fromkeys(cnt, 0)
            elif e.kind == "release":
                held -= 1
                if held == 0:
                    ok, msg = settle()
                    if not ok:
                        return False, msg
            elif e.kind == "loop":
                for b in e.extra["paths"]:
                    ok, msg = scan(m, b, held)
                    if not ok:
                        return False, msg
            elif e.kind == "store" and e.extra.get("attr") == fld and e.extra.get("recv") == "self":
                v = e.extra.get("value", "")
                if v.startswith(f"self.{fld} + "):
                    cnt["inc"] += 1
                elif v.startswith(f"self.{fld} - "):
                    cnt["dec"] += 1
                else:
                    return False, f"{m}() assigns `{fld}` = `{v[:40]}`"
                if held <= 0:
                    return False, f"{m}() changes `{fld}` without the queue lock"
            elif e.kind == "call" and re.fullmatch(r"self\._queue\.(append|appendleft)", e.extra.get("func", "")):
                cnt["add"] += 1
            elif (e.kind == "call" and re.fullmatch(r"self\._queue\.(popleft|pop)", e.extra.get("func", ""))) or (e.kind == "del" and e.extra.get("container") == "self._queue"):
                cnt["rem"] += 1
        if any(cnt.values()):
            return settle()
        return True, ""

    for m, fi in ci.methods.items():
        if m == "__init__":
            continue
        for p in Enumerator(QCfg(P)).run(fi, selfcls=CLS):
            ok, msg = scan(m, p, 0)
            if not ok:
                return False, msg
    return True, ""


def search_and_delete_atomic(ctx, RA, all_paths, ci) -> None:
    """Every deletion from the middle of the deque happens in the critical section in which the element (or its index) was found in
    the live deque (shared by C17 and C08: otherwise get() may hand the element out between the search and the deletion)."""
    ndel = 0
    own = ctx.P.public_owners(CLS)
    for m, paths in all_paths.items():
        if own.get(m, [m]) != [m]:
            continue  # a private helper is judged inside the public operations that call it (where it is inlined)

        def scan(ps, loop_iter, released_in_iter):
            nonlocal ndel
            for p in ps:
                rel = False
                outer_iter = loop_iter
                for e in p.evs:
                    if e.kind == "release":
                        rel = True
                    if e.kind == "final_iter":
                        loop_iter, rel = e.text, False  # the events that follow are the last iteration of that loop
                    if e.kind == "del" and e.extra.get("container") == "self._queue":
                        ndel += 1
                        k = e.extra.get("key", "")
                        live = k.startswith("$elem(enumerate(self._queue))")
                        # ... or a counter of a while loop bounded by the live length: `while i < len(self._queue): ... del self._queue[i]`
                        mcnt = re.fullmatch(r"(\w+) < len\(self\._queue\)", loop_iter or "")
                        counted = bool(mcnt) and re.fullmatch(rf"{mcnt.group(1)}@L\d+", k) is not None
                        ctx.check(
                            (live and not rel and loop_iter == "enumerate(self._queue)") or (counted and not rel),
                            RA,
                            f"{CLS}.{m} :: {e.raw}",
                            f"the index `{k[:60]}` was not obtained from the live deque inside this critical section (found over `{loop_iter}`, lock released in between: {rel or not live}): "
                            "a concurrent get() shifts the indices and another element is deleted (one element lost, one handed out twice)",
                            f"{ci.module.relpath}:{e.line}",
                        )
                    if e.kind == "call" and e.extra.get("func") == "self._queue.remove":
                        ndel += 1
                        v = (e.extra.get("args") or [""])[0]
                        live = v.startswith("$elem(self._queue)")
                        ctx.check(
                            live and not rel,
                            RA,
                            f"{CLS}.{m} :: {e.raw}",
                            f"the element `{v[:60]}` handed to deque.remove() was not found in the live deque inside this critical section (lock released in between: {rel}; found over `{loop_iter}`): "
                            "a concurrent get() may have handed it out meanwhile — it is then delivered twice (alone and in a pair), or the removal fails",
                            f"{ci.module.relpath}:{e.line}",
                        )
                    if e.kind == "loop":
                        scan(e.extra["paths"], e.text, rel)
                loop_iter = outer_iter
        scan(paths, None, False)
    if ndel == 0:
        ctx.ok(RA, "no indexed deletion on the deque", ci.loc, nontrivial=False)


def deque_unbounded(P):
    """(holds, why, location): the delay queue's deque can hold any number of elements.  `deque(maxlen=n)` silently drops its *head*
    when a full deque is appended to -- the oldest element, typically the unmatched first half of a rename the consumer is waiting
    on -- so a bounded deque loses elements that were never handed out (shared by C17, C08 and C01)."""
    ci = P.cls(CLS)
    init = ci.methods.get("__init__")
    if init is None:
        raise AnalysisError("anchor vanished: DelayedQueue.__init__")
    ctor = None
    for n in ast.walk(init.node):
        tgt = n.targets[0] if isinstance(n, ast.Assign) and len(n.targets) == 1 else (n.target if isinstance(n, ast.AnnAssign) else None)
        if isinstance(tgt, ast.Attribute) and tgt.attr == "_queue" and isinstance(getattr(n, "value", None), ast.Call):
            ctor = n.value
    if ctor is None or (dotted(ctor.func) or "").split(".")[-1] != "deque":
        raise AnalysisError("DelayedQueue.__init__: the deque construction was not found")
    bound = ctor.args[1] if len(ctor.args) > 1 else next((k.value for k in ctor.keywords if k.arg == "maxlen"), None)
    loc = f"{ci.module.relpath}:{ctor.lineno}"
    if bound is None or (isinstance(bound, ast.Constant) and bound.value is None):
        return True, "", loc
    if isinstance(bound, ast.Name):
        params = [a.arg for a in init.node.args.args[1:]] + [a.arg for a in init.node.args.kwonlyargs]
        defaults = dict(zip([a.arg for a in init.node.args.args][len(init.node.args.args) - len(init.node.args.defaults) :], init.node.args.defaults))
        defaults.update({a.arg: d for a, d in zip(init.node.args.kwonlyargs, init.node.args.kw_defaults) if d is not None})
        if bound.id in params and isinstance(defaults.get(bound.id), ast.Constant) and defaults[bound.id].value is None:
            pos = params.index(bound.id) if bound.id in [a.arg for a in init.node.args.args[1:]] else None
            for m in P.modules.values():
                for c in ast.walk(m.tree):
                    if isinstance(c, ast.Call) and (dotted(c.func.value if isinstance(c.func, ast.Subscript) else c.func) or "").split(".")[-1] == CLS:
                        given = next((k.value for k in c.keywords if k.arg == bound.id), c.args[pos] if pos is not None and len(c.args) > pos else None)
                        if given is not None and not (isinstance(given, ast.Constant) and given.value is None):
                            return False, f"`{ast.unparse(c)[:80]}` bounds the delay queue's deque (maxlen={ast.unparse(given)}): appending to a full deque drops its head, the oldest element not yet handed out", f"{m.relpath}:{c.lineno}"
            return True, "", loc
    return False, f"the deque is bounded (`{ast.unparse(ctor)[:60]}`): appending to a full deque drops its head, the oldest element not yet handed out", loc


def get_paths(P):
    ci = P.cls(CLS)
    fi = ci.methods.get("get")
    if fi is None:
        raise AnalysisError("anchor vanished: DelayedQueue.get")
    return Enumerator(QCfg(P)).run(fi, selfcls=CLS), ci


def run(ctx) -> None:
    P = ctx.P
    RG = ctx.rule("C17/guarded-by", "every access to the deque is made with the queue lock held (explicit acquire/release paths included)", floor=8)
    RB = ctx.rule("C17/lock-balanced", "every acquire is released on every path; explicit acquire regions contain only non-raising operations", floor=4)
    RM = ctx.rule("C17/monitor-discipline", "the untimed wait sits in a loop whose predicate reads the state every notifier writes; every writer of predicate state notifies under the lock", floor=3)
    RS = ctx.rule("C17/no-sleep-under-lock", "time.sleep is never called with the queue lock held (remove() must be able to pull a partner out meanwhile)", floor=1)
    RV = ctx.rule("C17/revalidate-head", "the head read before the lock was dropped is compared by identity with the current head, under the lock, before popleft", floor=1)
    RC = ctx.rule("C17/closed-means-end-marker", "every path of get() that observes the closed flag returns None", floor=1)
    RF = ctx.rule("C17/fifo-ops", "enqueue by append, dequeue by popleft; other removal only through remove(predicate)", floor=3)

    ci = P.cls(CLS)
    aliases = lock_aliases(P, CLS)
    canon = lambda t: aliases.get(t, t)  # noqa: E731
    ctx.extra["lock_aliases"] = aliases
    # a private helper is judged inside the public operations that call it (where it is inlined): `_has_head_or_closed()` handed to
    # wait_for runs with the lock the caller holds
    owners_ = P.public_owners(CLS)
    entries = [m for m in ci.methods if m != "__init__" and owners_.get(m, [m]) == [m]]
    cfg = QCfg(P)
    res, npaths = guarded_by(P, CLS, ("_queue",), "self._lock", entries, cfg)
    ctx.count("paths", npaths)
    for r in res:
        ctx.check(
            r["held"],
            RG,
            f"{r['fn']} :: {r['stmt']}",
            "deque accessed without the queue lock",
            f"{ci.module.relpath}:{r['line']}",
        )
    ctx.tabled("C17/guarded-by __init__", "object not yet shared")

    en = Enumerator(cfg)
    all_paths = {}
    for m in entries:
        fi = ci.methods[m]
        paths = en.run(fi, selfcls=CLS)
        all_paths[m] = paths

        # ---- balance: walk every path (loop bodies separately: the lock set at loop back must equal the one at loop entry)
        def balanced(ps, entry_held, where):
            ok, msg = True, ""
            for p in ps:
                held = dict(entry_held)
                for e in p.evs:
                    if e.kind == "acquire":
                        k = canon(e.text)
                        if held.get(k, 0) > 0 and lockkind == "Lock":
                            ok, msg = False, f"non-reentrant lock {k} acquired while held (self-deadlock)"
                        held[k] = held.get(k, 0) + 1
                    elif e.kind == "release":
                        k = canon(e.text)
                        held[k] = held.get(k, 0) - 1
                        if held[k] < 0:
                            ok, msg = False, f"{k} released without being held"
                    elif e.kind == "wait":
                        if held.get(canon(e.text), 0) <= 0:
                            ok, msg = False, "wait() without holding the condition's lock"
                    elif e.kind == "loop":
                        o2, m2 = balanced(e.extra["paths"], {k: v for k, v in held.items()}, where + "/loop")
                        if not o2:
                            ok, msg = o2, m2
                end_ok = all(v == entry_held.get(k, 0) for k, v in held.items()) if (p.outcome in (NORMAL, ("continue",), ("break",)) and where.endswith("/loop")) else all(v == 0 for v in held.values()) if not where.endswith("/loop") else True
                if where.endswith("/loop") and p.outcome[0] in ("return", "raise"):
                    end_ok = True  # continues in the enclosing path (final iteration), which is checked at top level
                if not end_ok:
                    ok, msg = False, f"path leaves {where} with lock counts {held} ({p.outcome[0]})"
            return ok, msg

        from ..threads import lock_kind

        lockkind = lock_kind(P, CLS, "_lock") or "Lock"
        ok, msg = balanced(paths, {}, m)
        ctx.check(ok, RB, f"{CLS}.{m}", msg, fi.loc)

        # explicit acquire regions: only non-raising operations (no try/finally protects them)
        for e, held, p in walk_with_locks(paths, canon):
            if e.kind == "call" and any(v > 0 for v in held.values()):
                # is the enclosing hold an explicit one?
                pass
        explicit = any(e.kind == "acquire" and e.extra.get("via") == "call" for p in paths for e in p.flat())
        # an explicit acquire that is immediately followed by try/finally releasing the same lock is protected like `with`
        protected = False
        body = fi.node.body
        for blk in [n.body for n in ast.walk(fi.node) if hasattr(n, "body") and isinstance(getattr(n, "body"), list)]:
            for a, b in zip(blk, blk[1:]):
                if isinstance(a, ast.Expr) and isinstance(a.value, ast.Call) and isinstance(a.value.func, ast.Attribute) and a.value.func.attr == "acquire" and isinstance(b, ast.Try) and b.finalbody:
                    rel = [x for x in ast.walk(ast.Module(b.finalbody, [])) if isinstance(x, ast.Call) and isinstance(x.func, ast.Attribute) and x.func.attr == "release" and canon(ast.unparse(x.func.value)) == canon(ast.unparse(a.value.func.value))]
                    if rel:
                        protected = True
        nacq = sum(1 for n in ast.walk(fi.node) if isinstance(n, ast.Call) and isinstance(n.func, ast.Attribute) and n.func.attr == "acquire")
        nprot = sum(1 for blk in [n.body for n in ast.walk(fi.node) if hasattr(n, "body") and isinstance(getattr(n, "body"), list)] for a, b in zip(blk, blk[1:]) if isinstance(a, ast.Expr) and isinstance(a.value, ast.Call) and isinstance(a.value.func, ast.Attribute) and a.value.func.attr == "acquire" and isinstance(b, ast.Try) and b.finalbody)
        if explicit and nprot >= nacq and protected:
            ctx.ok(RB, f"{CLS}.{m} explicit-acquire regions protected by try/finally", fi.loc)
        elif explicit:
            bad = []
            for p in paths:
                def scan(evs, depth_explicit):
                    d = depth_explicit
                    for e in evs:
                        if e.kind == "acquire" and e.extra.get("via") == "call":
                            d += 1
                        elif e.kind == "release" and e.extra.get("via") == "call":
                            d -= 1
                        elif e.kind == "call" and d > 0:
                            f = e.extra.get("func", "")
                            if f not in NONRAISING:
                                bad.append(f)
                        elif e.kind == "loop":
                            for b in e.extra["paths"]:
                                scan(b.evs, d)
                scan(p.evs, 0)
            ctx.check(not bad, RB, f"{CLS}.{m} explicit-acquire region", f"calls that may raise inside an acquire()/release() region without try/finally: {sorted(set(bad))}", fi.loc, nontrivial=True)

    # ---------------------------------------------------------------- monitor discipline
    waits = []
    for m, paths in all_paths.items():
        def find_waits(ps, loop_stack):
            for p in ps:
                for e in p.evs:
                    if e.kind == "wait" and not e.extra.get("timed"):
                        waits.append((m, e, list(loop_stack), p))
                    if e.kind == "loop":
                        find_waits(e.extra["paths"], loop_stack + [e])
        find_waits(paths, [])
    if not waits:
        raise AnalysisError("anchor vanished: no untimed Condition.wait() in DelayedQueue")
    pred_fields: set[str] = set()
    seen_w = set()
    from ..monitor import predicate_fields

    per_wait: dict[int, set] = {}
    for m, w, stack, p in waits:
        f_ = predicate_fields(P, CLS, p.evs, w) if stack else set()
        per_wait[id(w.node)] = f_ if id(w.node) not in per_wait else (per_wait[id(w.node)] & f_)
    for m, w, stack, p in waits:
        if id(w.node) in seen_w:
            continue
        seen_w.add(id(w.node))
        fields = per_wait[id(w.node)]  # what is tested under the lock before every wait, on the iteration that waits
        pred_fields |= fields
        ctx.check(bool(fields), RM, f"{CLS}.{m} wait-in-predicate-loop", "untimed wait() is not inside a loop that tests shared state under the lock before every wait (a notify before the wait is lost)", f"{ci.module.relpath}:{w.line}", {"loops": [L.raw for L in stack], "predicate_fields": sorted(fields)})
    # writers of predicate fields and notifiers
    for m, paths in all_paths.items():
        writes_any = set()
        notifies = False
        ok, msg = True, ""
        for e, held, p in walk_with_locks(paths, canon):
            if e.kind == "store" and e.extra.get("attr") in pred_fields and e.extra.get("recv") == "self":
                writes_any.add(e.extra["attr"])
            if e.kind == "call":
                f = e.extra.get("func", "")
                mm = re.fullmatch(r"self\.(_\w+)\.(append|appendleft|extend|insert)", f)
                if mm and mm.group(1) in pred_fields:
                    writes_any.add(mm.group(1))
            if e.kind == "notify":
                notifies = True
                if held.get("self._lock", 0) <= 0:
                    ok, msg = False, "notify() without holding the condition's lock"
        if notifies:
            ctx.check(ok and bool(writes_any), RM, f"{CLS}.{m} notifier-writes-predicate", msg or "notifies without having written any state the wait predicate reads (the woken consumer re-checks and blocks again)", ci.methods[m].loc, {"writes": sorted(writes_any), "predicate_fields": sorted(pred_fields)})
            # order: on each path the write precedes the notify
            for p in paths:
                idx_w = [i for i, e in enumerate(p.evs) if (e.kind == "store" and e.extra.get("attr") in pred_fields) or (e.kind == "call" and re.fullmatch(r"self\.(_\w+)\.(append|appendleft|extend|insert)", e.extra.get("func", "")))]
                idx_n = [i for i, e in enumerate(p.evs) if e.kind == "notify"]
                if idx_n and (not idx_w or min(idx_w) > max(idx_n)):
                    ctx.viol(RM, f"{CLS}.{m} write-before-notify", "state is written after the notify", ci.methods[m].loc)
        elif writes_any:
            ctx.viol(RM, f"{CLS}.{m} writer-notifies", f"writes {sorted(writes_any)} (read by the wait predicate) but never notifies: a blocked get() is not woken", ci.methods[m].loc)
    ctx.tabled("C17/monitor-discipline remove/get shrink the deque without notify", "shrinking cannot make the wait predicate false->true for a waiter")
    ctx.tabled("C17 close(): `_closed = True` before the locked notify", "monotonic flag set before a notify made under the lock: a waiter either sees it before waiting or is woken")

    # ---------------------------------------------------------------- no sleep under the lock
    nsleep = 0
    for m, paths in all_paths.items():
        for e, held, p in walk_with_locks(paths, canon):
            if e.kind == "call" and e.extra.get("func", "") in ("time.sleep", "sleep"):
                nsleep += 1
                ctx.check(not any(v > 0 for v in held.values()), RS, f"{CLS}.{m} :: {e.raw}", "sleeping with the queue lock held blocks remove()/put(): the partner of a move cannot be pulled out of the queue", f"{ci.module.relpath}:{e.line}")
    if nsleep == 0:
        ctx.ok(RS, "no time.sleep in DelayedQueue", ci.loc, nontrivial=False)

    # ---------------------------------------------------------------- revalidate head / closed => None
    gpaths = all_paths.get("get")
    if gpaths is None:
        raise AnalysisError("anchor vanished: DelayedQueue.get")
    revalidate_head(ctx, RV, gpaths, ci)
    okc, msgc = True, ""
    nclosed = 0

    def outside_wait_loops(ps):
        """paths of get() and of its loops, except the body paths of the loop that waits: an iteration of that loop which sees the
        flag and leaves the loop (break, or the loop test) is continued by the enclosing path, into which the engine splices it"""
        for p in ps:
            yield p
            for e in p.evs:
                if e.kind == "loop" and not any(x.kind == "wait" for b in e.extra["paths"] for x in b.evs):
                    yield from outside_wait_loops(e.extra["paths"])

    for p in outside_wait_loops(gpaths):
        c = p.conds().get("self._closed")
        if c is True:
            nclosed += 1
            if not (p.outcome[0] == "return" and render_none(p.outcome[1])):
                okc, msgc = False, f"a path that observes _closed does not return None ({p.outcome[0]})"
    ctx.check(okc and nclosed > 0, RC, f"{CLS}.get", msgc or "get() never tests the closed flag", ci.methods["get"].loc)

    # ---------------------------------------------------------------- wait polarity, closed flag, guarded head access, remove()
    RP = ctx.rule("C17/wait-and-head-access", "get() waits exactly while the deque is empty and the queue is not closed; every read of the head is dominated, in the same critical section and after the last wait, by a test that the deque is non-empty; close() sets the closed flag", floor=3)
    RX = ctx.rule("C17/remove-returns-the-match", "remove() deletes and returns the first element for which the predicate holds, under the lock, and returns None (deleting nothing) otherwise", floor=1)

    def nonempty_fact(e):
        """+1 if the cond event establishes a non-empty deque, -1 if it establishes an empty one, 0 otherwise."""
        if e.kind != "cond":
            return 0
        t, truth = e.text, bool(e.extra.get("truth"))
        if re.fullmatch(r"len\(self\._queue\) == 0", t):
            return -1 if truth else 1
        if re.fullmatch(r"len\(self\._queue\) (> 0|>= 1|!= 0)", t):
            return 1 if truth else -1
        if t == "self._queue" or t == "len(self._queue)":
            return 1 if truth else -1
        return 0

    okw = okh = True
    msgw = msgh = ""
    nwaits = nheads = 0
    for p in walk_body(gpaths):
        known = 0  # knowledge about emptiness valid in the current critical section
        closed_known = None
        for e in p.evs:
            if e.kind in ("acquire", "release"):
                known, closed_known = 0, None
            f = nonempty_fact(e)
            if f:
                known = f
            if e.kind == "cond" and e.text == "self._closed":
                closed_known = bool(e.extra.get("truth"))
            if e.kind == "wait" and not e.extra.get("timed"):
                nwaits += 1
                if not (known == -1 and closed_known is False):
                    okw, msgw = False, f"wait() is reached with emptiness={'empty' if known == -1 else 'non-empty' if known == 1 else 'unknown'}, closed={closed_known}: the consumer must wait exactly while the deque is empty and the queue is open (otherwise it sleeps on a non-empty queue or after close())"
                known, closed_known = 0, None
            if e.kind == "subscript" and e.extra.get("container") == "self._queue" and e.extra.get("key") == "0":
                nheads += 1
                if known != 1:
                    okh, msgh = False, "the head `self._queue[0]` is read without a non-emptiness test in the same critical section after the last wait: a partner pulled out by remove() between the wake-up and the re-acquire leaves the deque empty -> IndexError in the emitter thread with the lock held"
    ctx.check(okw and nwaits > 0, RP, f"{CLS}.get waits iff empty and open", msgw or "no untimed wait found", ci.methods["get"].loc)
    ctx.check(okh and nheads > 0, RP, f"{CLS}.get head access guarded", msgh or "no head access found", ci.methods["get"].loc)
    cl = all_paths.get("close")
    okcl = bool(cl) and all(any(e.kind == "store" and e.extra.get("attr") == "_closed" and e.extra.get("value") == "True" for e in p.evs) for p in cl)
    ctx.check(okcl, RP, f"{CLS}.close sets the closed flag", "close() does not set _closed = True on every path: a blocked or later get() never sees the end marker", ci.methods["close"].loc if "close" in ci.methods else ci.loc)

    rp_ = all_paths.get("remove")
    if rp_ is None:
        raise AnalysisError("anchor vanished: DelayedQueue.remove")
    okr, msgr = True, ""
    ndel2 = 0
    for p in rp_:
        dels = [i for i, e in enumerate(p.evs) if is_deletion(e)]
        matched = [e for e in p.evs if e.kind == "cond" and re.fullmatch(r"predicate\(.*\)", e.text)]
        for i in dels:
            if p.evs[i].kind == "call":
                # removal by value: the value must be the very element the predicate held for (its entry)
                v = (p.evs[i].extra.get("args") or [""])[0]
                if not (matched and matched[-1].extra.get("truth") and v and v in matched[-1].text):
                    okr, msgr = False, f"`self._queue.remove({v[:40]})` takes out something other than the element the predicate held for"
        ret = p.outcome[1] if p.outcome[0] == "return" else None
        rtxt = ast.unparse(ret) if ret is not None else None
        if dels:
            ndel2 += 1
            last = matched[-1] if matched else None
            if last is None or not last.extra.get("truth"):
                okr, msgr = False, "an element is deleted although the predicate did not hold for it"
            elif not (rtxt and rtxt in last.text):
                okr, msgr = False, f"the deleted element is not the one returned (returns `{rtxt}`): it is lost"
        else:
            if rtxt not in (None, "None"):
                okr, msgr = False, f"remove() returns `{rtxt}` without deleting it from the deque: it will be handed out again by get()"
            if any(e.extra.get("truth") for e in matched):
                okr, msgr = False, "the predicate held for an element but nothing was deleted"
    ctx.check(okr and ndel2 > 0, RX, f"{CLS}.remove", msgr or "remove() never deletes", ci.methods["remove"].loc)

    # ---------------------------------------------------------------- the delay has elapsed when a delayed head is handed out
    RD = ctx.rule(
        "C17/delay-elapsed-before-hand-out",
        "on every path of get() that pops a delayed head, the last blocking operation (sleep, wait) before the pop is followed by a "
        "test establishing `insert time + delay_sec - now <= 0`, with `now` read after that operation from the clock put() stamps with "
        "(a single timed wait or sleep is not enough: a notify or an early wake-up ends it before the delay is over)",
        floor=1,
    )
    delay_elapsed(ctx, RD, P, gpaths, ci)

    # (whether remove() may give up without scanning is a question of the pairing property, not of this one: every element is
    # still handed out exactly once if it does -- see C08/partner-search-is-exhaustive)

    # ---------------------------------------------------------------- indexed deletion is atomic with the search
    RA = ctx.rule("C17/search-and-delete-atomic", "an element is deleted by index only inside the critical section in which that index was found by enumerating the live deque (no release in between, no snapshot)", floor=1)
    search_and_delete_atomic(ctx, RA, all_paths, ci)

    # ---------------------------------------------------------------- FIFO ops
    ops = {}
    # an operation made in a private helper belongs to the public operations that reach the helper through self-calls
    own = P.public_owners(CLS)
    owners = own.__getitem__
    for m, fi in ci.methods.items():
        for n in ast.walk(fi.node):
            if isinstance(n, ast.Call) and isinstance(n.func, ast.Attribute) and dotted(n.func.value) == "self._queue":
                ops.setdefault(n.func.attr, []).extend(owners(m))
            if isinstance(n, ast.Delete):
                for t in n.targets:
                    if isinstance(t, ast.Subscript) and dotted(t.value) == "self._queue":
                        ops.setdefault("del[]", []).extend(owners(m))
    ctx.extra["deque_ops"] = ops
    ctx.check(set(ops.get("append", [])) == {"put"} or ("put" in ops.get("append", [])), RF, "enqueue=append", f"put() does not enqueue with append ({ops})", ci.loc)
    ctx.check("get" in ops.get("popleft", []), RF, "dequeue=popleft", f"get() does not dequeue with popleft ({ops})", ci.loc)
    bad = {k: v for k, v in ops.items() if k in ("appendleft", "pop", "insert", "rotate", "reverse", "extendleft", "clear", "sort")}
    ctx.check(not bad, RF, "no order-changing deque operation", f"order-changing operations on the deque: {bad}", ci.loc)
    okb, whyb, locb = deque_unbounded(P)
    ctx.check(okb, RF, "the deque is unbounded", whyb, locb)
    ctx.check(set(ops.get("del[]", []) + ops.get("remove", [])) <= {"remove"}, RF, "indexed deletion only in remove()", f"deletion from the middle of the deque (del[] / deque.remove) in {sorted(set(ops.get('del[]', []) + ops.get('remove', [])))}", ci.loc)
    ctx.assumptions += ["threading.Condition/Lock semantics", "collections.deque append/popleft are FIFO"]


def render_none(t) -> bool:
    return isinstance(t, ast.Constant) and t.value is None


DQ = "utils/delayed_queue.py"
VARIANTS = [
    dict(name="B sleep inside the lock", expect="fire", rule="C17/", edits=[(DQ, "            head, insert_time, delay = self._queue[0]\n            self._not_empty.release()\n\n            # wait for delay if required\n            if delay:\n                time_left = insert_time + self.delay_sec - time.time()\n                while time_left > 0:\n                    time.sleep(time_left)\n                    time_left = insert_time + self.delay_sec - time.time()\n", "            head, insert_time, delay = self._queue[0]\n\n            # wait for delay if required\n            if delay:\n                time_left = insert_time + self.delay_sec - time.time()\n                while time_left > 0:\n                    time.sleep(time_left)\n                    time_left = insert_time + self.delay_sec - time.time()\n            self._not_empty.release()\n")]),
    dict(name="B drop head re-check", expect="fire", rule="C17/revalidate-head", edits=[(DQ, "if len(self._queue) > 0 and self._queue[0][0] is head:", "if len(self._queue) > 0:")]),
    dict(name="B close without notify", expect="fire", rule="C17/monitor-discipline", edits=[(DQ, "        self._not_empty.acquire()\n        self._not_empty.notify()\n        self._not_empty.release()\n\n    def get", "\n    def get")]),
    dict(name="B drop _closed from wait predicate", expect="fire", rule="C17/", edits=[(DQ, "while len(self._queue) == 0 and not self._closed:", "while len(self._queue) == 0:")]),
    dict(name="B wait without loop", expect="fire", rule="C17/monitor-discipline", edits=[(DQ, "            while len(self._queue) == 0 and not self._closed:\n                self._not_empty.wait()", "            if len(self._queue) == 0 and not self._closed:\n                self._not_empty.wait()")]),
    dict(name="B popleft -> pop", expect="fire", rule="C17/", edits=[(DQ, "self._queue.popleft()", "self._queue.pop()")]),
    dict(name="B missing release on closed branch", expect="fire", rule="C17/lock-balanced", edits=[(DQ, "            if self._closed:\n                self._not_empty.release()\n                return None", "            if self._closed:\n                return None")]),
    dict(name="B remove without lock", expect="fire", rule="C17/guarded-by", edits=[(DQ, "        with self._lock:\n            for i, (elem, *_) in enumerate(self._queue):", "        if True:\n            for i, (elem, *_) in enumerate(self._queue):")]),
    dict(name="B put without notify", expect="fire", rule="C17/monitor-discipline", edits=[(DQ, "        self._queue.append((element, time.time(), delay))\n        self._not_empty.notify()", "        self._queue.append((element, time.time(), delay))")]),
    dict(name="B closed returns head", expect="fire", rule="C17/", edits=[(DQ, "            if self._closed:\n                self._not_empty.release()\n                return None", "            if self._closed and len(self._queue) == 0:\n                self._not_empty.release()\n                return None")]),
    dict(name="B wait predicate polarity flipped", expect="fire", rule="C17/wait-and-head-access", edits=[(DQ, "while len(self._queue) == 0 and not self._closed:", "while len(self._queue) != 0 and not self._closed:")]),
    dict(name="B wait with if instead of while", expect="fire", rule="C17/", edits=[(DQ, "            while len(self._queue) == 0 and not self._closed:\n                self._not_empty.wait()", "            if not self._queue and not self._closed:\n                self._not_empty.wait()")]),
    dict(name="B close sets the flag to False", expect="fire", rule="C17/wait-and-head-access", edits=[(DQ, "        self._closed = True\n        # Interrupt", "        self._closed = False\n        # Interrupt")]),
    dict(name="B head popped without emptiness test", expect="fire", rule="C17/wait-and-head-access", edits=[(DQ, "if len(self._queue) > 0 and self._queue[0][0] is head:", "if self._queue[0][0] is head:")]),
    dict(name="B remove deletes the first non-match", expect="fire", rule="C17/remove-returns-the-match", edits=[(DQ, "                if predicate(elem):\n                    del self._queue[i]", "                if not predicate(elem):\n                    del self._queue[i]")]),
    dict(name="B remove loses the element", expect="fire", rule="C17/remove-returns-the-match", edits=[(DQ, "                    del self._queue[i]\n                    return elem", "                    del self._queue[i]\n                    return None")]),
    dict(name="B remove returns without deleting", expect="fire", rule="C17/remove-returns-the-match", edits=[(DQ, "                    del self._queue[i]\n                    return elem", "                    return elem")]),
    dict(name="B remove searches a snapshot outside the lock", expect="fire", rule="C17/search-and-delete-atomic", edits=[(DQ, "        with self._lock:\n            for i, (elem, *_) in enumerate(self._queue):\n                if predicate(elem):\n                    del self._queue[i]\n                    return elem\n        return None", "        with self._lock:\n            snapshot = list(self._queue)\n        for i, (elem, *_) in enumerate(snapshot):\n            if predicate(elem):\n                with self._lock:\n                    del self._queue[i]\n                return elem\n        return None")]),
    dict(name="B single sleep without re-check", expect="fire", rule="C17/delay-elapsed-before-hand-out", edits=[(DQ, "                while time_left > 0:\n                    time.sleep(time_left)\n                    time_left = insert_time + self.delay_sec - time.time()\n", "                if time_left > 0:\n                    time.sleep(time_left)\n")]),
    dict(name="B single timed wait instead of the sleep loop", expect="fire", rule="C17/delay-elapsed-before-hand-out", edits=[(DQ, "            self._not_empty.release()\n\n            # wait for delay if required\n            if delay:\n                time_left = insert_time + self.delay_sec - time.time()\n                while time_left > 0:\n                    time.sleep(time_left)\n                    time_left = insert_time + self.delay_sec - time.time()\n", "\n            if delay:\n                time_left = insert_time + self.delay_sec - time.time()\n                if time_left > 0:\n                    self._not_empty.wait(time_left)\n            self._not_empty.release()\n")]),
    dict(name="B delay subtracted instead of added", expect="fire", rule="C17/delay-elapsed-before-hand-out", edits=[(DQ, "time_left = insert_time + self.delay_sec - time.time()", "time_left = insert_time - self.delay_sec - time.time()")]),
    dict(name="B loop re-computes from a stale clock read", expect="fire", rule="C17/delay-elapsed-before-hand-out", edits=[(DQ, "                time_left = insert_time + self.delay_sec - time.time()\n                while time_left > 0:\n                    time.sleep(time_left)\n                    time_left = insert_time + self.delay_sec - time.time()\n", "                now = time.time()\n                time_left = insert_time + self.delay_sec - now\n                while time_left > 0:\n                    time.sleep(time_left)\n                    time_left = 0\n")]),
    dict(name="B other clock than put()", expect="fire", rule="C17/delay-elapsed-before-hand-out", edits=[(DQ, "                    time_left = insert_time + self.delay_sec - time.time()\n\n", "                    time_left = insert_time + self.delay_sec - time.monotonic()\n\n")]),
    dict(name="B insertion stamp read before the lock is taken", expect="fire", rule="C17/delay-elapsed-before-hand-out", edits=[(DQ, "        self._lock.acquire()\n        self._queue.append((element, time.time(), delay))\n        self._not_empty.notify()\n        self._lock.release()", "        entry = (element, time.time(), delay)\n        with self._not_empty:\n            self._queue.append(entry)\n            self._not_empty.notify()")]),
    dict(name="E entry built in a local inside the lock", expect="silent", edits=[(DQ, "        self._lock.acquire()\n        self._queue.append((element, time.time(), delay))\n        self._not_empty.notify()\n        self._lock.release()", "        with self._not_empty:\n            entry = (element, time.time(), delay)\n            self._queue.append(entry)\n            self._not_empty.notify()")]),
    dict(name="E sleep loop in break form", expect="silent", edits=[(DQ, "                time_left = insert_time + self.delay_sec - time.time()\n                while time_left > 0:\n                    time.sleep(time_left)\n                    time_left = insert_time + self.delay_sec - time.time()\n", "                while True:\n                    time_left = insert_time + self.delay_sec - time.time()\n                    if time_left <= 0:\n                        break\n                    time.sleep(time_left)\n")]),
    dict(name="E elapsed test written the other way round", expect="silent", edits=[(DQ, "                time_left = insert_time + self.delay_sec - time.time()\n                while time_left > 0:\n                    time.sleep(time_left)\n                    time_left = insert_time + self.delay_sec - time.time()\n", "                while time.time() - insert_time < self.delay_sec:\n                    time.sleep(insert_time + self.delay_sec - time.time())\n")]),
    dict(name="E with-statement for explicit pairs in put", expect="silent", edits=[(DQ, "        self._lock.acquire()\n        self._queue.append((element, time.time(), delay))\n        self._not_empty.notify()\n        self._lock.release()", "        with self._not_empty:\n            self._queue.append((element, time.time(), delay))\n            self._not_empty.notify()")]),
    dict(name="E notify -> notify_all", expect="silent", edits=[(DQ, "        self._queue.append((element, time.time(), delay))\n        self._not_empty.notify()", "        self._queue.append((element, time.time(), delay))\n        self._not_empty.notify_all()")]),
    dict(name="E closed flag set under the lock", expect="silent", edits=[(DQ, "        self._closed = True\n        # Interrupt the blocking _not_empty.wait() call in get\n        self._not_empty.acquire()\n        self._not_empty.notify()", "        # Interrupt the blocking _not_empty.wait() call in get\n        self._not_empty.acquire()\n        self._closed = True\n        self._not_empty.notify()")]),
]


def thorough(ctx):
    from ..selftest import thorough as st

    return st(ctx, VARIANTS)
