"""Load-time normalisation of two abstractions that only re-package code (applied by model.Program before anything is analysed;
reported in the evidence as `sugar_normalisation`):

* **private read-only properties**  `@property def _p(self): ...`  (name with a leading underscore, no setter / deleter): the
  property becomes a plain method and every read `self._p` in the class and its subclasses becomes the call `self._p()`.  The
  analyses follow self-calls, so a test moved into such a property (`if not self._tail_pending or ...`) is still the test.
  Public properties are left alone: they are part of the vocabulary the rules are stated in (`self.watch`, `event.is_directory`).

* **tail-call decorators**  a module-level function of the program

        def deco(method):
            @functools.wraps(method)              (optional)
            def wrapper(self, *args, **kwargs):
                <statements>
                with <cm>:                        (any nesting of with / try..finally)
                    return method(self, *args, **kwargs)
            return wrapper

  applied as `@deco` to a method: the method's body is put where the wrapper calls it (the call is the wrapper's last action, so the
  body's own `return`s mean the same), and the decorator is dropped.  `@synchronized`-style wrappers are thereby seen as the
  `with self._lock:` they add.

Nothing else is rewritten; a decorator or property of another shape is left as it is.
"""

from __future__ import annotations

import ast
import copy


def _is_name(d, name: str) -> bool:
    return isinstance(d, ast.Name) and d.id == name


def _private_properties(tree: ast.Module) -> dict[str, set[str]]:
    """class name -> names of its private read-only properties"""
    out: dict[str, set[str]] = {}
    for n in ast.walk(tree):
        if not isinstance(n, ast.ClassDef):
            continue
        props, written = set(), set()
        for f in n.body:
            if isinstance(f, ast.FunctionDef):
                for d in f.decorator_list:
                    if _is_name(d, "property") and f.name.startswith("_") and not f.name.startswith("__") and len(f.args.args) == 1 and not f.args.kwonlyargs:
                        props.add(f.name)
                    if isinstance(d, ast.Attribute) and d.attr in ("setter", "deleter") and isinstance(d.value, ast.Name):
                        written.add(d.value.id)
        props -= written
        if props:
            out[n.name] = props
    return out


def _tail_call_decorators(tree: ast.Module) -> dict[str, tuple[ast.FunctionDef, ast.FunctionDef, ast.Return]]:
    """decorator name -> (decorator def, wrapper def, the `return method(self, *args, **kwargs)` statement)"""
    out = {}
    for d in tree.body:
        if not (isinstance(d, ast.FunctionDef) and len(d.args.args) == 1 and not d.args.vararg and not d.args.kwarg and not d.decorator_list):
            continue
        mparam = d.args.args[0].arg
        body = [s for s in d.body if not (isinstance(s, ast.Expr) and isinstance(s.value, ast.Constant))]
        if len(body) != 2 or not isinstance(body[0], ast.FunctionDef) or not (isinstance(body[1], ast.Return) and _is_name(body[1].value, body[0].name)):
            continue
        w = body[0]
        for wd in w.decorator_list:  # only functools.wraps(method) is allowed on the wrapper
            if not (isinstance(wd, ast.Call) and (ast.unparse(wd.func) in ("functools.wraps", "wraps")) and len(wd.args) == 1 and _is_name(wd.args[0], mparam)):
                break
        else:
            if not (w.args.args and w.args.vararg and w.args.kwarg and not w.args.kwonlyargs and len(w.args.args) == 1):
                continue
            selfp, va, kw = w.args.args[0].arg, w.args.vararg.arg, w.args.kwarg.arg
            uses = [n for n in ast.walk(w) if _is_name(n, mparam)]
            # the tail position: last statement of the wrapper body, or of the body of a with / try..finally that is itself in tail position
            block, tail = w.body, None
            while block:
                last = block[-1]
                if isinstance(last, ast.Return):
                    tail = last
                    break
                if isinstance(last, ast.With):
                    block = last.body
                elif isinstance(last, ast.Try) and not last.handlers and not last.orelse:
                    block = last.body
                else:
                    break
            if tail is None or not isinstance(tail.value, ast.Call):
                continue
            c = tail.value
            ok = (
                _is_name(c.func, mparam)
                and len(c.args) == 2
                and _is_name(c.args[0], selfp)
                and isinstance(c.args[1], ast.Starred)
                and _is_name(c.args[1].value, va)
                and len(c.keywords) == 1
                and c.keywords[0].arg is None
                and _is_name(c.keywords[0].value, kw)
            )
            # the method is used only in that call (and in functools.wraps), the argument packs nowhere else
            packs = [n for n in ast.walk(w) if isinstance(n, ast.Name) and n.id in (va, kw) and isinstance(n.ctx, ast.Load)]
            if ok and len(uses) == 1 + len(w.decorator_list) and len(packs) == 2:
                out[d.name] = (d, w, tail)
    return out


def normalise(P) -> dict:
    report = {"private_properties": {}, "tail_call_decorators": {}}
    # ---- decorators (per module: the decorator and its uses; imported decorators are resolved through the import table)
    decos: dict[tuple[str, str], tuple] = {}
    for m in P.modules.values():
        for name, v in _tail_call_decorators(m.tree).items():
            decos[(m.name, name)] = v
    if decos:
        for m in P.modules.values():
            local = {name: v for (mn, name), v in decos.items() if mn == m.name}
            for alias, target in m.imports.items():
                mod, _, nm = target.rpartition(".")
                if (mod, nm) in decos:
                    local[alias] = decos[(mod, nm)]
            if not local:
                continue
            for cls in [n for n in ast.walk(m.tree) if isinstance(n, ast.ClassDef)]:
                for f in cls.body:
                    if not isinstance(f, ast.FunctionDef) or not f.args.args:
                        continue
                    hit = [d for d in f.decorator_list if isinstance(d, ast.Name) and d.id in local]
                    if len(hit) != 1 or f.decorator_list[-1] is not hit[0]:
                        continue  # only as the innermost decorator: what it wraps is the function as written
                    ddef, w, tail = local[hit[0].id]
                    wcopy = copy.deepcopy(w)
                    # rename the wrapper's `self` to the method's own first parameter
                    wself, mself = w.args.args[0].arg, f.args.args[0].arg
                    clash = {n.id for n in ast.walk(w) if isinstance(n, ast.Name)} - {wself, w.args.vararg.arg, w.args.kwarg.arg, ddef.args.args[0].arg}
                    mine = {a.arg for a in f.args.posonlyargs + f.args.args + f.args.kwonlyargs} | {n.id for n in ast.walk(f) if isinstance(n, ast.Name) and isinstance(n.ctx, ast.Store)}
                    if (clash & mine) - {mself}:
                        continue  # a local of the wrapper would capture a name of the method: left alone

                    class R(ast.NodeTransformer):
                        def visit_Name(self, n):
                            return ast.copy_location(ast.Name(mself, n.ctx), n) if n.id == wself else n

                    wcopy = R().visit(wcopy)
                    # find the tail return in the copy (same position) and splice the method's body there
                    block = wcopy.body
                    while True:
                        last = block[-1]
                        if isinstance(last, ast.Return):
                            block[-1:] = f.body
                            break
                        block = last.body
                    f.body = wcopy.body
                    f.decorator_list.remove(hit[0])
                    ast.fix_missing_locations(f)
                    report["tail_call_decorators"].setdefault(hit[0].id, []).append(f"{cls.name}.{f.name}")
    # ---- private properties
    props: dict[str, set[str]] = {}
    for m in P.modules.values():
        for c, ps in _private_properties(m.tree).items():
            props.setdefault(c, set()).update(ps)
    if props:
        # a class sees the private properties of its bases
        def visible(cname: str, seen=()) -> set[str]:
            out = set(props.get(cname, ()))
            ci = P.classes.get(cname)
            for b in (ci.bases if ci else []):
                if b and b not in seen:
                    out |= visible(b, (*seen, cname))
            return out

        for m in P.modules.values():
            for cls in [n for n in ast.walk(m.tree) if isinstance(n, ast.ClassDef)]:
                vis = visible(cls.name)
                if not vis:
                    continue
                for f in cls.body:
                    if not isinstance(f, ast.FunctionDef) or not f.args.args:
                        continue
                    sname = f.args.args[0].arg

                    class T(ast.NodeTransformer):
                        def visit_Attribute(self, n):
                            self.generic_visit(n)
                            if isinstance(n.ctx, ast.Load) and n.attr in vis and isinstance(n.value, ast.Name) and n.value.id == sname:
                                return ast.copy_location(ast.Call(n, [], []), n)
                            return n

                        def visit_Call(self, n):
                            # (already a call of something returned by the property: self._p(...) stays self._p()(...))
                            self.generic_visit(n)
                            return n

                    if f.name in props.get(cls.name, ()) and any(_is_name(d, "property") for d in f.decorator_list):
                        f.decorator_list = [d for d in f.decorator_list if not _is_name(d, "property")]
                        report["private_properties"].setdefault(cls.name, []).append(f.name)
                    f.body = [T().visit(s) for s in f.body]
                    ast.fix_missing_locations(f)
    return {k: v for k, v in report.items() if v}
