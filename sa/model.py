"""Program model: parses every module under /repo/src/watchdog (never imports it).

Gives: modules, classes (bases, in-repo C3 MRO), functions/methods (incl. nested ones), import tables,
attribute type tables read from annotations, and a small constant folder for integer masks.
"""

from __future__ import annotations

import ast
import hashlib
import os
import struct
from dataclasses import dataclass, field

REPO = os.environ.get("VERIF_REPO", "/repo")
SRC_ROOT = os.path.join(REPO, "src", "watchdog")


class AnalysisError(Exception):
    """Anchor vanished / statement cannot be abstracted / floor not met: exit 2, never a pass."""


@dataclass
class FuncInfo:
    name: str
    qualname: str  # Class.method or function or outer.<locals>.inner
    node: ast.FunctionDef
    module: "Module"
    cls: "ClassInfo | None" = None
    variants: list = field(default_factory=list)  # other conditional definitions

    @property
    def loc(self) -> str:
        return f"{self.module.relpath}:{self.node.lineno}"


@dataclass
class ClassInfo:
    name: str
    module: "Module"
    node: ast.ClassDef
    bases: list[str]
    methods: dict[str, FuncInfo] = field(default_factory=dict)
    attrs: dict[str, ast.expr] = field(default_factory=dict)  # class-level assignments
    decorators: list[str] = field(default_factory=list)

    @property
    def loc(self) -> str:
        return f"{self.module.relpath}:{self.node.lineno}"


@dataclass
class Module:
    name: str
    path: str
    relpath: str
    src: str
    tree: ast.Module
    imports: dict[str, str] = field(default_factory=dict)  # local alias -> dotted target
    classes: dict[str, ClassInfo] = field(default_factory=dict)
    functions: dict[str, FuncInfo] = field(default_factory=dict)
    consts: dict[str, ast.expr] = field(default_factory=dict)


def dotted(node: ast.AST) -> str | None:
    """a.b.c for Name/Attribute chains, else None."""
    parts = []
    while isinstance(node, ast.Attribute):
        parts.append(node.attr)
        node = node.value
    if isinstance(node, ast.Name):
        parts.append(node.id)
        return ".".join(reversed(parts))
    return None


def base_name(node: ast.expr) -> str:
    if isinstance(node, ast.Subscript):  # Generic[T]
        node = node.value
    d = dotted(node)
    return d or ast.unparse(node)


class Program:
    def __init__(self, root: str = SRC_ROOT):
        self.root = root
        self.modules: dict[str, Module] = {}
        self.classes: dict[str, ClassInfo] = {}
        self.parse_errors: list[str] = []
        if not os.path.isdir(root):
            raise AnalysisError(f"source root {root} missing")
        for dirpath, dirnames, filenames in os.walk(root):
            dirnames.sort()
            for fn in sorted(filenames):
                if not fn.endswith(".py"):
                    continue
                path = os.path.join(dirpath, fn)
                rel = os.path.relpath(path, os.path.dirname(os.path.dirname(root)))
                modname = os.path.relpath(path, os.path.dirname(root))[:-3].replace(os.sep, ".")
                if modname.endswith(".__init__"):
                    modname = modname[: -len(".__init__")]
                with open(path, encoding="utf-8") as fh:
                    src = fh.read()
                try:
                    tree = ast.parse(src, filename=path)
                except SyntaxError as e:  # a tree that does not parse cannot be analysed
                    raise AnalysisError(f"cannot parse {rel}: {e}") from e
                m = Module(modname, path, rel, src, tree)
                self.modules[modname] = m
                self._index_module(m)
        self._attr_types_cache: dict[str, dict[str, str]] = {}
        # private read-only properties and tail-call decorators are unfolded (sa/sugar.py); the tables are rebuilt over the result
        from .sugar import normalise as _unsugar

        self.sugar_normalisation = _unsugar(self)
        if self.sugar_normalisation:
            self.classes = {}
            for m in self.modules.values():
                m.imports, m.classes, m.functions, m.consts = {}, {}, {}, {}
                self._index_module(m)
        # method-less NamedTuple records are erased to the tuples they are (sa/records.py); the tables are rebuilt over the result
        from .records import erase

        from .records import value_classes

        self.value_classes = value_classes(self)
        self.erased_records = erase(self)
        if self.erased_records:
            self.classes = {}
            for m in self.modules.values():
                m.imports, m.classes, m.functions, m.consts = {}, {}, {}, {}
                self._index_module(m)

    # ------------------------------------------------------------------ indexing
    def _index_module(self, m: Module) -> None:
        def visit_body(body: list[ast.stmt], cls: ClassInfo | None, prefix: str) -> None:
            for st in body:
                if isinstance(st, (ast.Import, ast.ImportFrom)) and cls is None and not prefix:
                    self._index_import(m, st)
                elif isinstance(st, ast.ClassDef):
                    ci = ClassInfo(
                        st.name,
                        m,
                        st,
                        [base_name(b) for b in st.bases],
                        decorators=[ast.unparse(d) for d in st.decorator_list],
                    )
                    if cls is None:
                        m.classes[st.name] = ci
                        # first definition wins for the global table (names are unique in this repo except
                        # platform variants, which live in different modules and are looked up by module)
                        self.classes.setdefault(st.name, ci)
                    else:
                        m.classes[f"{cls.name}.{st.name}"] = ci
                        self.classes.setdefault(f"{cls.name}.{st.name}", ci)
                    visit_body(st.body, ci, "")
                elif isinstance(st, (ast.FunctionDef, ast.AsyncFunctionDef)):
                    qn = f"{cls.name}.{st.name}" if cls else prefix + st.name
                    fi = FuncInfo(st.name, qn, st, m, cls)
                    table = cls.methods if cls else m.functions
                    if st.name in table:
                        table[st.name].variants.append(fi)
                    else:
                        table[st.name] = fi
                elif isinstance(st, ast.If):
                    # conditional definitions (platform variants, TYPE_CHECKING imports): index both arms
                    visit_body(st.body, cls, prefix)
                    visit_body(st.orelse, cls, prefix)
                elif isinstance(st, ast.Try):
                    visit_body(st.body, cls, prefix)
                    for h in st.handlers:
                        visit_body(h.body, cls, prefix)
                    visit_body(st.orelse, cls, prefix)
                elif isinstance(st, ast.Assign) and len(st.targets) == 1 and isinstance(st.targets[0], ast.Name):
                    (cls.attrs if cls else m.consts)[st.targets[0].id] = st.value
                elif isinstance(st, ast.AnnAssign) and isinstance(st.target, ast.Name) and st.value is not None:
                    (cls.attrs if cls else m.consts)[st.target.id] = st.value

        visit_body(m.tree.body, None, "")
        # a base class named through a module-level alias (`_AnyQueue = queue.Queue[Any]` for type checkers, `= queue.Queue` at run
        # time): when every module-level assignment of the name denotes the same class, the class is the base
        aliases: dict[str, set[str]] = {}

        def collect(body):
            for st in body:
                if isinstance(st, ast.Assign) and len(st.targets) == 1 and isinstance(st.targets[0], ast.Name):
                    aliases.setdefault(st.targets[0].id, set()).add(base_name(st.value) if isinstance(st.value, (ast.Name, ast.Attribute, ast.Subscript)) else "?")
                elif isinstance(st, ast.AnnAssign) and isinstance(st.target, ast.Name) and st.value is not None:
                    aliases.setdefault(st.target.id, set()).add(base_name(st.value) if isinstance(st.value, (ast.Name, ast.Attribute, ast.Subscript)) else "?")
                elif isinstance(st, ast.If):
                    collect(st.body)
                    collect(st.orelse)
                elif isinstance(st, ast.Try):
                    collect(st.body)
                    collect(st.orelse)
                    for h in st.handlers:
                        collect(h.body)

        collect(m.tree.body)
        for ci in m.classes.values():
            ci.bases = [next(iter(aliases[b])) if b in aliases and len(aliases[b]) == 1 and "?" not in aliases[b] and b not in m.classes else b for b in ci.bases]

    def _index_import(self, m: Module, st: ast.stmt) -> None:
        if isinstance(st, ast.Import):
            for a in st.names:
                m.imports[a.asname or a.name.split(".")[0]] = a.name if a.asname else a.name.split(".")[0]
        elif isinstance(st, ast.ImportFrom):
            mod = st.module or ""
            for a in st.names:
                m.imports[a.asname or a.name] = f"{mod}.{a.name}"

    # ------------------------------------------------------------------ lookups
    def module(self, name: str) -> Module:
        if name not in self.modules:
            raise AnalysisError(f"anchor vanished: module {name}")
        return self.modules[name]

    def cls(self, name: str) -> ClassInfo:
        if name not in self.classes:
            raise AnalysisError(f"anchor vanished: class {name}")
        return self.classes[name]

    def has_cls(self, name: str) -> bool:
        return name in self.classes

    def func(self, modname: str, name: str) -> FuncInfo:
        m = self.module(modname)
        if name not in m.functions:
            raise AnalysisError(f"anchor vanished: function {modname}.{name}")
        return m.functions[name]

    def mro(self, name: str) -> list[str]:
        """C3 linearisation over in-repo classes; external bases are kept as leaf names."""

        def lin(n: str, seen: tuple = ()) -> list[str]:
            if n in seen:
                raise AnalysisError(f"inheritance cycle at {n}")
            ci = self.classes.get(n)
            if ci is None:
                return [n]
            seqs = [lin(b.split(".")[-1] if b.split(".")[-1] in self.classes else b, seen + (n,)) for b in ci.bases]
            seqs.append([b.split(".")[-1] if b.split(".")[-1] in self.classes else b for b in ci.bases])
            res = [n]
            seqs = [list(s) for s in seqs if s]
            while seqs:
                for s in seqs:
                    cand = s[0]
                    if not any(cand in t[1:] for t in seqs):
                        break
                else:
                    raise AnalysisError(f"inconsistent MRO for {n}")
                res.append(cand)
                seqs = [[x for x in s if x != cand] for s in seqs]
                seqs = [s for s in seqs if s]
            return res

        return lin(name)

    def is_subclass(self, name: str, base: str) -> bool:
        return base in self.mro(name)

    def subclasses(self, base: str, *, strict: bool = False) -> list[str]:
        out = []
        for n in self.classes:
            if "." in n:
                continue
            if base in self.mro(n) and not (strict and n == base):
                out.append(n)
        return sorted(out)

    def find_method(self, clsname: str, meth: str) -> FuncInfo | None:
        for c in self.mro(clsname):
            ci = self.classes.get(c)
            if ci and meth in ci.methods:
                return ci.methods[meth]
        return None

    def public_owners(self, clsname: str) -> dict[str, list[str]]:
        """method -> the public methods of the class on whose behalf it runs: itself when public, otherwise the public methods that reach
        it through self-calls (an operation moved into a private helper still belongs to the operation that calls the helper)."""
        ci = self.cls(clsname)
        # (a method handed on as a value -- `cond.wait_for(self._ready)`, `partial(self._match, x)` -- is used by the method that hands it on)
        calls = {
            m: {n.attr for n in ast.walk(fi.node) if isinstance(n, ast.Attribute) and isinstance(n.ctx, ast.Load) and dotted(n.value) in ("self", clsname) and n.attr in ci.methods}
            for m, fi in ci.methods.items()
        }
        out = {}
        for m in ci.methods:
            if not m.startswith("_") or (m.startswith("__") and m.endswith("__")):
                out[m] = [m]
                continue
            own, seen, todo = set(), {m}, [m]
            while todo:
                cur = todo.pop()
                for caller, cs in calls.items():
                    if cur in cs and caller not in seen:
                        seen.add(caller)
                        if caller.startswith("_") and not caller.endswith("__"):
                            todo.append(caller)
                        else:
                            own.add(caller)
            out[m] = sorted(own) or [m]
        return out

    def self_closure(self, clsname: str, meth: str) -> list[FuncInfo]:
        """The method and every method of the class it reaches through self-calls (resolved over the MRO), callee after caller."""
        out, seen, todo = [], set(), [meth]
        while todo:
            m = todo.pop(0)
            if m in seen:
                continue
            seen.add(m)
            fi = self.find_method(clsname, m)
            if fi is None:
                continue
            out.append(fi)
            for n in ast.walk(fi.node):
                if isinstance(n, ast.Call) and isinstance(n.func, ast.Attribute) and dotted(n.func.value) in ("self", clsname):
                    todo.append(n.func.attr)
        return out

    def param_scopes(self, clsname: str, meth: str, param: str, skip: tuple = ()) -> list[tuple[FuncInfo, str]]:
        """(function, name) pairs: the method with its parameter, and every method it reaches through self-calls that is handed that
        parameter unchanged, with the name it has there (a piece of the method moved into a private helper is still judged)."""
        out, seen = [], set()
        todo = [(meth, param)]
        while todo:
            m, pn = todo.pop(0)
            if (m, pn) in seen or m in skip and out:
                continue
            seen.add((m, pn))
            fi = self.find_method(clsname, m)
            if fi is None:
                continue
            out.append((fi, pn))
            for n in ast.walk(fi.node):
                if isinstance(n, ast.Call) and isinstance(n.func, ast.Attribute) and dotted(n.func.value) in ("self", clsname) and n.func.attr not in skip:
                    callee = self.find_method(clsname, n.func.attr)
                    if callee is None:
                        continue
                    ps = [a.arg for a in callee.node.args.posonlyargs + callee.node.args.args]
                    if ps and ps[0] in ("self", "cls") and not any(isinstance(d, ast.Name) and d.id == "staticmethod" for d in callee.node.decorator_list):
                        ps = ps[1:]
                    for cp, a in zip(ps, n.args):
                        if isinstance(a, ast.Name) and a.id == pn:
                            todo.append((n.func.attr, cp))
                    for k in n.keywords:
                        if k.arg and isinstance(k.value, ast.Name) and k.value.id == pn:
                            todo.append((n.func.attr, k.arg))
        return out

    def find_method_after(self, clsname: str, after: str, meth: str) -> FuncInfo | None:
        """super() lookup: first definition of meth in MRO(clsname) strictly after class `after`."""
        mro = self.mro(clsname)
        if after not in mro:
            return None
        for c in mro[mro.index(after) + 1 :]:
            ci = self.classes.get(c)
            if ci and meth in ci.methods:
                return ci.methods[meth]
        return None

    def class_attr(self, clsname: str, attr: str) -> tuple[str, ast.expr] | None:
        for c in self.mro(clsname):
            ci = self.classes.get(c)
            if ci and attr in ci.attrs:
                return c, ci.attrs[attr]
        return None

    # ------------------------------------------------------------------ attribute types (annotation driven)
    def attr_types(self, clsname: str) -> dict[str, str]:
        """self.<attr> -> class name, from `self.x: T = ...`, `self.x = T(...)`, `self.x = T[...]( ...)`,
        and (for parameters) `self.x = param` with an annotated parameter. Union/Optional stripped to the
        single in-repo (or well-known) class it mentions."""
        if clsname in self._attr_types_cache:
            return self._attr_types_cache[clsname]
        out: dict[str, str] = {}
        for c in reversed(self.mro(clsname)):
            ci = self.classes.get(c)
            if not ci:
                continue
            for fi in ci.methods.values():
                ptypes = {}
                for a in fi.node.args.args + fi.node.args.kwonlyargs:
                    if a.annotation is not None:
                        t = self.type_of_annotation(a.annotation)
                        if t:
                            ptypes[a.arg] = t
                for n in ast.walk(fi.node):
                    tgt = val = ann = None
                    if isinstance(n, ast.AnnAssign):
                        tgt, val, ann = n.target, n.value, n.annotation
                    elif isinstance(n, ast.Assign) and len(n.targets) == 1:
                        tgt, val = n.targets[0], n.value
                    if not (isinstance(tgt, ast.Attribute) and isinstance(tgt.value, ast.Name) and tgt.value.id == "self"):
                        continue
                    t = None
                    if ann is not None:
                        t = self.type_of_annotation(ann)
                    if t is None and isinstance(val, ast.Call):
                        f = val.func
                        if isinstance(f, ast.Subscript):
                            f = f.value
                        d = dotted(f)
                        if d:
                            t = self.known_type(d, ci.module)
                    if t is None and isinstance(val, ast.Name) and val.id in ptypes:
                        t = ptypes[val.id]
                    if t:
                        out[tgt.attr] = t
            # properties returning self._x : alias the type
            for mname, fi in ci.methods.items():
                if any(isinstance(d, ast.Name) and d.id == "property" for d in fi.node.decorator_list):
                    t = None
                    if fi.node.returns is not None:
                        t = self.type_of_annotation(fi.node.returns)
                    if t is None:
                        for n in ast.walk(fi.node):
                            if isinstance(n, ast.Return) and isinstance(n.value, ast.Attribute):
                                if isinstance(n.value.value, ast.Name) and n.value.value.id == "self":
                                    t = out.get(n.value.attr)
                    if t:
                        out[mname] = t
        self._attr_types_cache[clsname] = out
        return out

    WELL_KNOWN = {
        "threading.Lock": "threading.Lock",
        "threading.RLock": "threading.RLock",
        "threading.Condition": "threading.Condition",
        "threading.Event": "threading.Event",
        "threading.Thread": "threading.Thread",
        "queue.Queue": "queue.Queue",
        "deque": "collections.deque",
        "collections.deque": "collections.deque",
        "subprocess.Popen": "subprocess.Popen",
        "select.poll": "select.poll",
    }

    def known_type(self, d: str, module: Module | None = None) -> str | None:
        last = d.split(".")[-1]
        if last in self.classes:
            return last
        if d in self.WELL_KNOWN:
            return self.WELL_KNOWN[d]
        if module is not None and d in module.imports:
            tgt = module.imports[d]
            if tgt in self.WELL_KNOWN:
                return self.WELL_KNOWN[tgt]
            if tgt.split(".")[-1] in self.classes:
                return tgt.split(".")[-1]
        return None

    def type_of_annotation(self, ann: ast.expr) -> str | None:
        """Single class named by an annotation, Optional/Union with None stripped; containers -> None."""
        if isinstance(ann, ast.Constant) and isinstance(ann.value, str):
            try:
                ann = ast.parse(ann.value, mode="eval").body
            except SyntaxError:
                return None
        if isinstance(ann, ast.BinOp) and isinstance(ann.op, ast.BitOr):
            parts = []
            for side in (ann.left, ann.right):
                if isinstance(side, ast.Constant) and side.value is None:
                    continue
                parts.append(self.type_of_annotation(side))
            parts = [p for p in parts if p]
            return parts[0] if len(parts) == 1 else None
        if isinstance(ann, ast.Subscript):
            d = dotted(ann.value)
            if d in ("Optional", "typing.Optional"):
                return self.type_of_annotation(ann.slice)
            if d and d.split(".")[-1] in ("Popen",):
                return "subprocess.Popen"
            if d and d.split(".")[-1] in self.classes:
                return d.split(".")[-1]
            return None
        d = dotted(ann)
        if d is None:
            return None
        return self.known_type(d)

    def elem_type_of_annotation(self, ann: ast.expr) -> str | None:
        """Element (set/list) or value (dict/defaultdict) class of a container annotation."""
        if isinstance(ann, ast.Constant) and isinstance(ann.value, str):
            try:
                ann = ast.parse(ann.value, mode="eval").body
            except SyntaxError:
                return None
        if isinstance(ann, ast.Subscript):
            d = (dotted(ann.value) or "").split(".")[-1]
            sl = ann.slice
            if d in ("set", "list", "frozenset", "deque", "Iterable", "Sequence"):
                return self.type_of_annotation(sl) or self.elem_type_of_annotation(sl)
            if d in ("dict", "defaultdict") and isinstance(sl, ast.Tuple) and len(sl.elts) == 2:
                return self.type_of_annotation(sl.elts[1]) or self.elem_type_of_annotation(sl.elts[1])
        return None

    def container_elem_types(self, clsname: str) -> dict[str, str]:
        out: dict[str, str] = {}
        for c in reversed(self.mro(clsname)):
            ci = self.classes.get(c)
            if not ci:
                continue
            for fi in ci.methods.values():
                for n in ast.walk(fi.node):
                    if isinstance(n, ast.AnnAssign) and isinstance(n.target, ast.Attribute):
                        if isinstance(n.target.value, ast.Name) and n.target.value.id == "self":
                            t = self.elem_type_of_annotation(n.annotation)
                            if t:
                                out[n.target.attr] = t
        return out

    # ------------------------------------------------------------------ constant folding (integer masks)
    def fold(self, expr: ast.expr, module: Module, cls: ClassInfo | None = None, _depth: int = 0):
        """Fold an expression to an int / str / tuple constant, or None."""
        if _depth > 40:
            return None
        f = lambda e: self.fold(e, module, cls, _depth + 1)  # noqa: E731
        if isinstance(expr, ast.Constant):
            return expr.value
        if isinstance(expr, ast.Name):
            if cls is not None and expr.id in cls.attrs:
                return f(cls.attrs[expr.id])
            if expr.id in module.consts:
                return self.fold(module.consts[expr.id], module, None, _depth + 1)
            if expr.id in module.imports:
                tgt = module.imports[expr.id]
                mod, _, nm = tgt.rpartition(".")
                if mod in self.modules and nm in self.modules[mod].consts:
                    return self.fold(self.modules[mod].consts[nm], self.modules[mod], None, _depth + 1)
            return None
        if isinstance(expr, ast.Attribute):
            d = dotted(expr)
            if d:
                head, _, attr = d.rpartition(".")
                cname = head.split(".")[-1]
                got = None
                if cname in self.classes:
                    got = self.class_attr(cname, attr)
                if got:
                    owner, e = got
                    oc = self.classes[owner]
                    return self.fold(e, oc.module, oc, _depth + 1)
                if head in module.imports and module.imports[head] in self.modules:
                    mm = self.modules[module.imports[head]]
                    if attr in mm.consts:
                        return self.fold(mm.consts[attr], mm, None, _depth + 1)
            return None
        if isinstance(expr, ast.BinOp):
            a, b = f(expr.left), f(expr.right)
            if isinstance(a, int) and isinstance(b, int):
                op = expr.op
                if isinstance(op, ast.BitOr):
                    return a | b
                if isinstance(op, ast.BitAnd):
                    return a & b
                if isinstance(op, ast.BitXor):
                    return a ^ b
                if isinstance(op, ast.Add):
                    return a + b
                if isinstance(op, ast.Sub):
                    return a - b
                if isinstance(op, ast.Mult):
                    return a * b
                if isinstance(op, ast.LShift):
                    return a << b
            return None
        if isinstance(expr, ast.UnaryOp):
            a = f(expr.operand)
            if isinstance(a, int):
                if isinstance(expr.op, ast.Invert):
                    return ~a
                if isinstance(expr.op, ast.USub):
                    return -a
            return None
        if isinstance(expr, (ast.Tuple, ast.List)):
            vals = [f(e) for e in expr.elts]
            return tuple(vals) if all(v is not None for v in vals) else None
        if isinstance(expr, ast.Call):
            d = dotted(expr.func) or ""
            # reduce(lambda x, y: x | y, [...])
            if d.split(".")[-1] == "reduce" and len(expr.args) >= 2 and isinstance(expr.args[0], ast.Lambda):
                lam = expr.args[0]
                if isinstance(lam.body, ast.BinOp) and isinstance(lam.body.op, ast.BitOr):
                    vals = f(expr.args[1])
                    if isinstance(vals, tuple) and all(isinstance(v, int) for v in vals):
                        r = 0
                        for v in vals:
                            r |= v
                        return r
            if d in ("struct.calcsize",) and expr.args:
                a = f(expr.args[0])
                if isinstance(a, str):
                    try:
                        return struct.calcsize(a)
                    except struct.error:
                        return None
            return None
        return None

    # ------------------------------------------------------------------ misc
    def digest(self) -> str:
        h = hashlib.sha256()
        for name in sorted(self.modules):
            h.update(name.encode())
            h.update(self.modules[name].src.encode())
        return h.hexdigest()[:16]

    def all_functions(self):
        for m in self.modules.values():
            for fi in m.functions.values():
                yield fi
                yield from fi.variants
            for ci in m.classes.values():
                for fi in ci.methods.values():
                    yield fi
                    yield from fi.variants


def returned_name(fn: ast.FunctionDef) -> str | None:
    """Name of the local variable every `return` of fn (not of nested functions) returns, or None."""
    names = set()

    def walk(n):
        for ch in ast.iter_child_nodes(n):
            if isinstance(ch, (ast.FunctionDef, ast.AsyncFunctionDef, ast.Lambda, ast.ClassDef)):
                continue
            if isinstance(ch, ast.Return):
                names.add(ch.value.id if isinstance(ch.value, ast.Name) else None)
            walk(ch)

    walk(fn)
    names.discard(None) if len(names) > 1 else None
    return next(iter(names)) if len(names) == 1 and None not in names else None


def nested_function(fn: ast.FunctionDef, pred=lambda f: True) -> ast.FunctionDef | None:
    for n in ast.walk(fn):
        if isinstance(n, ast.FunctionDef) and n is not fn and pred(n):
            return n
    return None


def src_of(node: ast.AST) -> str:
    return ast.unparse(node)


def norm_stmt(node: ast.AST) -> str:
    """Normalised statement text used to key findings (never line numbers)."""
    s = ast.unparse(node)
    return " ".join(s.split())[:160]


def boolified(fi: FuncInfo) -> FuncInfo:
    """A copy of a predicate function in which every `return E` with a non-literal E reads `if E: return True / else: return
    False`, so that path enumeration decides the returned truth value through the engine's own three-valued branching."""
    import copy
    import dataclasses

    class _T(ast.NodeTransformer):
        def visit_FunctionDef(self, n):
            if n is not root:
                return n
            self.generic_visit(n)
            return n

        def visit_Lambda(self, n):
            return n

        def visit_Return(self, n):
            if n.value is None or isinstance(n.value, ast.Constant):
                return n
            v = n.value
            while isinstance(v, ast.Call) and isinstance(v.func, ast.Name) and v.func.id == "bool" and len(v.args) == 1 and not v.keywords:
                v = v.args[0]
            t = ast.If(v, [ast.Return(ast.Constant(True))], [ast.Return(ast.Constant(False))])
            return ast.fix_missing_locations(ast.copy_location(t, n))

    root = copy.deepcopy(fi.node)
    _T().visit(root)
    ast.fix_missing_locations(root)
    return dataclasses.replace(fi, node=root)
