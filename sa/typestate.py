"""Two-thread typestate exploration over skeletons *sliced from the source*.

A skeleton is a set of linear op sequences (one per enumerated path of a method, sliced down to the operations that touch the
tracked state).  Ops:
    ('lock', L) ('unlock', L)
    ('test', var, bool)        proceeds only if the shared variable has that value (the complementary path covers the rest)
    ('set', var, bool)
    ('use', fd) ('close', fd)  resource operations
    ('block', cond_vars)       blocking call: enabled iff one of the shared variables in cond_vars is true
    ('join', thread)           enabled iff that thread has finished
    ('opt', op)                the op may or may not happen (loop bodies executed zero or more times)
    ('end',)
Threads are interleaved op by op (a lock held by another thread blocks 'lock'); everything reachable is explored (a few hundred
to a few thousand states).  Nothing is executed and no solver is used.
"""

from __future__ import annotations

from dataclasses import dataclass, field


@dataclass
class Thread:
    name: str
    # a thread is a *sequence of stages*; each stage is a choice among alternative op sequences (paths)
    stages: list[list[list[tuple]]]


@dataclass
class Verdict:
    kind: str  # 'use-after-close' | 'double-close' | 'leak' | 'blocked-forever' | 'unlock-not-held'
    detail: str
    trace: list[str] = field(default_factory=list)


def explore(threads: list[Thread], init_vars: dict[str, bool], fds: list[str], leak_when: str | None, max_states: int = 400000):
    """Exhaustive interleaving exploration. leak_when: name of the shared var that means 'release was requested'."""
    verdicts: dict[str, Verdict] = {}
    nthreads = len(threads)
    # per-thread position: (stage index, path index or -1 if not chosen, op index)
    start = (
        tuple((0, -1, 0) for _ in threads),
        tuple(sorted(init_vars.items())),
        tuple((f, True) for f in fds),  # open?
        tuple(),  # locks held: (lock, thread index)
    )
    seen = {start}
    stack = [(start, [])]
    nstates = ntrans = 0

    def finished(pos, ti):
        return pos[ti][0] >= len(threads[ti].stages)

    while stack:
        state, trace = stack.pop()
        nstates += 1
        if nstates > max_states:
            raise RuntimeError("typestate exploration exceeded its bound")
        pos, vars_t, fds_t, locks_t = state
        vars_ = dict(vars_t)
        fdo = dict(fds_t)
        locks = dict(locks_t)
        succs = []
        blocked_info = []
        infeasible = False
        for ti, th in enumerate(threads):
            if finished(pos, ti):
                continue
            si, pi, oi = pos[ti]
            stage = th.stages[si]
            choices = range(len(stage)) if pi == -1 else [pi]
            any_enabled = False
            failed_test = False
            nblocked_before = len(blocked_info)
            for ci in choices:
                path = stage[ci]
                if oi >= len(path):
                    # stage done -> next stage
                    npos = list(pos)
                    npos[ti] = (si + 1, -1, 0)
                    succs.append(((tuple(npos), vars_t, fds_t, locks_t), f"{th.name}: stage {si} done"))
                    any_enabled = True
                    continue
                op = path[oi]
                opt = False
                if op[0] == "opt":
                    opt, op = True, op[1]
                alts = [op] + ([("skip",)] if opt else [])
                for o in alts:
                    nv, nf, nl = dict(vars_), dict(fdo), dict(locks)
                    k = o[0]
                    label = f"{th.name}: {o}"
                    if k == "lock":
                        if nl.get(o[1]) not in (None,):
                            blocked_info.append((ti, f"waiting for lock {o[1]}"))
                            continue
                        nl[o[1]] = ti
                    elif k == "unlock":
                        if nl.get(o[1]) != ti:
                            verdicts.setdefault("unlock-not-held", Verdict("unlock-not-held", f"{th.name} releases {o[1]} it does not hold", trace + [label]))
                            continue
                        del nl[o[1]]
                    elif k == "test":
                        if nv.get(o[1], False) != o[2]:
                            failed_test = True
                            continue  # this path is not the one taken in this state
                    elif k == "testin":
                        # ("testin", var, values, truth): the path is taken iff (var's value is one of `values`) == truth
                        if (nv.get(o[1], False) in o[2]) != o[3]:
                            failed_test = True
                            continue
                    elif k == "set":
                        nv[o[1]] = o[2]
                    elif k == "use":
                        if not nf.get(o[1], True):
                            verdicts.setdefault(f"use-after-close {o[1]}", Verdict("use-after-close", f"{th.name} uses descriptor {o[1]} after it was closed ({o[2] if len(o) > 2 else ''})", trace + [label]))
                            continue
                    elif k == "close":
                        if not nf.get(o[1], True):
                            verdicts.setdefault(f"double-close {o[1]}", Verdict("double-close", f"{th.name} closes descriptor {o[1]} twice", trace + [label]))
                            continue
                        nf[o[1]] = False
                    elif k == "block":
                        if not any(nv.get(v, False) for v in o[1]):
                            blocked_info.append((ti, f"blocked in {o[2] if len(o) > 2 else 'a blocking call'}"))
                            continue
                        # a blocking call on descriptors is also a use of them
                        bad = [f for f in (o[3] if len(o) > 3 else []) if not nf.get(f, True)]
                        if bad:
                            verdicts.setdefault(f"use-after-close {bad[0]}", Verdict("use-after-close", f"{th.name} polls descriptor {bad[0]} after it was closed", trace + [label]))
                            continue
                    elif k == "join":
                        tj = o[1]
                        if not finished(pos, tj):
                            blocked_info.append((ti, f"joining {threads[tj].name}"))
                            continue
                    elif k in ("skip", "end", "nop"):
                        pass
                    else:
                        raise RuntimeError(f"unknown op {o}")
                    npos = list(pos)
                    npos[ti] = (si, ci, oi + 1)
                    succs.append(((tuple(npos), tuple(sorted(nv.items())), tuple(sorted(nf.items())), tuple(sorted(nl.items()))), label))
                    any_enabled = True
            if not any_enabled and failed_test and len(blocked_info) == nblocked_before:
                infeasible = True  # this thread sits on a path whose test does not hold here: the state belongs to no real execution
        if not succs:
            if infeasible:
                continue
            # terminal: every thread finished or blocked
            unfinished = [threads[ti].name for ti in range(nthreads) if not finished(pos, ti)]
            if unfinished:
                why = "; ".join(f"{threads[ti].name} {w}" for ti, w in blocked_info)
                verdicts.setdefault("blocked-forever " + ",".join(unfinished), Verdict("blocked-forever", f"no thread can move: {why}", list(trace)))
            elif leak_when and vars_.get(leak_when, False):
                open_fds = [f for f, o in fdo.items() if o]
                if open_fds:
                    verdicts.setdefault("leak " + ",".join(open_fds), Verdict("leak", f"all threads finished, release was requested, but {open_fds} are still open", list(trace)))
            continue
        for s, label in succs:
            ntrans += 1
            if s not in seen:
                seen.add(s)
                stack.append((s, trace + [label]))
    return list(verdicts.values()), nstates, ntrans
