"""Annotation-driven call resolution and reachability (class-hierarchy analysis for virtual calls)."""

from __future__ import annotations

import ast
from typing import Callable

from .model import AnalysisError, FuncInfo, Program, dotted


def local_types(P: Program, fi: FuncInfo, selfcls: str | None) -> dict[str, str]:
    """name -> class, from parameter annotations, `x = T(...)`, `x = self.attr` (typed), `for x in self.<typed container>`."""
    out: dict[str, str] = {}
    a = fi.node.args
    for p in a.posonlyargs + a.args + a.kwonlyargs:
        if p.annotation is not None:
            t = P.type_of_annotation(p.annotation)
            if t:
                out[p.arg] = t
    at = P.attr_types(selfcls) if selfcls and selfcls in P.classes else {}
    ct = P.container_elem_types(selfcls) if selfcls and selfcls in P.classes else {}
    for n in ast.walk(fi.node):
        if isinstance(n, ast.Assign) and len(n.targets) == 1 and isinstance(n.targets[0], ast.Name):
            v = n.value
            t = None
            if isinstance(v, ast.Call):
                f = v.func.value if isinstance(v.func, ast.Subscript) else v.func
                d = dotted(f)
                if d:
                    t = P.known_type(d, fi.module)
                if t is None and d == "self._emitter_class":
                    t = "EventEmitter"
            elif isinstance(v, ast.Attribute) and isinstance(v.value, ast.Name) and v.value.id == "self":
                t = at.get(v.attr)
            elif isinstance(v, ast.Subscript) and isinstance(v.value, ast.Attribute):
                d = dotted(v.value)
                if d and d.startswith("self."):
                    t = ct.get(d.split(".")[1])
            if t:
                out[n.targets[0].id] = t
        elif isinstance(n, ast.AnnAssign) and isinstance(n.target, ast.Name):
            t = P.type_of_annotation(n.annotation)
            if t:
                out[n.target.id] = t
        elif isinstance(n, ast.For) and isinstance(n.target, ast.Name):
            it = n.iter
            if isinstance(it, ast.Call) and isinstance(it.func, ast.Attribute) and it.func.attr in ("copy",):
                it = it.func.value
            if isinstance(it, ast.Call) and isinstance(it.func, ast.Name) and it.func.id in ("list", "set", "tuple", "sorted", "frozenset") and it.args:
                it = it.args[0]
            if isinstance(it, ast.Subscript):
                it = it.value
            d = dotted(it)
            if d and d.startswith("self.") and d.count(".") == 1:
                t = ct.get(d.split(".")[1])
                if t:
                    out[n.target.id] = t
    return out


class CallGraph:
    def __init__(self, P: Program):
        self.P = P
        self.unresolved: list[str] = []

    def concrete(self, cls: str) -> list[str]:
        """cls and its in-repo subclasses (virtual dispatch targets)."""
        return self.P.subclasses(cls)

    def resolve(self, call: ast.Call, fi: FuncInfo, selfcls: str | None, ltypes: dict[str, str], *, virtual: bool = True) -> tuple[list[tuple[str | None, FuncInfo]], str]:
        """Targets [(selfcls_of_callee, FuncInfo)], and the rendered callee name (for external calls)."""
        P = self.P
        f = call.func
        name = dotted(f) or ast.unparse(f)
        targets: list[tuple[str | None, FuncInfo]] = []
        if isinstance(f, ast.Name):
            if f.id in fi.module.functions:
                targets.append((None, fi.module.functions[f.id]))
            elif f.id in fi.module.imports:
                tgt = fi.module.imports[f.id]
                mod, _, nm = tgt.rpartition(".")
                if mod in P.modules and nm in P.modules[mod].functions:
                    targets.append((None, P.modules[mod].functions[nm]))
                elif nm in P.classes:
                    init = P.find_method(nm, "__init__")
                    if init:
                        targets.append((nm, init))
            elif f.id in P.classes:
                init = P.find_method(f.id, "__init__")
                if init:
                    targets.append((f.id, init))
            return targets, name
        if not isinstance(f, ast.Attribute):
            return targets, name
        meth = f.attr
        recv = f.value
        # super().m()
        if isinstance(recv, ast.Call) and isinstance(recv.func, ast.Name) and recv.func.id == "super" and fi.cls and selfcls:
            t = P.find_method_after(selfcls, fi.cls.name, meth)
            if t:
                targets.append((selfcls, t))
            return targets, name
        rd = dotted(recv)
        rtype = None
        if rd == "self" and selfcls:
            t = P.find_method(selfcls, meth)
            if t:
                targets.append((selfcls, t))
                if virtual:
                    for sub in P.subclasses(selfcls, strict=True):
                        ts = P.find_method(sub, meth)
                        if ts and ts is not t and (sub, ts) not in targets:
                            targets.append((sub, ts))
            return targets, name
        if rd and rd.startswith("self.") and selfcls:
            t = selfcls
            for a in rd.split(".")[1:]:
                t = P.attr_types(t).get(a) if t in P.classes else None
                if t is None:
                    break
            rtype = t
        elif rd and rd.split(".")[0] in ltypes:
            t = ltypes[rd.split(".")[0]]
            for a in rd.split(".")[1:]:
                t = P.attr_types(t).get(a) if t in P.classes else None
                if t is None:
                    break
            rtype = t
        elif rd and rd.split(".")[-1] in P.classes and rd.split(".")[0] not in ltypes:
            # Class.method(...) (static / explicit base call)
            c = rd.split(".")[-1]
            t = P.find_method(c, meth)
            if t:
                targets.append((selfcls if selfcls and P.is_subclass(selfcls, c) else c, t))
            return targets, name
        if rtype and rtype in P.classes:
            subs = P.subclasses(rtype) if virtual else [rtype]
            seen = set()
            for c in subs:
                t = P.find_method(c, meth)
                if t and id(t) not in seen:
                    seen.add(id(t))
                    targets.append((c, t))
            return targets, name
        if rtype:
            return targets, f"{rtype}.{meth}"
        return targets, name

    def reach(self, roots: list[tuple[str | None, FuncInfo]], on_call: Callable, stop_at: set | None = None, max_nodes: int = 4000):
        """DFS over resolved calls from roots. on_call(chain, call_node, name, targets, fi, selfcls) is invoked for every
        call site visited; chain is the list of qualnames from the root."""
        seen = set()
        stack = [(c, fi, [f"{c + '::' if c else ''}{fi.qualname}"]) for c, fi in roots]
        while stack:
            selfcls, fi, chain = stack.pop()
            key = (selfcls, fi.qualname, fi.module.name)
            if key in seen:
                continue
            seen.add(key)
            if len(seen) > max_nodes:
                raise AnalysisError("call graph exploration exceeded its bound")
            lt = local_types(self.P, fi, selfcls)
            nested = {n.name: n for n in ast.walk(fi.node) if isinstance(n, ast.FunctionDef) and n is not fi.node}
            for n in ast.walk(fi.node):
                if not isinstance(n, ast.Call):
                    continue
                targets, name = self.resolve(n, fi, selfcls, lt)
                if isinstance(n.func, ast.Name) and n.func.id in nested:
                    continue  # nested closure: its body is part of ast.walk(fi.node) already
                on_call(chain, n, name, targets, fi, selfcls)
                for c, t in targets:
                    if stop_at and (t.cls.name if t.cls else None, t.name) in stop_at:
                        continue
                    stack.append((c, t, chain + [f"{c + '::' if c else ''}{t.qualname}"]))
        return seen


def reach_calls(P: Program, roots: list[tuple[str, str]], pred: Callable[[str], bool], stop_at: set | None = None) -> list[dict]:
    cg = CallGraph(P)
    rs = []
    for c, m in roots:
        fi = P.find_method(c, m)
        if fi is None:
            raise AnalysisError(f"anchor vanished: {c}.{m}")
        rs.append((c, fi))
    hits: list[dict] = []

    def on_call(chain, node, name, targets, fi, selfcls):
        if pred(name.split(".")[-1]) or pred(name):
            hits.append({"chain": chain, "call": name, "loc": f"{fi.module.relpath}:{node.lineno}"})

    cg.reach(rs, on_call, stop_at)
    return hits
