"""Abstract evaluation of small pure functions over constants and *class symbols*.

Used for functions whose result is a finite table computed from the source (the filter -> kernel-mask function):
the function body is interpreted over integers (folded through the program's constant tables), booleans, tuples /
sets of class symbols and the class lattice read from the source.  Anything outside the supported subset raises
AnalysisError (exit 2) — an unsupported construct is never a silent pass.  Nothing of /repo is imported or run.
"""

from __future__ import annotations

import ast
from dataclasses import dataclass

from .model import AnalysisError, ClassInfo, Module, Program, dotted


@dataclass(frozen=True)
class ClassVal:
    name: str

    def __repr__(self) -> str:
        return self.name


class _Return(Exception):
    def __init__(self, v):
        self.v = v


class _Break(Exception):
    pass


class _Continue(Exception):
    pass


@dataclass(frozen=True)
class _Lam:
    node: ast.Lambda
    env: dict

    def __hash__(self):
        return id(self.node)


@dataclass(frozen=True)
class _Op:
    op: ast.operator


@dataclass(frozen=True)
class _Meth:
    """a bound method of the object under evaluation, used as a value (e.g. handed to filter())"""

    name: str


OPERATOR_FUNCS = {"operator.or_": ast.BitOr(), "operator.and_": ast.BitAnd(), "operator.xor": ast.BitXor(), "operator.add": ast.Add(), "operator.sub": ast.Sub(), "operator.ior": ast.BitOr()}


class MiniEval:
    def __init__(self, P: Program, module: Module, cls: ClassInfo | None, attrs: dict[str, object]):
        """attrs: values for dotted self-attributes, e.g. {'self._event_filter': frozenset({ClassVal('X')})}."""
        self.P = P
        self.module = module
        self.cls = cls
        self.attrs = attrs
        self.steps = 0

    # ---------------------------------------------------------------- statements
    def call_function(self, fn: ast.FunctionDef, args: dict[str, object]):
        env = dict(args)
        try:
            self.block(fn.body, env)
        except _Return as r:
            return r.v
        return None

    def block(self, stmts, env):
        for s in stmts:
            self.stmt(s, env)

    def stmt(self, s, env):
        self.steps += 1
        if self.steps > 200000:
            raise AnalysisError("minieval: step bound exceeded")
        if isinstance(s, ast.Expr):
            if isinstance(s.value, ast.Constant):
                return
            self.expr(s.value, env)
        elif isinstance(s, ast.Assign):
            v = self.expr(s.value, env)
            for t in s.targets:
                self.assign(t, v, env)
        elif isinstance(s, ast.AnnAssign):
            if s.value is not None:
                self.assign(s.target, self.expr(s.value, env), env)
        elif isinstance(s, ast.AugAssign):
            cur = self.expr(ast.Name(s.target.id, ast.Load()), env) if isinstance(s.target, ast.Name) else None
            if cur is None:
                raise AnalysisError("minieval: augmented assignment to a non-name")
            env[s.target.id] = self.binop(s.op, cur, self.expr(s.value, env))
        elif isinstance(s, ast.If):
            self.block(s.body if self.truth(self.expr(s.test, env)) else s.orelse, env)
        elif isinstance(s, ast.For):
            it = self.expr(s.iter, env)
            broke = False
            for x in self.iterate(it):
                self.assign(s.target, x, env)
                try:
                    self.block(s.body, env)
                except _Break:
                    broke = True
                    break
                except _Continue:
                    continue
            if not broke:
                self.block(s.orelse, env)
        elif isinstance(s, ast.Return):
            raise _Return(self.expr(s.value, env) if s.value is not None else None)
        elif isinstance(s, ast.Break):
            raise _Break
        elif isinstance(s, ast.Continue):
            raise _Continue
        elif isinstance(s, ast.Pass):
            return
        else:
            raise AnalysisError(f"minieval: unsupported statement {type(s).__name__} at line {s.lineno}")

    def assign(self, t, v, env):
        if isinstance(t, ast.Name):
            env[t.id] = v
        elif isinstance(t, (ast.Tuple, ast.List)):
            vs = list(v)
            if len(vs) != len(t.elts):
                raise AnalysisError("minieval: unpack length mismatch")
            for a, b in zip(t.elts, vs):
                self.assign(a, b, env)
        else:
            raise AnalysisError(f"minieval: unsupported assignment target {type(t).__name__}")

    # ---------------------------------------------------------------- expressions
    def iterate(self, v):
        if isinstance(v, (tuple, list)):
            return list(v)
        if isinstance(v, (set, frozenset)):
            return sorted(v, key=repr)
        if isinstance(v, dict):
            return list(v.keys())
        raise AnalysisError(f"minieval: cannot iterate {type(v).__name__}")

    def truth(self, v) -> bool:
        if isinstance(v, ClassVal):
            return True
        return bool(v)

    def binop(self, op, a, b):
        if isinstance(a, int) and isinstance(b, int):
            if isinstance(op, ast.BitOr):
                return a | b
            if isinstance(op, ast.BitAnd):
                return a & b
            if isinstance(op, ast.BitXor):
                return a ^ b
            if isinstance(op, ast.Add):
                return a + b
            if isinstance(op, ast.Sub):
                return a - b
        if isinstance(a, (set, frozenset)) and isinstance(b, (set, frozenset)):
            if isinstance(op, ast.BitOr):
                return frozenset(a | b)
            if isinstance(op, ast.BitAnd):
                return frozenset(a & b)
            if isinstance(op, ast.Sub):
                return frozenset(a - b)
        if isinstance(a, (tuple, list)) and isinstance(b, (tuple, list)) and isinstance(op, ast.Add):
            return tuple(a) + tuple(b)
        raise AnalysisError(f"minieval: unsupported operands for {type(op).__name__}")

    def apply(self, f, args):
        """Call of a function value: a lambda closure, or one of operator's binary functions."""
        if isinstance(f, _Lam):
            names = [a.arg for a in f.node.args.args]
            if len(names) != len(args) or f.node.args.vararg or f.node.args.kwonlyargs:
                raise AnalysisError("minieval: lambda called with the wrong number of arguments")
            return self.expr(f.node.body, {**f.env, **dict(zip(names, args))})
        if isinstance(f, _Op) and len(args) == 2:
            return self.binop(f.op, args[0], args[1])
        if isinstance(f, _Meth):
            call = ast.Call(ast.Attribute(ast.Name("self", ast.Load()), f.name, ast.Load()), [ast.Name(f"arg{i}__", ast.Load()) for i in range(len(args))], [])
            return self.expr(call, {"self": None, **{f"arg{i}__": a for i, a in enumerate(args)}})
        raise AnalysisError(f"minieval: cannot call {f!r}")

    def issub(self, a, b) -> bool:
        if not isinstance(a, ClassVal):
            raise AnalysisError("minieval: issubclass() of a non-class")
        bs = b if isinstance(b, (tuple, list)) else [b]
        return any(isinstance(x, ClassVal) and x.name in self.P.mro(a.name) for x in bs)

    def expr(self, e, env):
        P = self.P
        if isinstance(e, ast.Constant):
            return e.value
        if isinstance(e, ast.Name):
            if e.id in env:
                return env[e.id]
            if e.id in ("True", "False", "None"):
                return {"True": True, "False": False, "None": None}[e.id]
            if e.id in P.classes and (e.id in self.module.classes or e.id in self.module.imports):
                return ClassVal(e.id)
            if self.module.imports.get(e.id) in OPERATOR_FUNCS:
                return _Op(OPERATOR_FUNCS[self.module.imports[e.id]])
            v = P.fold(e, self.module, self.cls)
            if v is not None:
                return v
            if self.cls and e.id in self.cls.attrs:
                return self.expr(self.cls.attrs[e.id], {})
            if e.id in self.module.consts:
                return self.expr(self.module.consts[e.id], {})
            raise AnalysisError(f"minieval: unknown name {e.id}")
        if isinstance(e, ast.Attribute):
            d = dotted(e)
            if d and d in self.attrs:
                return self.attrs[d]
            if d and d.startswith("self.") and d.count(".") == 1 and self.cls is not None and env.get("self") is None:
                mfi = P.find_method(self.cls.name, e.attr)
                if mfi is not None and not any(isinstance(x, ast.Name) and x.id in ("property", "staticmethod", "classmethod") for x in mfi.node.decorator_list):
                    return _Meth(e.attr)
                if mfi is not None and any(isinstance(x, ast.Name) and x.id == "property" for x in mfi.node.decorator_list):
                    # a read-only property of the same object: its getter, evaluated under the same field values
                    oc = mfi.cls or self.cls
                    return MiniEval(P, oc.module, oc, self.attrs).call_function(mfi.node, {"self": None})
            if d and d.startswith("self.") and d.count(".") == 1 and self.cls is not None:
                got = P.class_attr(self.cls.name, e.attr)
                if got:
                    owner, ex = got
                    oc = P.classes[owner]
                    return MiniEval(P, oc.module, oc, self.attrs).expr(ex, {})
            if d and d.startswith("self.") and d.count(".") == 1 and self.cls is not None:
                # a write-once field derived in __init__ from other fields (`self._classes = tuple(self._filter) if ... else None`)
                # means what its defining expression means under the given field values
                from .flow import _init_store

                got = _init_store(P, self.cls.name, e.attr)
                if got is not None and not isinstance(got[1], ast.Name):
                    oc = P.classes[got[0]]
                    return MiniEval(P, oc.module, oc, self.attrs).expr(got[1], {})
            if d and d.split(".")[0] in self.module.imports and ".".join([self.module.imports[d.split(".")[0]]] + d.split(".")[1:]) in OPERATOR_FUNCS:
                return _Op(OPERATOR_FUNCS[".".join([self.module.imports[d.split(".")[0]]] + d.split(".")[1:])])
            v = P.fold(e, self.module, self.cls)
            if v is not None:
                return v
            if d and d.split(".")[-1] in P.classes:
                return ClassVal(d.split(".")[-1])
            raise AnalysisError(f"minieval: unknown attribute {d or ast.unparse(e)}")
        if isinstance(e, ast.BinOp):
            return self.binop(e.op, self.expr(e.left, env), self.expr(e.right, env))
        if isinstance(e, ast.UnaryOp):
            v = self.expr(e.operand, env)
            if isinstance(e.op, ast.Not):
                return not self.truth(v)
            if isinstance(e.op, ast.Invert) and isinstance(v, int):
                return ~v
            raise AnalysisError("minieval: unsupported unary operator")
        if isinstance(e, ast.BoolOp):
            if isinstance(e.op, ast.And):
                v = True
                for x in e.values:
                    v = self.expr(x, env)
                    if not self.truth(v):
                        return v
                return v
            v = False
            for x in e.values:
                v = self.expr(x, env)
                if self.truth(v):
                    return v
            return v
        if isinstance(e, ast.IfExp):
            return self.expr(e.body if self.truth(self.expr(e.test, env)) else e.orelse, env)
        if isinstance(e, ast.Compare):
            left = self.expr(e.left, env)
            for op, c in zip(e.ops, e.comparators):
                right = self.expr(c, env)
                if isinstance(op, (ast.Is, ast.Eq)):
                    ok = left == right
                elif isinstance(op, (ast.IsNot, ast.NotEq)):
                    ok = left != right
                elif isinstance(op, ast.In):
                    ok = left in self.iterate(right)
                elif isinstance(op, ast.NotIn):
                    ok = left not in self.iterate(right)
                elif isinstance(op, (ast.Gt, ast.GtE, ast.Lt, ast.LtE)) and isinstance(left, int) and isinstance(right, int):
                    ok = {ast.Gt: left > right, ast.GtE: left >= right, ast.Lt: left < right, ast.LtE: left <= right}[type(op)]
                else:
                    raise AnalysisError("minieval: unsupported comparison")
                if not ok:
                    return False
                left = right
            return True
        if isinstance(e, (ast.Tuple, ast.List)):
            return tuple(self.expr(x, env) for x in e.elts)
        if isinstance(e, ast.Set):
            return frozenset(self.expr(x, env) for x in e.elts)
        if isinstance(e, ast.Dict):
            return {self.expr(k, env): self.expr(v, env) for k, v in zip(e.keys, e.values)}
        if isinstance(e, ast.Subscript):
            c = self.expr(e.value, env)
            k = self.expr(e.slice, env)
            try:
                return c[k]
            except Exception as ex:
                raise AnalysisError(f"minieval: subscript failed: {ex}") from ex
        if isinstance(e, (ast.GeneratorExp, ast.ListComp, ast.SetComp)):
            out = []

            def rec(gens, env2):
                if not gens:
                    out.append(self.expr(e.elt, env2))
                    return
                g = gens[0]
                for x in self.iterate(self.expr(g.iter, env2)):
                    env3 = dict(env2)
                    self.assign(g.target, x, env3)
                    if all(self.truth(self.expr(c, env3)) for c in g.ifs):
                        rec(gens[1:], env3)

            rec(e.generators, dict(env))
            return frozenset(out) if isinstance(e, ast.SetComp) else tuple(out)
        if isinstance(e, ast.NamedExpr):
            v = self.expr(e.value, env)
            self.assign(e.target, v, env)
            return v
        if isinstance(e, ast.Lambda):
            return _Lam(e, dict(env))
        if isinstance(e, ast.Call):
            d = dotted(e.func) or ""
            if d.split(".")[0] in self.module.imports and d.split(".")[0] not in env:
                d = ".".join([self.module.imports[d.split(".")[0]]] + d.split(".")[1:])  # through the import table: or_ -> operator.or_
            args = [self.expr(a, env) for a in e.args]
            if d in ("filter", "map") and len(args) == 2 and not e.keywords and d not in env:
                items = list(self.iterate(args[1]))
                if d == "map":
                    return tuple(self.apply(args[0], [x]) for x in items)
                return tuple(x for x in items if (self.truth(x) if args[0] is None else self.truth(self.apply(args[0], [x]))))
            if d in ("functools.reduce", "reduce") and len(args) in (2, 3) and not e.keywords:
                items = list(self.iterate(args[1]))
                if len(args) == 3:
                    acc = args[2]
                elif items:
                    acc, items = items[0], items[1:]
                else:
                    raise AnalysisError("minieval: reduce() of an empty sequence without an initial value")
                for x in items:
                    acc = self.apply(args[0], [acc, x])
                return acc
            # pure helpers of the same class / module are evaluated in place
            helper = None
            if isinstance(e.func, ast.Attribute) and isinstance(e.func.value, ast.Name) and e.func.value.id == "self" and self.cls is not None and env.get("self") is None:
                hfi = P.find_method(self.cls.name, e.func.attr)
                if hfi is not None and not any(isinstance(x, ast.Name) and x.id in ("property", "staticmethod", "classmethod") for x in hfi.node.decorator_list):
                    helper = (hfi, 1)
            elif isinstance(e.func, ast.Name) and e.func.id not in env and e.func.id in self.module.functions:
                helper = (self.module.functions[e.func.id], 0)
            if helper is not None:
                hfi, skip = helper
                a_ = hfi.node.args
                if a_.vararg or a_.kwarg:
                    raise AnalysisError(f"minieval: helper {hfi.qualname} takes *args / **kwargs")
                names = [x.arg for x in a_.posonlyargs + a_.args][skip:]
                bound = dict(zip(names, args))
                if skip:
                    bound[(a_.posonlyargs + a_.args)[0].arg] = None
                for k in e.keywords:
                    if k.arg is None:
                        raise AnalysisError("minieval: ** in a helper call")
                    bound[k.arg] = self.expr(k.value, env)
                allp = a_.posonlyargs + a_.args
                for p_, dflt in zip(allp[len(allp) - len(a_.defaults) :], a_.defaults):
                    bound.setdefault(p_.arg, self.expr(dflt, {}))
                for p_, dflt in zip(a_.kwonlyargs, a_.kw_defaults):
                    if dflt is not None:
                        bound.setdefault(p_.arg, self.expr(dflt, {}))
                missing = [n for n in names + [x.arg for x in a_.kwonlyargs] if n not in bound]
                if missing or len(args) > len(names):
                    raise AnalysisError(f"minieval: call of {hfi.qualname} does not bind {missing or 'its arguments'}")
                self.depth = getattr(self, "depth", 0) + 1
                if self.depth > 8:
                    raise AnalysisError("minieval: helper recursion too deep")
                try:
                    sub = MiniEval(P, hfi.module, hfi.cls if skip else None, self.attrs) if (hfi.module is not self.module or (hfi.cls if skip else None) is not self.cls) else self
                    return sub.call_function(hfi.node, bound)
                finally:
                    self.depth -= 1
            if isinstance(e.func, ast.Name) and isinstance(env.get(e.func.id), _Lam):
                return self.apply(env[e.func.id], args)
            if d == "issubclass" and len(args) == 2:
                return self.issub(args[0], args[1])
            if d == "any" and len(args) == 1:
                return any(self.truth(x) for x in self.iterate(args[0]))
            if d == "all" and len(args) == 1:
                return all(self.truth(x) for x in self.iterate(args[0]))
            if d in ("frozenset", "set") and len(args) <= 1:
                return frozenset(self.iterate(args[0])) if args else frozenset()
            if d in ("tuple", "list", "sorted") and len(args) == 1:
                return tuple(self.iterate(args[0]))
            if d == "len" and len(args) == 1:
                return len(self.iterate(args[0]))
            # mutation of a local container through its methods (values are immutable here: the name is re-bound)
            if isinstance(e.func, ast.Attribute) and isinstance(e.func.value, ast.Name) and e.func.value.id in env and e.func.attr in ("add", "update", "discard", "remove", "append", "extend", "clear"):
                nm, cur = e.func.value.id, env[e.func.value.id]
                if isinstance(cur, (set, frozenset)):
                    if e.func.attr == "add" and len(args) == 1:
                        env[nm] = frozenset(cur | {args[0]})
                    elif e.func.attr == "update":
                        new = set(cur)
                        for a in args:
                            new |= set(self.iterate(a))
                        env[nm] = frozenset(new)
                    elif e.func.attr in ("discard", "remove") and len(args) == 1:
                        if e.func.attr == "remove" and args[0] not in cur:
                            raise AnalysisError("minieval: set.remove of a missing element")
                        env[nm] = frozenset(cur - {args[0]})
                    elif e.func.attr == "clear":
                        env[nm] = frozenset()
                    else:
                        raise AnalysisError(f"minieval: unsupported set method {e.func.attr}")
                    return None
                if isinstance(cur, (tuple, list)):
                    if e.func.attr == "append" and len(args) == 1:
                        env[nm] = tuple(cur) + (args[0],)
                    elif e.func.attr == "extend" and len(args) == 1:
                        env[nm] = tuple(cur) + tuple(self.iterate(args[0]))
                    elif e.func.attr == "clear":
                        env[nm] = ()
                    else:
                        raise AnalysisError(f"minieval: unsupported list method {e.func.attr}")
                    return None
            if isinstance(e.func, ast.Attribute) and e.func.attr in ("items", "keys", "values") and not args:
                c = self.expr(e.func.value, env)
                if isinstance(c, dict):
                    return tuple(getattr(c, e.func.attr)())
            if isinstance(e.func, ast.Attribute) and e.func.attr == "get" and args:
                c = self.expr(e.func.value, env)
                if isinstance(c, dict):
                    return c.get(args[0], args[1] if len(args) > 1 else None)
            v = self.P.fold(e, self.module, self.cls)
            if v is not None:
                return v
            raise AnalysisError(f"minieval: unsupported call {d or ast.unparse(e.func)}")
        raise AnalysisError(f"minieval: unsupported expression {type(e).__name__}")
