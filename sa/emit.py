"""Shared extraction of *emission tables* from emitter translation functions (used by C01, C03, C11, C19, C20, C10).

An emission table row = one path of `queue_events` (under the predicate abstraction of pse.py) with
  - its valuation (which native predicates are true / false on it),
  - the ordered emissions: events constructed and handed to `queue_event`, sub-event generators drained into
    `queue_event`, `stop()` calls.
"""

from __future__ import annotations

import ast
from dataclasses import dataclass, field

from .model import AnalysisError, FuncInfo, Program, dotted
from .pse import Cfg, Enumerator, Ev, Path, St, render

GENERATORS = ("generate_sub_moved_events", "generate_sub_created_events")


@dataclass
class Emission:
    kind: str  # 'E' event, 'G' generator drained, 'STOP', 'LOOP'
    cls: str = ""
    args: list[str] = field(default_factory=list)
    kwargs: dict[str, str] = field(default_factory=dict)
    node: ast.AST | None = None
    inner: list = field(default_factory=list)  # for LOOP: list of emission lists (one per body path)
    iter: str = ""
    term: ast.AST | None = None

    def brief(self) -> str:
        if self.kind == "E":
            kw = "".join(f", {k}={v}" for k, v in self.kwargs.items())
            return f"{self.cls}({', '.join(self.args)}{kw})"
        if self.kind == "G":
            return f"emit* {self.cls}({', '.join(self.args)})"
        if self.kind == "STOP":
            return "STOP"
        return f"LOOP[{self.iter}]{{{' | '.join(' ; '.join(e.brief() for e in p) for p in self.inner)}}}"


class EmitterCfg(Cfg):
    """Inlines same-class private helpers; leaves queue_event / stop / path codecs as visible calls."""

    deny = {"queue_event", "stop", "_decode_path", "_encode_path", "queue_events", "should_keep_running"}
    max_inline_depth = 3

    def __init__(self, program: Program, aliases: dict[str, str] | None = None):
        super().__init__(program)
        self.aliases = aliases or {}
        self.exclusive: list[set[str]] = []  # groups of atoms of which at most one may be true
        self.implies: list[tuple[str, str]] = []  # a true => b true

    def inline(self, call, func_text, recv_cls, st):
        if func_text.startswith("self.") and func_text.count(".") == 1 and st.selfcls:
            name = func_text.split(".")[1]
            if name in self.deny:
                return None
            fi = self.program.find_method(st.selfcls, name)
            if fi is not None and not any(
                isinstance(d, ast.Name) and d.id == "property" for d in fi.node.decorator_list
            ):
                return fi, st.selfcls, None
        return None

    def canon_atom(self, text, st):
        for k, v in self.aliases.items():
            text = text.replace(k, v)
        return text

    def consistent(self, val):
        for grp in self.exclusive:
            if sum(1 for a in grp if val.get(a) is True) > 1:
                return False
        for a, b in self.implies:
            if val.get(a) is True and val.get(b) is False:
                return False
        return True


def apply_aliases(text: str, aliases: dict[str, str]) -> str:
    for k, v in aliases.items():
        text = text.replace(k, v)
    return text


EXTRA_SINKS: set[str] = set()  # methods of the emitter under analysis recognised as filtered hand-overs to queue_event (see C20)


def is_queue_event_call(e: Ev) -> bool:
    f = e.extra.get("func", "")
    return e.kind == "call" and (f == "self.queue_event" or f.endswith(".queue_event") or (f.startswith("self.") and f[5:] in EXTRA_SINKS))


def emissions_of(path_evs: list[Ev], program: Program, aliases: dict[str, str]) -> list[Emission]:
    out: list[Emission] = []
    for e in path_evs:
        if e.kind == "call":
            f = e.extra.get("func", "")
            if is_queue_event_call(e):
                term = e.extra.get("term")
                args = term.args if term is not None else []
                # EventEmitter.queue_event(self, ev) form
                arg = args[-1] if args else None
                if isinstance(arg, ast.Call) and isinstance(arg.func, ast.Name) and not arg.func.id.startswith("$"):
                    out.append(
                        Emission(
                            "E",
                            arg.func.id,
                            [apply_aliases(render(a), aliases) for a in arg.args],
                            {k.arg: apply_aliases(render(k.value), aliases) for k in arg.keywords if k.arg},
                            e.node,
                            term=arg,
                        )
                    )
                else:
                    out.append(Emission("E", "?", [apply_aliases(render(arg), aliases) if arg is not None else ""], {}, e.node, term=arg))
            elif f == "self.stop":
                out.append(Emission("STOP", node=e.node))
        elif e.kind == "loop":
            it = e.extra.get("paths")
            node = e.node
            iter_term = None
            if isinstance(node, ast.For):
                iter_text = e.text
            else:
                iter_text = e.text
            inner = [emissions_of(p.evs, program, aliases) for p in it]
            gen = None
            for g in GENERATORS:
                if iter_text.startswith(g + "("):
                    gen = g
            if gen:
                # every body path must hand exactly the loop element to queue_event
                ok = all(
                    len(em) == 1 and em[0].kind == "E" and em[0].cls == "?" and em[0].args and em[0].args[0].startswith("$elem(")
                    for em in inner
                ) and bool(inner)
                it_term = e.extra.get("iter_term")
                if isinstance(it_term, ast.Call):
                    args = [apply_aliases(render(a), aliases) for a in it_term.args]
                else:
                    args = []
                out.append(Emission("G" if ok else "G?", gen, args, {}, e.node, inner=inner, iter=iter_text))
            elif any(em for em in inner):
                out.append(Emission("LOOP", iter=apply_aliases(iter_text, aliases), inner=inner, node=e.node))
    return out


@dataclass
class Row:
    path: Path
    val: dict[str, bool]
    emissions: list[Emission]
    mode: dict

    def brief(self) -> str:
        return " ; ".join(e.brief() for e in self.emissions) or "(nothing)"

    def pos(self) -> list[str]:
        return [a for a, v in self.val.items() if v]


def inotify_event_implications(P: Program) -> list[tuple[str, str]]:
    """X => is_directory for every kind predicate X whose bits all make is_directory true (DELETE_SELF, MOVE_SELF): read from the
    predicates' truth tables (inotify_predicate_tables), however is_directory is spelled."""
    ci = P.cls("InotifyEvent")
    if "is_directory" not in ci.methods:
        raise AnalysisError("anchor vanished: InotifyEvent.is_directory")
    tabs = inotify_predicate_tables(P)
    d = tabs.get("is_directory")
    if not d:
        raise AnalysisError("InotifyEvent.is_directory could not be evaluated abstractly")
    out = []
    for name, tab in sorted(tabs.items()):
        if name == "is_directory":
            continue
        bits = [m for m, v in tab.items() if v and m]
        if bits and all(d.get(m) for m in bits):
            out.append((name, "is_directory"))
    return out


def inotify_predicate_tables(P: Program) -> dict[str, dict[int, object]]:
    """InotifyEvent.is_<x> -> {mask: value} over the masks 0 and every single IN_* bit: each property's getter evaluated abstractly
    (sa/minieval.py: integers, bit operations, comparisons, boolean operators, helper methods and other properties of the same
    object) with `self._mask` set to that mask.  However the test is spelled -- `self._mask & C > 0`, a helper `self._has(C)`, a
    combined mask -- the table says which bits make it true."""
    from .minieval import MiniEval

    ci = P.cls("InotifyEvent")
    consts = inotify_constants(P)
    bits = sorted({v for k, v in consts.items() if k.startswith("IN_") and v and v & (v - 1) == 0})
    out: dict[str, dict[int, object]] = {}
    for name, fi in ci.methods.items():
        if not name.startswith("is_") or not any(isinstance(d, ast.Name) and d.id == "property" for d in fi.node.decorator_list):
            continue
        tab = {}
        for m in [0, *bits]:
            try:
                tab[m] = MiniEval(P, ci.module, ci, {"self._mask": m}).call_function(fi.node, {"self": None})
            except AnalysisError:
                tab = {}
                break
        if tab:
            out[name] = tab
    return out


def inotify_flag_of_property(P: Program) -> dict[str, int]:
    """InotifyEvent property name -> the mask it tests: the union of the single bits that make its getter true (see
    inotify_predicate_tables).  Only properties that are false on the empty mask and decided by the bits alone are listed."""
    out = {}
    for name, tab in inotify_predicate_tables(P).items():
        if tab.get(0) is not False or not all(isinstance(v, bool) for v in tab.values()):
            continue
        m = 0
        for b, v in tab.items():
            if v:
                m |= b
        if m:
            out[name] = m
    return out


def inotify_constants(P: Program) -> dict[str, int]:
    ci = P.cls("InotifyConstants")
    out = {}
    for k, e in ci.attrs.items():
        v = P.fold(e, ci.module, ci)
        if isinstance(v, int):
            out[k] = v
    return out


KIND_FLAGS = [
    "is_moved_to",
    "is_moved_from",
    "is_attrib",
    "is_modify",
    "is_delete",
    "is_create",
    "is_delete_self",
    "is_open",
    "is_close_write",
    "is_close_nowrite",
    "is_access",
    "is_move_self",
    "is_ignored",
]


def inotify_emitter_table(P: Program, clsname: str = "InotifyEmitter"):
    """Rows of InotifyEmitter.queue_events for full_events in (False, True)."""
    fi = P.find_method(clsname, "queue_events")
    if fi is None or fi.cls is None:
        raise AnalysisError(f"anchor vanished: {clsname}.queue_events")
    # the parameter that switches "full events" mode: the keyword-only bool of the base implementation
    base = P.find_method("InotifyEmitter", "queue_events")
    kwonly = [a.arg for a in base.node.args.kwonlyargs]
    if len(kwonly) != 1:
        raise AnalysisError("InotifyEmitter.queue_events: expected exactly one keyword-only mode parameter")
    mode_param = kwonly[0]
    aliases = {"self._inotify.read_event()": "ev"}
    rows: list[Row] = []
    npaths = 0
    for full in (False, True):
        cfg = EmitterCfg(P, aliases)
        # an inotify record carries one event bit (the constants are distinct powers of two: checked below)
        for recv in ("ev", "ev[0]", "ev[1]"):
            cfg.exclusive.append({f"{recv}.{k}" for k in KIND_FLAGS})
            for a, b in inotify_event_implications(P):
                cfg.implies.append((f"{recv}.{a}", f"{recv}.{b}"))
        en = Enumerator(cfg)
        paths = en.run(base, selfcls=clsname, bind={mode_param: ast.Constant(full)})
        npaths += len(paths)
        for p in paths:
            rows.append(Row(p, dict(p.val), emissions_of(p.evs, P, aliases), {"full": full}))
    return rows, npaths, base


def check_flag_constants_distinct(P: Program) -> tuple[bool, dict[str, int]]:
    consts = inotify_constants(P)
    flags = inotify_flag_of_property(P)
    single = {k: v for k, v in flags.items() if k in KIND_FLAGS}
    ok = all(v and (v & (v - 1)) == 0 for v in single.values()) and len(set(single.values())) == len(single)
    return ok, single
